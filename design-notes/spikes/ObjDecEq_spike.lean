namespace Sp
inductive Obj where
  | none
  | int (i : Int)
  | str (s : String)
  | list (xs : List Obj)
  | dict (kvs : List (Obj × Obj))
  deriving Repr, Inhabited, BEq

#eval (Obj.list [.int 1, .str "a"]) == (Obj.list [.int 1, .str "a"])

-- hand-written decidable equality via mutual recursion
mutual
def Obj.deq : (a b : Obj) → Decidable (a = b)
  | .none, .none => isTrue rfl
  | .int i, .int j => if h : i = j then isTrue (by rw [h]) else isFalse (by intro e; cases e; exact h rfl)
  | .str i, .str j => if h : i = j then isTrue (by rw [h]) else isFalse (by intro e; cases e; exact h rfl)
  | .list xs, .list ys => match Obj.deqList xs ys with
      | isTrue h => isTrue (by rw [h])
      | isFalse h => isFalse (by intro e; cases e; exact h rfl)
  | .dict xs, .dict ys => match Obj.deqKV xs ys with
      | isTrue h => isTrue (by rw [h])
      | isFalse h => isFalse (by intro e; cases e; exact h rfl)
  | .none, .int _ => isFalse (by intro e; cases e)
  | .none, .str _ => isFalse (by intro e; cases e)
  | .none, .list _ => isFalse (by intro e; cases e)
  | .none, .dict _ => isFalse (by intro e; cases e)
  | .int _, .none => isFalse (by intro e; cases e)
  | .int _, .str _ => isFalse (by intro e; cases e)
  | .int _, .list _ => isFalse (by intro e; cases e)
  | .int _, .dict _ => isFalse (by intro e; cases e)
  | .str _, .none => isFalse (by intro e; cases e)
  | .str _, .int _ => isFalse (by intro e; cases e)
  | .str _, .list _ => isFalse (by intro e; cases e)
  | .str _, .dict _ => isFalse (by intro e; cases e)
  | .list _, .none => isFalse (by intro e; cases e)
  | .list _, .int _ => isFalse (by intro e; cases e)
  | .list _, .str _ => isFalse (by intro e; cases e)
  | .list _, .dict _ => isFalse (by intro e; cases e)
  | .dict _, .none => isFalse (by intro e; cases e)
  | .dict _, .int _ => isFalse (by intro e; cases e)
  | .dict _, .str _ => isFalse (by intro e; cases e)
  | .dict _, .list _ => isFalse (by intro e; cases e)
def Obj.deqList : (a b : List Obj) → Decidable (a = b)
  | [], [] => isTrue rfl
  | [], _ :: _ => isFalse (by intro e; cases e)
  | _ :: _, [] => isFalse (by intro e; cases e)
  | x :: xs, y :: ys => match Obj.deq x y, Obj.deqList xs ys with
      | isTrue h1, isTrue h2 => isTrue (by rw [h1, h2])
      | isFalse h, _ => isFalse (by intro e; cases e; exact h rfl)
      | _, isFalse h => isFalse (by intro e; cases e; exact h rfl)
def Obj.deqKV : (a b : List (Obj × Obj)) → Decidable (a = b)
  | [], [] => isTrue rfl
  | [], _ :: _ => isFalse (by intro e; cases e)
  | _ :: _, [] => isFalse (by intro e; cases e)
  | (k, v) :: xs, (k', v') :: ys => match Obj.deq k k', Obj.deq v v', Obj.deqKV xs ys with
      | isTrue h1, isTrue h2, isTrue h3 => isTrue (by rw [h1, h2, h3])
      | isFalse h, _, _ => isFalse (by intro e; cases e; exact h rfl)
      | _, isFalse h, _ => isFalse (by intro e; cases e; exact h rfl)
      | _, _, isFalse h => isFalse (by intro e; cases e; exact h rfl)
end
instance : DecidableEq Obj := Obj.deq

example : (Obj.list [.int 1, .dict [(.str "a", .none)]]) ≠ (Obj.list [.int 1, .dict [(.str "b", .none)]]) := by decide
end Sp
