namespace Modes

inductive Obj where
  | none
  | int (i : Int)
  | str (s : String)
  | list (xs : List Obj)
  | dict (kvs : List (String × Obj))
  | inst (c : Nat) (fs : List (String × Obj))
  deriving Repr, Inhabited

inductive Ty where
  | int
  | str
  | list (t : Ty)
  | opt (t : Ty)
  | cls (c : Nat)
  deriving Repr, Inhabited

structure Field where
  name : String
  ty : Ty
  dflt : Option Obj        -- `some d`: optional with default d
  deriving Repr

abbrev Tbl := List (List Field)
def Tbl.fields (tbl : Tbl) (c : Nat) : List Field := match tbl[c]? with | some f => f | none => []

structure Coerce where
  toInt : Obj → Option Int
  toStr : Obj → Option String

/-- error trees of the detailed mode -/
inductive Err where
  | leaf
  | cls (c : Nat) (subs : List (String × Err))
  | iter (subs : List (Nat × Err))
  deriving Repr, Inhabited

def dlookup (kvs : List (String × Obj)) (n : String) : Option Obj :=
  match kvs with
  | [] => none
  | (k, v) :: rest => if k == n then some v else dlookup rest n

theorem dlookup_lt {kvs : List (String × Obj)} {n v} (h : dlookup kvs n = some v) :
    sizeOf v < sizeOf kvs := by
  induction kvs with
  | nil => simp [dlookup] at h
  | cons p rest ih =>
    cases p with
    | mk k w =>
      simp only [dlookup] at h
      split at h
      · cases h; simp; omega
      · have := ih h; simp; omega

mutual
/-- fast mode: first error wins -/
def stF (co : Coerce) (tbl : Tbl) : Ty → Obj → Option Obj
  | .int, x => (co.toInt x).map .int
  | .str, x => (co.toStr x).map .str
  | .list t, .list xs => (stFList co tbl t xs).map .list
  | .opt _, .none => some .none
  | .opt t, x => stF co tbl t x
  | .cls c, .dict kvs => (stFFields co tbl (tbl.fields c) kvs).map (.inst c)
  | _, _ => none
termination_by t x => (sizeOf x, sizeOf t)
def stFList (co : Coerce) (tbl : Tbl) (t : Ty) : List Obj → Option (List Obj)
  | [] => some []
  | x :: xs => match stF co tbl t x with
    | none => none
    | some y => (stFList co tbl t xs).map (y :: ·)
termination_by xs => (sizeOf xs, sizeOf t)
/-- per field: required → `o[k]`; optional → `if k in o` -/
def stFFields (co : Coerce) (tbl : Tbl) : List Field → (kvs : List (String × Obj)) → Option (List (String × Obj))
  | [], _ => some []
  | f :: fds, kvs =>
    match h : dlookup kvs f.name with
    | none => match f.dflt with
      | none => none                                        -- KeyError
      | some d => (stFFields co tbl fds kvs).map ((f.name, d) :: ·)
    | some v => match stF co tbl f.ty v with
      | none => none
      | some y => (stFFields co tbl fds kvs).map ((f.name, y) :: ·)
termination_by fds kvs => (sizeOf kvs, fds.length)
decreasing_by
  all_goals first
    | decreasing_tactic
    | (apply Prod.Lex.left; exact dlookup_lt h)
end


mutual
/-- detailed mode: every element / attribute is tried, errors are collected into a tree -/
def stD (co : Coerce) (tbl : Tbl) : Ty → Obj → Except Err Obj
  | .int, x => match co.toInt x with | some i => .ok (.int i) | none => .error .leaf
  | .str, x => match co.toStr x with | some i => .ok (.str i) | none => .error .leaf
  | .list t, .list xs =>
      let r := stDList co tbl t xs 0
      if r.2.isEmpty then .ok (.list r.1) else .error (.iter r.2)
  | .opt _, .none => .ok .none
  | .opt t, x => stD co tbl t x
  | .cls c, .dict kvs =>
      let r := stDFields co tbl (tbl.fields c) kvs
      if r.2.isEmpty then .ok (.inst c r.1) else .error (.cls c r.2)
  | _, _ => .error .leaf
termination_by t x => (sizeOf x, sizeOf t)
def stDList (co : Coerce) (tbl : Tbl) (t : Ty) : List Obj → Nat → List Obj × List (Nat × Err)
  | [], _ => ([], [])
  | x :: xs, ix =>
    let r := stDList co tbl t xs (ix + 1)
    match stD co tbl t x with
    | .ok y => (y :: r.1, r.2)
    | .error e => (r.1, (ix, e) :: r.2)
termination_by xs _ => (sizeOf xs, sizeOf t)
def stDFields (co : Coerce) (tbl : Tbl) : List Field → (kvs : List (String × Obj)) →
    List (String × Obj) × List (String × Err)
  | [], _ => ([], [])
  | f :: fds, kvs =>
    let r := stDFields co tbl fds kvs
    match h : dlookup kvs f.name with
    | none => match f.dflt with
      | none => (r.1, (f.name, .leaf) :: r.2)                 -- KeyError, noted with the field name
      | some d => ((f.name, d) :: r.1, r.2)
    | some v => match stD co tbl f.ty v with
      | .ok y => ((f.name, y) :: r.1, r.2)
      | .error e => (r.1, (f.name, e) :: r.2)
termination_by fds kvs => (sizeOf kvs, fds.length)
decreasing_by
  all_goals first
    | decreasing_tactic
    | (apply Prod.Lex.left; exact dlookup_lt h)
end

def Except.toOpt {ε α} : Except ε α → Option α
  | .ok a => some a
  | .error _ => none

theorem toOpt_ok {ε α} (a : α) : Except.toOpt (Except.ok a : Except ε α) = some a := rfl
theorem toOpt_err {ε α} (e : ε) : Except.toOpt (Except.error e : Except ε α) = none := rfl

theorem toOpt_none {ε α} {x : Except ε α} (h : Except.toOpt x = none) : ∃ e, x = .error e := by
  cases x with
  | ok a => simp [Except.toOpt] at h
  | error e => exact ⟨e, rfl⟩
theorem toOpt_some {ε α} {x : Except ε α} {a} (h : Except.toOpt x = some a) : x = .ok a := by
  cases x with
  | ok b => simp [Except.toOpt] at h; rw [h]
  | error e => simp [Except.toOpt] at h

/-- C04 (core): the two modes accept the same inputs with the same results. -/
theorem modes_agree (co : Coerce) (tbl : Tbl) :
    (∀ t x, Except.toOpt (stD co tbl t x) = stF co tbl t x) ∧
    (∀ fds kvs, stFFields co tbl fds kvs =
        (if (stDFields co tbl fds kvs).2.isEmpty then some (stDFields co tbl fds kvs).1 else none)) ∧
    (∀ t xs, ∀ ix, stFList co tbl t xs =
        (if (stDList co tbl t xs ix).2.isEmpty then some (stDList co tbl t xs ix).1 else none)) := by
  apply stF.mutual_induct co tbl
    (motive1 := fun t x => Except.toOpt (stD co tbl t x) = stF co tbl t x)
    (motive2 := fun fds kvs => stFFields co tbl fds kvs =
        (if (stDFields co tbl fds kvs).2.isEmpty then some (stDFields co tbl fds kvs).1 else none))
    (motive3 := fun t xs => ∀ ix, stFList co tbl t xs =
        (if (stDList co tbl t xs ix).2.isEmpty then some (stDList co tbl t xs ix).1 else none))
  · intro x; simp only [stD, stF]; cases co.toInt x <;> rfl
  · intro x; simp only [stD, stF]; cases co.toStr x <;> rfl
  · intro t xs ih
    simp only [stD, stF, ih 0]
    split <;> rfl
  · intro t; simp [stD, stF, Except.toOpt]
  · intro t x hx ih
    have e1 : stD co tbl t.opt x = stD co tbl t x := by cases x <;> simp_all [stD]
    have e2 : stF co tbl t.opt x = stF co tbl t x := by cases x <;> simp_all [stF]
    rw [e1, e2, ih]
  · intro c kvs ih
    simp only [stD, stF, ih]
    split <;> rfl
  · intro t x h1 h2 h3 h4 h5 h6
    cases t <;> cases x <;> simp_all [stD, stF, Except.toOpt]
  · intro kvs; simp [stFFields, stDFields]
  · intro f fds kvs hl hd
    rw [stFFields, stDFields]
    simp only [hl, hd]
    split <;> simp_all
  · intro f fds kvs hl y hd ih
    rw [stFFields, stDFields]
    simp only [hl, hd, ih]
    split <;> simp_all
  · intro f fds kvs v hl hf ih
    rw [stFFields, stDFields]
    obtain ⟨e, he⟩ := toOpt_none (ih.trans hf)
    split <;> simp_all
  · intro f fds kvs v hl y hf ih1 ih2
    rw [stFFields, stDFields]
    have he := toOpt_some (ih1.trans hf)
    simp only [hl, hf, he, ih2]
    split <;> simp_all
  · intro t ix; simp [stFList, stDList]
  · intro t x xs hf ih ix
    rw [stFList, stDList]
    obtain ⟨e, he⟩ := toOpt_none (ih.trans hf)
    simp only [hf, he]
    simp
  · intro t x xs y hf ih1 ih2 ix
    rw [stFList, stDList]
    have he := toOpt_some (ih1.trans hf)
    simp only [hf, he, ih2 (ix + 1)]
    split <;> simp_all

end Modes
#print axioms Modes.modes_agree
