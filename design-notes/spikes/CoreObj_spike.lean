namespace Core

inductive Obj where
  | none
  | bool (b : Bool)
  | int (i : Int)
  | str (s : String)
  | enumM (e m : Nat)
  | list (xs : List Obj)
  | tuple (xs : List Obj)
  | set (xs : List Obj)
  | dict (kvs : List (Obj × Obj))
  | inst (c : Nat) (fs : List (String × Obj))
  deriving Repr, Inhabited

mutual
def Obj.deq : (x y : Obj) → Decidable (x = y)
  | .none, .none => isTrue rfl
  | .none, .bool a2 => isFalse (by intro e; cases e)
  | .none, .int a2 => isFalse (by intro e; cases e)
  | .none, .str a2 => isFalse (by intro e; cases e)
  | .none, .enumM a2 b2 => isFalse (by intro e; cases e)
  | .none, .list a2 => isFalse (by intro e; cases e)
  | .none, .tuple a2 => isFalse (by intro e; cases e)
  | .none, .set a2 => isFalse (by intro e; cases e)
  | .none, .dict a2 => isFalse (by intro e; cases e)
  | .none, .inst a2 b2 => isFalse (by intro e; cases e)
  | .bool a1, .none => isFalse (by intro e; cases e)
  | .bool a1, .bool a2 =>
    match (inferInstance : Decidable (a1 = a2)) with
    | isTrue h0 => isTrue (by rw [h0])
    | isFalse h => isFalse (by intro e; cases e; exact h rfl)
  | .bool a1, .int a2 => isFalse (by intro e; cases e)
  | .bool a1, .str a2 => isFalse (by intro e; cases e)
  | .bool a1, .enumM a2 b2 => isFalse (by intro e; cases e)
  | .bool a1, .list a2 => isFalse (by intro e; cases e)
  | .bool a1, .tuple a2 => isFalse (by intro e; cases e)
  | .bool a1, .set a2 => isFalse (by intro e; cases e)
  | .bool a1, .dict a2 => isFalse (by intro e; cases e)
  | .bool a1, .inst a2 b2 => isFalse (by intro e; cases e)
  | .int a1, .none => isFalse (by intro e; cases e)
  | .int a1, .bool a2 => isFalse (by intro e; cases e)
  | .int a1, .int a2 =>
    match (inferInstance : Decidable (a1 = a2)) with
    | isTrue h0 => isTrue (by rw [h0])
    | isFalse h => isFalse (by intro e; cases e; exact h rfl)
  | .int a1, .str a2 => isFalse (by intro e; cases e)
  | .int a1, .enumM a2 b2 => isFalse (by intro e; cases e)
  | .int a1, .list a2 => isFalse (by intro e; cases e)
  | .int a1, .tuple a2 => isFalse (by intro e; cases e)
  | .int a1, .set a2 => isFalse (by intro e; cases e)
  | .int a1, .dict a2 => isFalse (by intro e; cases e)
  | .int a1, .inst a2 b2 => isFalse (by intro e; cases e)
  | .str a1, .none => isFalse (by intro e; cases e)
  | .str a1, .bool a2 => isFalse (by intro e; cases e)
  | .str a1, .int a2 => isFalse (by intro e; cases e)
  | .str a1, .str a2 =>
    match (inferInstance : Decidable (a1 = a2)) with
    | isTrue h0 => isTrue (by rw [h0])
    | isFalse h => isFalse (by intro e; cases e; exact h rfl)
  | .str a1, .enumM a2 b2 => isFalse (by intro e; cases e)
  | .str a1, .list a2 => isFalse (by intro e; cases e)
  | .str a1, .tuple a2 => isFalse (by intro e; cases e)
  | .str a1, .set a2 => isFalse (by intro e; cases e)
  | .str a1, .dict a2 => isFalse (by intro e; cases e)
  | .str a1, .inst a2 b2 => isFalse (by intro e; cases e)
  | .enumM a1 b1, .none => isFalse (by intro e; cases e)
  | .enumM a1 b1, .bool a2 => isFalse (by intro e; cases e)
  | .enumM a1 b1, .int a2 => isFalse (by intro e; cases e)
  | .enumM a1 b1, .str a2 => isFalse (by intro e; cases e)
  | .enumM a1 b1, .enumM a2 b2 =>
    match (inferInstance : Decidable (a1 = a2)), (inferInstance : Decidable (b1 = b2)) with
    | isTrue h0, isTrue h1 => isTrue (by rw [h0, h1])
    | isFalse h, _ => isFalse (by intro e; cases e; exact h rfl)
    | _, isFalse h => isFalse (by intro e; cases e; exact h rfl)
  | .enumM a1 b1, .list a2 => isFalse (by intro e; cases e)
  | .enumM a1 b1, .tuple a2 => isFalse (by intro e; cases e)
  | .enumM a1 b1, .set a2 => isFalse (by intro e; cases e)
  | .enumM a1 b1, .dict a2 => isFalse (by intro e; cases e)
  | .enumM a1 b1, .inst a2 b2 => isFalse (by intro e; cases e)
  | .list a1, .none => isFalse (by intro e; cases e)
  | .list a1, .bool a2 => isFalse (by intro e; cases e)
  | .list a1, .int a2 => isFalse (by intro e; cases e)
  | .list a1, .str a2 => isFalse (by intro e; cases e)
  | .list a1, .enumM a2 b2 => isFalse (by intro e; cases e)
  | .list a1, .list a2 =>
    match Obj.deqL a1 a2 with
    | isTrue h0 => isTrue (by rw [h0])
    | isFalse h => isFalse (by intro e; cases e; exact h rfl)
  | .list a1, .tuple a2 => isFalse (by intro e; cases e)
  | .list a1, .set a2 => isFalse (by intro e; cases e)
  | .list a1, .dict a2 => isFalse (by intro e; cases e)
  | .list a1, .inst a2 b2 => isFalse (by intro e; cases e)
  | .tuple a1, .none => isFalse (by intro e; cases e)
  | .tuple a1, .bool a2 => isFalse (by intro e; cases e)
  | .tuple a1, .int a2 => isFalse (by intro e; cases e)
  | .tuple a1, .str a2 => isFalse (by intro e; cases e)
  | .tuple a1, .enumM a2 b2 => isFalse (by intro e; cases e)
  | .tuple a1, .list a2 => isFalse (by intro e; cases e)
  | .tuple a1, .tuple a2 =>
    match Obj.deqL a1 a2 with
    | isTrue h0 => isTrue (by rw [h0])
    | isFalse h => isFalse (by intro e; cases e; exact h rfl)
  | .tuple a1, .set a2 => isFalse (by intro e; cases e)
  | .tuple a1, .dict a2 => isFalse (by intro e; cases e)
  | .tuple a1, .inst a2 b2 => isFalse (by intro e; cases e)
  | .set a1, .none => isFalse (by intro e; cases e)
  | .set a1, .bool a2 => isFalse (by intro e; cases e)
  | .set a1, .int a2 => isFalse (by intro e; cases e)
  | .set a1, .str a2 => isFalse (by intro e; cases e)
  | .set a1, .enumM a2 b2 => isFalse (by intro e; cases e)
  | .set a1, .list a2 => isFalse (by intro e; cases e)
  | .set a1, .tuple a2 => isFalse (by intro e; cases e)
  | .set a1, .set a2 =>
    match Obj.deqL a1 a2 with
    | isTrue h0 => isTrue (by rw [h0])
    | isFalse h => isFalse (by intro e; cases e; exact h rfl)
  | .set a1, .dict a2 => isFalse (by intro e; cases e)
  | .set a1, .inst a2 b2 => isFalse (by intro e; cases e)
  | .dict a1, .none => isFalse (by intro e; cases e)
  | .dict a1, .bool a2 => isFalse (by intro e; cases e)
  | .dict a1, .int a2 => isFalse (by intro e; cases e)
  | .dict a1, .str a2 => isFalse (by intro e; cases e)
  | .dict a1, .enumM a2 b2 => isFalse (by intro e; cases e)
  | .dict a1, .list a2 => isFalse (by intro e; cases e)
  | .dict a1, .tuple a2 => isFalse (by intro e; cases e)
  | .dict a1, .set a2 => isFalse (by intro e; cases e)
  | .dict a1, .dict a2 =>
    match Obj.deqKV a1 a2 with
    | isTrue h0 => isTrue (by rw [h0])
    | isFalse h => isFalse (by intro e; cases e; exact h rfl)
  | .dict a1, .inst a2 b2 => isFalse (by intro e; cases e)
  | .inst a1 b1, .none => isFalse (by intro e; cases e)
  | .inst a1 b1, .bool a2 => isFalse (by intro e; cases e)
  | .inst a1 b1, .int a2 => isFalse (by intro e; cases e)
  | .inst a1 b1, .str a2 => isFalse (by intro e; cases e)
  | .inst a1 b1, .enumM a2 b2 => isFalse (by intro e; cases e)
  | .inst a1 b1, .list a2 => isFalse (by intro e; cases e)
  | .inst a1 b1, .tuple a2 => isFalse (by intro e; cases e)
  | .inst a1 b1, .set a2 => isFalse (by intro e; cases e)
  | .inst a1 b1, .dict a2 => isFalse (by intro e; cases e)
  | .inst a1 b1, .inst a2 b2 =>
    match (inferInstance : Decidable (a1 = a2)), Obj.deqF b1 b2 with
    | isTrue h0, isTrue h1 => isTrue (by rw [h0, h1])
    | isFalse h, _ => isFalse (by intro e; cases e; exact h rfl)
    | _, isFalse h => isFalse (by intro e; cases e; exact h rfl)
termination_by structural x => x
def Obj.deqL : (x y : List Obj) → Decidable (x = y)
  | [], [] => isTrue rfl
  | [], _ :: _ => isFalse (by intro e; cases e)
  | _ :: _, [] => isFalse (by intro e; cases e)
  | a :: as, b :: bs => match Obj.deq a b, Obj.deqL as bs with
    | isTrue h1, isTrue h2 => isTrue (by rw [h1, h2])
    | isFalse h, _ => isFalse (by intro e; cases e; exact h rfl)
    | _, isFalse h => isFalse (by intro e; cases e; exact h rfl)
termination_by structural x => x
def Obj.deqKV : (x y : List (Obj × Obj)) → Decidable (x = y)
  | [], [] => isTrue rfl
  | [], _ :: _ => isFalse (by intro e; cases e)
  | _ :: _, [] => isFalse (by intro e; cases e)
  | (k1, v1) :: as, (k2, v2) :: bs => match Obj.deq k1 k2, Obj.deq v1 v2, Obj.deqKV as bs with
    | isTrue h1, isTrue h2, isTrue h3 => isTrue (by rw [h1, h2, h3])
    | isFalse h, _, _ => isFalse (by intro e; cases e; exact h rfl)
    | _, isFalse h, _ => isFalse (by intro e; cases e; exact h rfl)
    | _, _, isFalse h => isFalse (by intro e; cases e; exact h rfl)
termination_by structural x => x
def Obj.deqF : (x y : List (String × Obj)) → Decidable (x = y)
  | [], [] => isTrue rfl
  | [], _ :: _ => isFalse (by intro e; cases e)
  | _ :: _, [] => isFalse (by intro e; cases e)
  | (k1, v1) :: as, (k2, v2) :: bs => match (inferInstance : Decidable (k1 = k2)), Obj.deq v1 v2, Obj.deqF as bs with
    | isTrue h1, isTrue h2, isTrue h3 => isTrue (by rw [h1, h2, h3])
    | isFalse h, _, _ => isFalse (by intro e; cases e; exact h rfl)
    | _, isFalse h, _ => isFalse (by intro e; cases e; exact h rfl)
    | _, _, isFalse h => isFalse (by intro e; cases e; exact h rfl)
termination_by structural x => x
end
instance : DecidableEq Obj := Obj.deq

example : Obj.set [.int 1, .enumM 0 1] ≠ Obj.set [.int 1, .enumM 0 2] := by decide

end Core
