namespace Mut

inductive Obj where
  | none
  | int (i : Int)
  | str (s : String)
  | list (xs : List Obj)
  | dict (kvs : List (String × Obj))
  | inst (c : Nat) (fs : List (String × Obj))
  deriving Repr, Inhabited

inductive Ty where
  | int
  | str
  | list (t : Ty)
  | opt (t : Ty)
  | cls (c : Nat)
  deriving Repr, Inhabited

structure Field where
  name : String
  ty : Ty
  deriving Repr

abbrev Tbl := List (List Field)

structure Coerce where
  toInt : Obj → Option Int
  toStr : Obj → Option String
  int_id : ∀ i, toInt (.int i) = some i
  str_id : ∀ s, toStr (.str s) = some s

mutual
def conf (tbl : Tbl) : Ty → Obj → Bool
  | .int, .int _ => true
  | .str, .str _ => true
  | .list t, .list xs => confList tbl t xs
  | .opt _, .none => true
  | .opt t, x => conf tbl t x
  | .cls c, .inst c' fs => c == c' && confFields tbl (tbl.getD c []) fs
  | _, _ => false
termination_by t x => (sizeOf x, sizeOf t)
def confList (tbl : Tbl) (t : Ty) : List Obj → Bool
  | [] => true
  | x :: xs => conf tbl t x && confList tbl t xs
termination_by xs => (sizeOf xs, sizeOf t)
def confFields (tbl : Tbl) : List Field → List (String × Obj) → Bool
  | [], [] => true
  | f :: fds, (k, v) :: rest => f.name == k && conf tbl f.ty v && confFields tbl fds rest
  | _, _ => false
termination_by _ fs => (sizeOf fs, 0)
end

mutual
def un (tbl : Tbl) : Ty → Obj → Obj
  | .list t, .list xs => .list (unList tbl t xs)
  | .opt _, .none => .none
  | .opt t, x => un tbl t x
  | .cls c, .inst _ fs => .dict (unFields tbl (tbl.getD c []) fs)
  | _, x => x
termination_by t x => (sizeOf x, sizeOf t)
def unList (tbl : Tbl) (t : Ty) : List Obj → List Obj
  | [] => []
  | x :: xs => un tbl t x :: unList tbl t xs
termination_by xs => (sizeOf xs, sizeOf t)
def unFields (tbl : Tbl) : List Field → List (String × Obj) → List (String × Obj)
  | f :: fds, (k, v) :: rest => (k, un tbl f.ty v) :: unFields tbl fds rest
  | _, _ => []
termination_by _ fs => (sizeOf fs, 0)
end

mutual
def st (co : Coerce) (tbl : Tbl) : Ty → Obj → Option Obj
  | .int, x => (co.toInt x).map .int
  | .str, x => (co.toStr x).map .str
  | .list t, .list xs => (stList co tbl t xs).map .list
  | .opt _, .none => some .none
  | .opt t, x => st co tbl t x
  | .cls c, .dict kvs => (stFields co tbl (tbl.getD c []) kvs).map (.inst c)
  | _, _ => none
termination_by t x => (sizeOf x, sizeOf t)
def stList (co : Coerce) (tbl : Tbl) (t : Ty) : List Obj → Option (List Obj)
  | [] => some []
  | x :: xs => do
      let y ← st co tbl t x
      let ys ← stList co tbl t xs
      pure (y :: ys)
termination_by xs => (sizeOf xs, sizeOf t)
def stFields (co : Coerce) (tbl : Tbl) : List Field → List (String × Obj) → Option (List (String × Obj))
  | [], _ => some []
  | f :: fds, (k, v) :: rest => if f.name == k then do
      let y ← st co tbl f.ty v
      let ys ← stFields co tbl fds rest
      pure ((k, y) :: ys) else none
  | _ :: _, [] => none
termination_by _ kvs => (sizeOf kvs, 0)
end

#check @conf.mutual_induct

/-- un never yields `none` for a non-none conforming value (needed in the `opt` case) -/
theorem un_ne_none (tbl : Tbl) : ∀ t x, conf tbl t x = true → x ≠ .none → un tbl t x ≠ .none := by
  intro t x
  induction t generalizing x with
  | int => intro h hx; cases x <;> simp_all [un, conf]
  | str => intro h hx; cases x <;> simp_all [un, conf]
  | list t ih => intro h hx; cases x <;> simp_all [un, conf]
  | opt t ih =>
    intro h hx
    cases x with
    | none => exact absurd rfl hx
    | _ => all_goals (simp only [un]; apply ih _ (by simpa [conf] using h); simp)
  | cls c => intro h hx; cases x <;> simp_all [un, conf]

theorem roundtrip (co : Coerce) (tbl : Tbl) :
    (∀ t x, conf tbl t x = true → st co tbl t (un tbl t x) = some x) ∧
    (∀ fds fs, confFields tbl fds fs = true → stFields co tbl fds (unFields tbl fds fs) = some fs) ∧
    (∀ t xs, confList tbl t xs = true → stList co tbl t (unList tbl t xs) = some xs) := by
  apply conf.mutual_induct tbl
    (motive1 := fun t x => conf tbl t x = true → st co tbl t (un tbl t x) = some x)
    (motive2 := fun fds fs => confFields tbl fds fs = true → stFields co tbl fds (unFields tbl fds fs) = some fs)
    (motive3 := fun t xs => confList tbl t xs = true → stList co tbl t (unList tbl t xs) = some xs)
  · intro i _; simp [un, st, co.int_id]
  · intro s _; simp [un, st, co.str_id]
  · intro t xs ih h
    simp only [conf] at h
    simp [un, st, ih h]
  · intro t _; simp [un, st]
  · intro t x hx ih h
    have hc : conf tbl t x = true := by
      cases x <;> simp_all [conf]
    have hne := un_ne_none tbl t x hc (fun e => hx e)
    have := ih hc
    have e1 : un tbl t.opt x = un tbl t x := by cases x <;> simp_all [un]
    rw [e1]
    cases hu : un tbl t x with
    | none => exact absurd hu hne
    | _ => all_goals (simp only [st]; rw [← hu]; exact this)
  · intro c c' fs ih h
    simp only [conf, Bool.and_eq_true, beq_iff_eq] at h
    obtain ⟨rfl, hf⟩ := h
    have := ih hf
    simp only [un, st, this, Option.map_some]
  · intro t x h1 h2 h3 h4 h5 h6 h
    exfalso
    cases t <;> cases x <;> simp_all [conf]
  · intro _; simp [unFields, stFields]
  · intro f fds k v rest ih1 ih2 h
    simp only [confFields, Bool.and_eq_true, beq_iff_eq] at h
    obtain ⟨⟨hk, hv⟩, hr⟩ := h
    simp [unFields, stFields, hk, ih1 hv, ih2 hr]
  · intro fds fs h1 h2 h
    exfalso
    cases fds <;> cases fs <;> simp_all [confFields]
  · intro t _; simp [unList, stList]
  · intro t x xs ih1 ih2 h
    simp only [confList, Bool.and_eq_true] at h
    simp [unList, stList, ih1 h.1, ih2 h.2]

end Mut
#print axioms Mut.roundtrip
