namespace Dis

structure CSig where
  fields : List String
  req : List String
  deriving Repr

/-- Python's hash-order-dependent choice of an element of a set. -/
structure Choose where
  pick : List String → Option String
  pick_mem : ∀ l k, pick l = some k → k ∈ l
  pick_none : ∀ l, pick l = none → l = []

variable (cs : List CSig) (ch : Choose)

def flds (c : Nat) : List String := (cs.getD c ⟨[], []⟩).fields
def reqs (c : Nat) : List String := (cs.getD c ⟨[], []⟩).req

/-- required fields of `c` that no other remaining class has -/
def uniqueReq (rem : List Nat) (c : Nat) : List String :=
  (reqs cs c).filter (fun f => rem.all (fun c' => c' == c || !((flds cs c').contains f)))

def pass (rem : List Nat) : List (String × Nat) :=
  rem.filterMap (fun c => (ch.pick (uniqueReq cs rem c)).map (fun k => (k, c)))

def fix : Nat → List Nat → List (String × Nat) → List (String × Nat) × List Nat
  | 0, rem, pins => (pins, rem)
  | n+1, rem, pins =>
    let p := pass cs ch rem
    if p.isEmpty then (pins, rem)
    else fix n (rem.filter (fun c => !((p.map (·.2)).contains c))) (pins ++ p)

def resolve (pins : List (String × Nat)) (fb : Option Nat) (keys : List String) : Option Nat :=
  match pins.find? (fun p => keys.contains p.1) with
  | some p => some p.2
  | none => fb

/-- the invariant of the fixpoint loop -/
structure Inv (rem : List Nat) (pins : List (String × Nat)) : Prop where
  p1 : ∀ p ∈ pins, p.1 ∈ reqs cs p.2 ∧ p.2 ∉ rem
  p2 : ∀ p ∈ pins, ∀ c' ∈ rem, p.1 ∉ flds cs c'
  p3 : pins.Pairwise (fun p q => p.2 ≠ q.2 ∧ p.1 ∉ flds cs q.2)
  p5 : rem.Nodup

theorem mem_pass {rem : List Nat} {p : String × Nat} (h : p ∈ pass cs ch rem) :
    p.2 ∈ rem ∧ p.1 ∈ reqs cs p.2 ∧ ∀ c' ∈ rem, c' ≠ p.2 → p.1 ∉ flds cs c' := by
  unfold pass at h
  rw [List.mem_filterMap] at h
  obtain ⟨c, hc, hp⟩ := h
  cases hpk : ch.pick (uniqueReq cs rem c) with
  | none => simp [hpk] at hp
  | some k =>
    simp [hpk] at hp
    subst hp
    have hm := ch.pick_mem _ _ hpk
    unfold uniqueReq at hm
    rw [List.mem_filter] at hm
    refine ⟨hc, hm.1, ?_⟩
    intro c' hc' hne
    have := hm.2
    rw [List.all_eq_true] at this
    have h2 := this c' hc'
    simp [hne] at h2
    exact h2

theorem pass_pairwise {rem : List Nat} (hnd : rem.Nodup) :
    (pass cs ch rem).Pairwise (fun p q => p.2 ≠ q.2 ∧ p.1 ∉ flds cs q.2) := by
  unfold pass
  rw [List.pairwise_filterMap]
  unfold List.Nodup at hnd
  refine List.Pairwise.imp_of_mem ?_ hnd
  intro a b ha hb hab p hp q hq
  have hp' : p ∈ pass cs ch rem := by
    unfold pass; rw [List.mem_filterMap]; exact ⟨a, ha, hp⟩
  have hq' : q ∈ pass cs ch rem := by
    unfold pass; rw [List.mem_filterMap]; exact ⟨b, hb, hq⟩
  have hp2 : p.2 = a := by
    cases h : ch.pick (uniqueReq cs rem a) <;> simp [h] at hp; subst hp; rfl
  have hq2 : q.2 = b := by
    cases h : ch.pick (uniqueReq cs rem b) <;> simp [h] at hq; subst hq; rfl
  obtain ⟨_, _, hu⟩ := mem_pass cs ch hp'
  refine ⟨by rw [hp2, hq2]; exact hab, ?_⟩
  rw [hq2]
  exact hu b hb (by rw [hp2]; exact fun e => hab e.symm)

theorem inv_step {rem : List Nat} {pins : List (String × Nat)} (h : Inv cs rem pins) :
    Inv cs (rem.filter (fun c => !(((pass cs ch rem).map (·.2)).contains c))) (pins ++ pass cs ch rem) := by
  have hsub : ∀ c, c ∈ rem.filter (fun c => !(((pass cs ch rem).map (·.2)).contains c)) →
      c ∈ rem ∧ c ∉ (pass cs ch rem).map (·.2) := by
    intro c hc
    rw [List.mem_filter] at hc
    refine ⟨hc.1, ?_⟩
    have := hc.2
    simp at this
    intro hm
    rw [List.mem_map] at hm
    obtain ⟨q, hq, hqc⟩ := hm
    exact this q.1 (by rw [← hqc]; exact hq)
  constructor
  · intro p hp
    rw [List.mem_append] at hp
    rcases hp with hp | hp
    · exact ⟨(h.p1 p hp).1, fun hm => (h.p1 p hp).2 (hsub _ hm).1⟩
    · obtain ⟨_, hr, _⟩ := mem_pass cs ch hp
      exact ⟨hr, fun hm => (hsub _ hm).2 (List.mem_map.mpr ⟨p, hp, rfl⟩)⟩
  · intro p hp c' hc'
    rw [List.mem_append] at hp
    rcases hp with hp | hp
    · exact h.p2 p hp c' (hsub _ hc').1
    · obtain ⟨_, _, hu⟩ := mem_pass cs ch hp
      refine hu c' (hsub _ hc').1 ?_
      intro e
      exact (hsub _ hc').2 (List.mem_map.mpr ⟨p, hp, e.symm⟩)
  · rw [List.pairwise_append]
    refine ⟨h.p3, pass_pairwise cs ch h.p5, ?_⟩
    intro p hp q hq
    obtain ⟨hqr, _, _⟩ := mem_pass cs ch hq
    exact ⟨fun e => (h.p1 p hp).2 (e ▸ hqr), h.p2 p hp q.2 hqr⟩
  · exact h.p5.filter _

theorem inv_fix (n : Nat) : ∀ {rem pins}, Inv cs rem pins →
    Inv cs (fix cs ch n rem pins).2 (fix cs ch n rem pins).1 := by
  induction n with
  | zero => intro rem pins h; exact h
  | succ n ih =>
    intro rem pins h
    unfold fix
    simp only
    split
    · exact h
    · exact ih (inv_step cs ch h)

/-- coverage: a class is always either remaining or pinned -/
theorem cover_fix (n : Nat) : ∀ {rem pins} (c : Nat), (c ∈ rem ∨ c ∈ pins.map (·.2)) →
    (c ∈ (fix cs ch n rem pins).2 ∨ c ∈ (fix cs ch n rem pins).1.map (·.2)) := by
  induction n with
  | zero => intro rem pins c h; exact h
  | succ n ih =>
    intro rem pins c h
    unfold fix
    simp only
    split
    · exact h
    · apply ih
      rcases h with h | h
      · by_cases hc : c ∈ (pass cs ch rem).map (·.2)
        · right; rw [List.map_append, List.mem_append]; exact Or.inr hc
        · left; rw [List.mem_filter]; refine ⟨h, ?_⟩
          simp
          intro x hx
          exact hc (List.mem_map.mpr ⟨(x, c), hx, rfl⟩)
      · right; rw [List.map_append, List.mem_append]; exact Or.inl h

/-- A payload of class `c`: has every required key of `c`, and only keys of `c`. -/
def PayloadOf (c : Nat) (keys : List String) : Prop :=
  (∀ f ∈ reqs cs c, f ∈ keys) ∧ (∀ k ∈ keys, k ∈ flds cs c)

theorem resolve_pinned {rem pins} (h : Inv cs rem pins) {c : Nat} {keys : List String}
    (hp : PayloadOf cs c keys) (hc : c ∈ pins.map (·.2)) (fb : Option Nat) :
    resolve pins fb keys = some c := by
  have hp1 := h.p1
  have hp3 := h.p3
  clear h
  induction pins with
  | nil => simp at hc
  | cons q rest ih =>
    rw [List.pairwise_cons] at hp3
    unfold resolve
    rw [List.find?_cons]
    by_cases hq : q.2 = c
    · have hk : q.1 ∈ keys := hp.1 _ (hq ▸ (hp1 q (by simp)).1)
      have : keys.contains q.1 = true := by simpa using hk
      rw [this]
      simp [hq]
    · have hcr : c ∈ rest.map (·.2) := by
        simp at hc
        rcases hc with hc | hc
        · exact absurd hc.symm hq
        · simpa using hc
      have hnot : keys.contains q.1 = false := by
        have : q.1 ∉ keys := by
          intro hk
          rw [List.mem_map] at hcr
          obtain ⟨r, hr, hrc⟩ := hcr
          have := (hp3.1 r hr).2
          rw [hrc] at this
          exact this (hp.2 _ hk)
        simpa using this
      rw [hnot]
      have := ih hcr (fun p hpm => hp1 p (by simp [hpm])) hp3.2
      unfold resolve at this
      exact this

theorem resolve_fallback {rem pins} (h : Inv cs rem pins) {c : Nat} {keys : List String}
    (hp : PayloadOf cs c keys) (hc : c ∈ rem) (fb : Option Nat) :
    resolve pins fb keys = fb := by
  unfold resolve
  have : pins.find? (fun p => keys.contains p.1) = none := by
    rw [List.find?_eq_none]
    intro p hpm
    simp
    intro hk
    exact h.p2 p hpm c hc (hp.2 _ hk)
  rw [this]

/-- The whole construction: refuse when more than one class cannot be pinned. -/
def mkDis (order : List Nat) : Option (List (String × Nat) × Option Nat) :=
  let r := fix cs ch (order.length + 1) order []
  if r.2.length > 1 then none else some (r.1, r.2.head?)

/-- C12 (unique-field path): whenever a decision function is produced, it maps every payload of
    every member class to that member, whatever `choose` (hash order) and processing order. -/
theorem never_wrong_and_complete (order : List Nat) (hnd : order.Nodup)
    (pins : List (String × Nat)) (fb : Option Nat)
    (hmk : mkDis cs ch order = some (pins, fb))
    (c : Nat) (hc : c ∈ order) (keys : List String) (hp : PayloadOf cs c keys) :
    resolve pins fb keys = some c := by
  unfold mkDis at hmk
  simp only at hmk
  split at hmk
  · simp at hmk
  · rename_i hlen
    simp at hmk
    obtain ⟨hpins, hfb⟩ := hmk
    have hinv0 : Inv cs order [] := ⟨by simp, by simp, by simp, hnd⟩
    have hinv := inv_fix cs ch (order.length + 1) hinv0
    have hcov := cover_fix cs ch (order.length + 1) (rem := order) (pins := []) c (Or.inl hc)
    rw [hpins] at hinv hcov
    rcases hcov with hrem | hpin
    · -- c is the single remaining class, hence the fallback
      have := resolve_fallback cs hinv hp hrem fb
      rw [this, ← hfb]
      generalize (fix cs ch (order.length + 1) order []).2 = r at hrem hlen
      match r, hrem, hlen with
      | [x], hrem, _ => simp at hrem; simp [hrem]
      | [], hrem, _ => simp at hrem
      | _ :: _ :: _, _, hlen => simp at hlen
    · exact resolve_pinned cs hinv hp hpin fb


/-! ### order / hash-seed independence of accept-vs-refuse -/

theorem all_perm {α} {l l' : List α} (h : l.Perm l') (f : α → Bool) : l.all f = l'.all f := by
  induction h with
  | nil => rfl
  | cons x _ ih => simp [List.all_cons, ih]
  | swap x y l => simp [List.all_cons, Bool.and_left_comm]
  | trans _ _ ih1 ih2 => rw [ih1, ih2]

theorem uniqueReq_perm {rem rem' : List Nat} (h : rem.Perm rem') (c : Nat) :
    uniqueReq cs rem c = uniqueReq cs rem' c := by
  unfold uniqueReq
  congr 1
  funext f
  exact all_perm h _

theorem pass_snd (ch : Choose) (rem : List Nat) :
    (pass cs ch rem).map (·.2) = rem.filter (fun c => !(uniqueReq cs rem c).isEmpty) := by
  unfold pass
  generalize hu : uniqueReq cs rem = u
  clear hu
  induction rem with
  | nil => rfl
  | cons c rest ih =>
    rw [List.filterMap_cons, List.filter_cons]
    cases hp : ch.pick (u c) with
    | none =>
      have := ch.pick_none _ hp
      simp [this, ih]
    | some k =>
      have hm := ch.pick_mem _ _ hp
      have hne : (u c).isEmpty = false := by
        cases huc : u c with
        | nil => rw [huc] at hm; simp at hm
        | cons _ _ => rfl
      simp [hne, ih]

theorem next_eq (ch : Choose) (rem : List Nat) :
    rem.filter (fun c => !(((pass cs ch rem).map (·.2)).contains c)) =
    rem.filter (fun c => (uniqueReq cs rem c).isEmpty) := by
  rw [pass_snd]
  apply List.filter_congr
  intro c hc
  cases he : (uniqueReq cs rem c).isEmpty <;> simp [hc, he]

theorem fix_perm (ch ch' : Choose) (n : Nat) : ∀ {rem rem' : List Nat} {pins pins'}, rem.Perm rem' →
    (fix cs ch n rem pins).2.Perm (fix cs ch' n rem' pins').2 := by
  induction n with
  | zero => intro rem rem' pins pins' h; exact h
  | succ n ih =>
    intro rem rem' pins pins' h
    unfold fix
    simp only
    have hemp : (pass cs ch rem).isEmpty = (pass cs ch' rem').isEmpty := by
      have e1 : (pass cs ch rem).isEmpty = ((pass cs ch rem).map (·.2)).isEmpty := by simp
      have e2 : (pass cs ch' rem').isEmpty = ((pass cs ch' rem').map (·.2)).isEmpty := by simp
      rw [e1, e2, pass_snd, pass_snd]
      have hp : (rem.filter (fun c => !(uniqueReq cs rem c).isEmpty)).Perm
                (rem'.filter (fun c => !(uniqueReq cs rem' c).isEmpty)) := by
        have : (fun c => !(uniqueReq cs rem c).isEmpty) = (fun c => !(uniqueReq cs rem' c).isEmpty) := by
          funext c; rw [uniqueReq_perm cs h]
        rw [this]; exact h.filter _
      cases h1 : (rem.filter (fun c => !(uniqueReq cs rem c).isEmpty)) with
      | nil => rw [h1] at hp; rw [List.nil_perm.mp hp]
      | cons a l =>
        rw [h1] at hp
        cases h2 : (rem'.filter (fun c => !(uniqueReq cs rem' c).isEmpty)) with
        | nil => rw [h2] at hp; exact absurd (List.perm_nil.mp hp) (by simp)
        | cons _ _ => rfl
    rw [hemp]
    split
    · exact h
    · apply ih
      rw [next_eq, next_eq]
      have : (fun c => (uniqueReq cs rem c).isEmpty) = (fun c => (uniqueReq cs rem' c).isEmpty) := by
        funext c; rw [uniqueReq_perm cs h]
      rw [this]; exact h.filter _

/-- C12: whether the union is accepted depends neither on the order of its members nor on the
    iteration order of Python sets (`Choose`). -/
theorem accept_order_independent (ch ch' : Choose) (order order' : List Nat) (h : order.Perm order') :
    (mkDis cs ch order).isSome = (mkDis cs ch' order').isSome := by
  unfold mkDis
  simp only
  have hl : order.length = order'.length := h.length_eq
  have hp := fix_perm cs ch ch' (order.length + 1) (pins := []) (pins' := []) h
  rw [← hl]
  rw [hp.length_eq]
  split <;> rfl

end Dis

#print axioms Dis.never_wrong_and_complete
#print axioms Dis.accept_order_independent
