namespace Disp

abbrev TyKey := Nat
abbrev ClassId := Nat
abbrev Tag := Nat
abbrev PredId := Nat

inductive Hook where
  | user (t : Tag)
  | builtin (n : Nat)
  | made (f : Nat) (ty : TyKey) (withConv : Bool) (subs : List Hook)
  | fallback (ty : TyKey)
  deriving Repr, Inhabited

inductive Kind where | plain | factory | extended
  deriving Repr, DecidableEq

structure PredEntry where
  pred : PredId
  kind : Kind
  tag : Tag
  deriving Repr

structure Facts where
  mro : TyKey → List ClassId
  holds : PredId → TyKey → Bool
  comps : TyKey → List TyKey
  rank : TyKey → Nat
  comps_lt : ∀ t c, c ∈ comps t → rank c < rank t

structure Regs where
  single : List (ClassId × Hook)
  preds : List PredEntry
  deriving Repr

structure St where
  regs : Regs
  lru : List (TyKey × Hook)
  direct : List (TyKey × Hook)
  deriving Repr

def lookupCls (single : List (ClassId × Hook)) (c : ClassId) : Option Hook :=
  (single.find? (·.1 == c)).map (·.2)

def firstSome {α β} (xs : List α) (f : α → Option β) : Option β :=
  match xs with
  | [] => none
  | x :: xs => match f x with
    | some b => some b
    | none => firstSome xs f

def resolve (F : Facts) (r : Regs) (t : TyKey) : Hook :=
  match firstSome (F.mro t) (lookupCls r.single) with
  | some h => h
  | none =>
    match r.preds.find? (fun e => F.holds e.pred t) with
    | none => .fallback t
    | some e =>
      match e.kind with
      | .plain => .user e.tag
      | .factory => .made e.tag t false ((F.comps t).attach.map (fun ⟨c, _⟩ => resolve F r c))
      | .extended => .made e.tag t true ((F.comps t).attach.map (fun ⟨c, _⟩ => resolve F r c))
termination_by F.rank t
decreasing_by all_goals (apply F.comps_lt; assumption)

def alookup (m : List (TyKey × Hook)) (t : TyKey) : Option Hook :=
  (m.find? (·.1 == t)).map (·.2)

inductive Op where
  | regCls (c : ClassId) (h : Hook)
  | regPred (e : PredEntry)
  | warm (t : TyKey)
  | warmDirect (t : TyKey)
  deriving Repr

def dispatchNC (F : Facts) (s : St) (t : TyKey) : Hook :=
  match firstSome (F.mro t) (lookupCls s.regs.single) with
  | some h => h
  | none => match alookup s.direct t with
    | some h => h
    | none => resolve F s.regs t

def dispatch (F : Facts) (s : St) (t : TyKey) : Hook :=
  match alookup s.lru t with
  | some h => h
  | none => dispatchNC F s t

def step (F : Facts) (s : St) : Op → St
  | .regCls c h => { regs := { s.regs with single := (c, h) :: s.regs.single }, lru := [], direct := [] }
  | .regPred e => { regs := { s.regs with preds := e :: s.regs.preds }, lru := [], direct := [] }
  | .warm t => { s with lru := (t, dispatch F s t) :: s.lru }
  | .warmDirect t => let h := dispatch F s t
      { s with lru := [(t, h)], direct := (t, h) :: s.direct }

def CacheOK (F : Facts) (s : St) : Prop :=
  (∀ t h, (t, h) ∈ s.lru → h = resolve F s.regs t) ∧
  (∀ t h, (t, h) ∈ s.direct → h = resolve F s.regs t)

theorem alookup_mem {m : List (TyKey × Hook)} {t h} (hl : alookup m t = some h) : (t, h) ∈ m := by
  unfold alookup at hl
  cases hf : m.find? (·.1 == t) with
  | none => simp [hf] at hl
  | some p =>
    simp [hf] at hl
    have hm := List.mem_of_find?_eq_some hf
    have hp := List.find?_some hf
    simp at hp
    cases p with
    | mk a b => simp at hp hl; subst hp; subst hl; exact hm

theorem dispatchNC_ok (F : Facts) (s : St) (hs : CacheOK F s) (t : TyKey) :
    dispatchNC F s t = resolve F s.regs t := by
  unfold dispatchNC
  cases hc : firstSome (F.mro t) (lookupCls s.regs.single) with
  | some h => simp; rw [resolve, hc]
  | none =>
    simp
    cases hd : alookup s.direct t with
    | some h => simp; exact hs.2 t h (alookup_mem hd)
    | none => simp

theorem dispatch_ok (F : Facts) (s : St) (hs : CacheOK F s) (t : TyKey) :
    dispatch F s t = resolve F s.regs t := by
  unfold dispatch
  cases hl : alookup s.lru t with
  | some h => simp; exact hs.1 t h (alookup_mem hl)
  | none => simp; exact dispatchNC_ok F s hs t

theorem step_ok (F : Facts) (s : St) (hs : CacheOK F s) (op : Op) : CacheOK F (step F s op) := by
  cases op with
  | regCls c h => constructor <;> intro t h' hm <;> simp [step] at hm
  | regPred e => constructor <;> intro t h' hm <;> simp [step] at hm
  | warm t =>
    constructor
    · intro t' h' hm
      simp [step] at hm
      rcases hm with ⟨rfl, rfl⟩ | hm
      · exact dispatch_ok F s hs _
      · exact hs.1 t' h' hm
    · intro t' h' hm; exact hs.2 t' h' (by simpa [step] using hm)
  | warmDirect t =>
    constructor
    · intro t' h' hm
      simp [step] at hm
      rcases hm with ⟨rfl, rfl⟩
      exact dispatch_ok F s hs _
    · intro t' h' hm
      simp [step] at hm
      rcases hm with ⟨rfl, rfl⟩ | hm
      · exact dispatch_ok F s hs _
      · exact hs.2 t' h' hm

def run (F : Facts) (s : St) (ops : List Op) : St := ops.foldl (step F) s

def isReg : Op → Bool
  | .regCls .. => true
  | .regPred .. => true
  | _ => false

theorem run_ok (F : Facts) (s : St) (hs : CacheOK F s) (ops : List Op) : CacheOK F (run F s ops) := by
  induction ops generalizing s with
  | nil => exact hs
  | cons op ops ih => exact ih _ (step_ok F s hs op)

theorem step_regs_nonreg (F : Facts) (s : St) (op : Op) (h : isReg op = false) :
    (step F s op).regs = s.regs := by
  cases op <;> simp [isReg] at h <;> simp [step]

theorem step_regs_congr (F : Facts) (s s' : St) (op : Op) (h : s.regs = s'.regs) (hr : isReg op = true) :
    (step F s op).regs = (step F s' op).regs := by
  cases op <;> simp [isReg] at hr <;> simp [step, h]

theorem run_regs (F : Facts) (ops : List Op) : ∀ (s s' : St), s.regs = s'.regs →
    (run F s ops).regs = (run F s' (ops.filter isReg)).regs := by
  induction ops with
  | nil => intro s s' h; exact h
  | cons op ops ih =>
    intro s s' h
    cases hr : isReg op with
    | true =>
      simp only [run, List.foldl_cons, List.filter_cons, hr, if_true]
      exact ih _ _ (step_regs_congr F s s' op h hr)
    | false =>
      simp only [run, List.foldl_cons, List.filter_cons, hr]
      exact ih _ _ (by rw [step_regs_nonreg F s op hr]; exact h)

/-- C08: caches are transparent. -/
theorem transparent (F : Facts) (s0 : St) (h0 : CacheOK F s0) (ops : List Op) (t : TyKey) :
    dispatch F (run F s0 ops) t = resolve F (run F s0 (ops.filter isReg)).regs t := by
  rw [dispatch_ok F _ (run_ok F s0 h0 ops), run_regs F ops s0 s0 rfl]

end Disp
#print axioms Disp.transparent
