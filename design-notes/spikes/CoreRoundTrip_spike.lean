import Sp.Core
namespace Core

theorem foldl_setAdd_of_nodup (xs : List Obj) : ∀ acc : List Obj, (acc ++ xs).Nodup →
    xs.foldl setAdd acc = acc ++ xs := by
  induction xs with
  | nil => intro acc _; simp
  | cons x xs ih =>
    intro acc h
    have hx : x ∉ acc := by
      intro hm
      rw [List.nodup_append] at h
      exact h.2.2 x hm x (by simp) rfl
    have e : setAdd acc x = acc ++ [x] := by simp [setAdd, hx]
    rw [List.foldl_cons, e, ih (acc ++ [x]) (by simpa using h)]
    simp

theorem mkSet_of_nodup {xs : List Obj} (h : xs.Nodup) : mkSet xs = xs := by
  have := foldl_setAdd_of_nodup xs [] (by simpa using h)
  simpa [mkSet] using this

theorem dictSet_new {d : List (Obj × Obj)} {k v : Obj} (h : k ∉ d.map (·.1)) : dictSet d k v = d ++ [(k, v)] := by
  induction d with
  | nil => simp [dictSet]
  | cons q rest ih =>
    cases q with
    | mk k' v' =>
      simp at h
      have hne : ¬ (k' = k) := fun e => h.1 e.symm
      simp [dictSet, hne]
      exact ih (by simpa using h.2)

theorem foldl_dictSet_of_nodup (kvs : List (Obj × Obj)) : ∀ d : List (Obj × Obj),
    ((d ++ kvs).map (·.1)).Nodup → kvs.foldl (fun d kv => dictSet d kv.1 kv.2) d = d ++ kvs := by
  induction kvs with
  | nil => intro d _; simp
  | cons p rest ih =>
    intro d h
    have hk : p.1 ∉ d.map (·.1) := by
      intro hm
      rw [List.map_append, List.nodup_append] at h
      exact h.2.2 p.1 hm p.1 (by simp) rfl
    rw [List.foldl_cons, dictSet_new hk, ih (d ++ [(p.1, p.2)]) (by simpa using h)]
    simp

theorem mkDict_of_nodup {kvs : List (Obj × Obj)} (h : (kvs.map (·.1)).Nodup) : mkDict kvs = kvs := by
  have := foldl_dictSet_of_nodup kvs [] (by simpa using h)
  simpa [mkDict] using this

theorem indexOf?_getElem {xs : List Obj} (h : xs.Nodup) {m : Nat} (hm : m < xs.length) :
    indexOf? xs xs[m] = some m := by
  induction xs generalizing m with
  | nil => simp at hm
  | cons y ys ih =>
    cases m with
    | zero => simp [indexOf?]
    | succ n =>
      have hm' : n < ys.length := by simpa using hm
      rw [List.nodup_cons] at h
      have hne : ¬ (y = ys[n]) := by
        intro e; exact h.1 (e ▸ List.getElem_mem hm')
      simp [indexOf?, hne, ih h.2 hm']

structure World.WF (w : World) : Prop where
  enumNodup : ∀ e, (w.members e).Nodup
  enumNotNone : ∀ e, Obj.none ∉ w.members e
  namesNodup : ∀ c, ((w.fields c).map (·.name)).Nodup

theorem olookup_append_right {pre rest : List (Obj × Obj)} {k : Obj} (h : k ∉ pre.map (·.1)) :
    olookup (pre ++ rest) k = olookup rest k := by
  induction pre with
  | nil => rfl
  | cons q pre ih =>
    cases q with
    | mk k' v' =>
      simp at h
      have hne : ¬ (k' = k) := fun e => h.1 e.symm
      simp [olookup, hne]
      exact ih (by simpa using h.2)

/-- `un` never produces `None` from a conforming non-`None` value (enum values are not `None`). -/
theorem un_ne_none (w : World) (hw : w.WF) : ∀ t x, conf w t x = true → x ≠ .none → un w t x ≠ .none
  | .opt t, x, h, hx => by
    cases x with
    | none => exact absurd rfl hx
    | _ => all_goals (simp only [un]; exact un_ne_none w hw t _ (by simpa [conf] using h) (by simp))
  | .enum e, x, h, hx => by
    cases x <;> simp_all [un, conf]
    rename_i e' m
    obtain ⟨rfl, hm⟩ := h
    have : (w.members e)[m]? = some (w.members e)[m] := by simp [hm]
    rw [this]
    intro e1
    exact hw.enumNotNone e (e1 ▸ List.getElem_mem hm)
  | .any, x, h, hx => by cases x <;> simp_all [un]
  | .int, x, h, hx => by cases x <;> simp_all [un, conf]
  | .str, x, h, hx => by cases x <;> simp_all [un, conf]
  | .bool, x, h, hx => by cases x <;> simp_all [un, conf]
  | .list _, x, h, hx => by cases x <;> simp_all [un, conf]
  | .set _, x, h, hx => by cases x <;> simp_all [un, conf]
  | .tupleHet _, x, h, hx => by cases x <;> simp_all [un, conf]
  | .dict _ _, x, h, hx => by cases x <;> simp_all [un, conf]
  | .cls _, x, h, hx => by cases x <;> simp_all [un, conf]


theorem nodup_map_on {α β} {f : α → β} : ∀ {xs : List α}, (∀ x ∈ xs, ∀ y ∈ xs, f x = f y → x = y) →
    xs.Nodup → (xs.map f).Nodup
  | [], _, _ => by simp
  | x :: xs, hinj, h => by
    rw [List.nodup_cons] at h
    rw [List.map_cons, List.nodup_cons]
    refine ⟨?_, nodup_map_on (fun a ha b hb => hinj a (by simp [ha]) b (by simp [hb])) h.2⟩
    intro hm
    rw [List.mem_map] at hm
    obtain ⟨y, hy, hxy⟩ := hm
    have := hinj y (by simp [hy]) x (by simp) hxy
    exact h.1 (this ▸ hy)

theorem unList_eq_map (w : World) (t : Ty) (xs : List Obj) : unList w t xs = xs.map (un w t) := by
  induction xs with
  | nil => simp [unList]
  | cons x xs ih => simp [unList, ih]

theorem unKV_keys (w : World) (k v : Ty) (kvs : List (Obj × Obj)) :
    (unKV w k v kvs).map (·.1) = (kvs.map (·.1)).map (un w k) := by
  induction kvs with
  | nil => simp [unKV]
  | cons p rest ih => cases p; simp [unKV, ih]

theorem inj_of_retract {env : PyEnv} {w : World} {t : Ty} {xs : List Obj}
    (h : ∀ x ∈ xs, stF env w t (un w t x) = some x) :
    ∀ x ∈ xs, ∀ y ∈ xs, un w t x = un w t y → x = y := by
  intro x hx y hy e
  have h1 := h x hx
  have h2 := h y hy
  rw [e, h2] at h1
  exact (Option.some.inj h1).symm

/-- C01 (core): structure ∘ unstructure is the identity on conforming values. -/
theorem roundtrip (env : PyEnv) (w : World) (hw : w.WF) :
    (∀ t x, conf w t x = true → stF env w t (un w t x) = some x) ∧
    (∀ fds fs, confFields w fds fs = true → (fds.map (·.name)).Nodup → ∀ pre : List (Obj × Obj),
        (∀ f ∈ fds, Obj.str f.name ∉ pre.map (·.1)) →
        stFFields env w fds (pre ++ unFields w fds fs) = some fs) ∧
    (∀ k v kvs, confKV w k v kvs = true →
        stFKV env w k v (unKV w k v kvs) = some kvs ∧ ∀ p ∈ kvs, stF env w k (un w k p.1) = some p.1) ∧
    (∀ ts xs, confTuple w ts xs = true → stFTuple env w ts (unTuple w ts xs) = some xs) ∧
    (∀ t xs, confList w t xs = true →
        stFList env w t (unList w t xs) = some xs ∧ ∀ x ∈ xs, stF env w t (un w t x) = some x) := by
  apply conf.mutual_induct w
    (motive1 := fun t x => conf w t x = true → stF env w t (un w t x) = some x)
    (motive2 := fun fds fs => confFields w fds fs = true → (fds.map (·.name)).Nodup → ∀ pre : List (Obj × Obj),
        (∀ f ∈ fds, Obj.str f.name ∉ pre.map (·.1)) →
        stFFields env w fds (pre ++ unFields w fds fs) = some fs)
    (motive3 := fun k v kvs => confKV w k v kvs = true →
        stFKV env w k v (unKV w k v kvs) = some kvs ∧ ∀ p ∈ kvs, stF env w k (un w k p.1) = some p.1)
    (motive4 := fun ts xs => confTuple w ts xs = true → stFTuple env w ts (unTuple w ts xs) = some xs)
    (motive5 := fun t xs => confList w t xs = true →
        stFList env w t (unList w t xs) = some xs ∧ ∀ x ∈ xs, stF env w t (un w t x) = some x)
  -- any, int, str, bool
  · intro x _; cases x <;> simp [un, stF]
  · intro i _; simp [un, stF, env.toInt_int]
  · intro s _; simp [un, stF, env.toStr_str]
  · intro b _; simp [un, stF, env.toBool_bool]
  -- enum
  · intro e e' m h
    simp only [conf, Bool.and_eq_true, beq_iff_eq, decide_eq_true_eq] at h
    obtain ⟨rfl, hm⟩ := h
    have : (w.members e)[m]? = some (w.members e)[m] := by simp [hm]
    simp only [un, this, stF, indexOf?_getElem (hw.enumNodup e) hm, Option.map_some]
  -- list
  · intro t xs ih h
    simp only [conf] at h
    simp [un, stF, iterItems, (ih h).1]
  -- set
  · intro t xs ih h
    simp only [conf, Bool.and_eq_true, decide_eq_true_eq] at h
    obtain ⟨hc, hnd⟩ := h
    obtain ⟨hl, he⟩ := ih hc
    have hnd' : (unList w t xs).Nodup := by
      rw [unList_eq_map]; exact nodup_map_on (inj_of_retract he) hnd
    simp [un, stF, iterItems, mkSet_of_nodup hnd', hl, mkSet_of_nodup hnd]
  -- hetero tuple
  · intro ts xs ih h
    simp only [conf] at h
    simp [un, stF, iterItems, ih h]
  -- dict
  · intro k v kvs ih h
    simp only [conf, Bool.and_eq_true, decide_eq_true_eq] at h
    obtain ⟨hc, hnd⟩ := h
    obtain ⟨hl, he⟩ := ih hc
    have he' : ∀ a ∈ kvs.map (·.1), stF env w k (un w k a) = some a := by
      intro a ha
      rw [List.mem_map] at ha
      obtain ⟨p, hp, rfl⟩ := ha
      exact he p hp
    have hnd' : ((unKV w k v kvs).map (·.1)).Nodup := by
      rw [unKV_keys]; exact nodup_map_on (inj_of_retract he') hnd
    simp [un, stF, mkDict_of_nodup hnd', hl, mkDict_of_nodup hnd]
  -- optional
  · intro t _; simp [un, stF]
  · intro t x hx ih h
    have hc : conf w t x = true := by cases x <;> simp_all [conf]
    have hne := un_ne_none w hw t x hc (fun e => hx e)
    have e1 : un w t.opt x = un w t x := by cases x <;> simp_all [un]
    rw [e1]
    have := ih hc
    cases hu : un w t x with
    | none => exact absurd hu hne
    | _ => all_goals (simp only [stF]; rw [← hu]; exact this)
  -- class
  · intro c c' fs ih h
    simp only [conf, Bool.and_eq_true, beq_iff_eq] at h
    obtain ⟨rfl, hf⟩ := h
    have := ih hf (hw.namesNodup c) [] (by simp)
    simp only [List.nil_append] at this
    simp only [un, stF, this, Option.map_some]
  -- impossible shapes
  · intro t x h1 h2 h3 h4 h5 h6 h7 h8 h9 h10 h11 h12 h
    exfalso
    cases t <;> cases x <;> simp_all [conf]
  -- fields: nil
  · intro _ _ pre _; simp [unFields, stFFields]
  -- fields: cons
  · intro f fds n x rest ih1 ih2 h hnd pre hpre
    simp only [confFields, Bool.and_eq_true, beq_iff_eq] at h
    obtain ⟨⟨hn, hx⟩, hr⟩ := h
    simp only [List.map_cons, List.nodup_cons] at hnd
    have hk : Obj.str f.name ∉ pre.map (·.1) := hpre f (by simp)
    have hl : olookup (pre ++ unFields w (f :: fds) ((n, x) :: rest)) (Obj.str f.name) = some (un w f.ty x) := by
      rw [olookup_append_right hk]; simp [unFields, olookup]
    rw [stFFields]
    split
    · rename_i hl'; rw [hl] at hl'; cases hl'
    · rename_i y hl'
      rw [hl] at hl'; cases hl'
      simp only [ih1 hx]
      have key : pre ++ unFields w (f :: fds) ((n, x) :: rest) =
          (pre ++ [(Obj.str f.name, un w f.ty x)]) ++ unFields w fds rest := by
        simp [unFields]
      rw [key, ih2 hr hnd.2 (pre ++ [(Obj.str f.name, un w f.ty x)]) ?_]
      · simp [hn]
      · intro g hg
        simp only [List.map_append, List.map_cons, List.map_nil, List.mem_append, List.mem_singleton, not_or]
        refine ⟨hpre g (by simp [hg]), ?_⟩
        intro e
        have : g.name = f.name := by simpa using e
        exact hnd.1 (List.mem_map.mpr ⟨g, hg, this⟩)
  -- fields: shape mismatch
  · intro fds fs h1 h2 h
    exfalso
    cases fds <;> cases fs <;> simp_all [confFields]
  -- key/value pairs
  · intro k v _; simp [unKV, stFKV]
  · intro k v a b rest ih1 ih2 ih3 h
    simp only [confKV, Bool.and_eq_true] at h
    obtain ⟨⟨ha, hb⟩, hr⟩ := h
    obtain ⟨hl, he⟩ := ih3 hr
    refine ⟨by simp [unKV, stFKV, ih1 ha, ih2 hb, hl], ?_⟩
    intro p hp
    simp at hp
    rcases hp with rfl | hp
    · exact ih1 ha
    · exact he p hp
  -- tuples
  · intro _; simp [unTuple, stFTuple]
  · intro t ts x xs ih1 ih2 h
    simp only [confTuple, Bool.and_eq_true] at h
    simp [unTuple, stFTuple, ih1 h.1, ih2 h.2]
  · intro ts xs h1 h2 h
    exfalso
    cases ts <;> cases xs <;> simp_all [confTuple]
  -- lists
  · intro t _; simp [unList, stFList]
  · intro t x xs ih1 ih2 h
    simp only [confList, Bool.and_eq_true] at h
    obtain ⟨hl, he⟩ := ih2 h.2
    refine ⟨by simp [unList, stFList, ih1 h.1, hl], ?_⟩
    intro y hy
    simp at hy
    rcases hy with rfl | hy
    · exact ih1 h.1
    · exact he y hy

end Core
#print axioms Core.roundtrip
