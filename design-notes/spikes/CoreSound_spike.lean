import Sp.CoreObj
namespace Core

inductive Ty where
  | any | int | str | bool
  | enum (e : Nat)
  | list (t : Ty)
  | set (t : Ty)
  | tupleHet (ts : List Ty)
  | dict (k v : Ty)
  | opt (t : Ty)
  | cls (c : Nat)
  deriving Repr, Inhabited

structure Field where
  name : String
  ty : Ty
  dflt : Option Obj
  deriving Repr

structure World where
  classes : List (List Field)
  enums : List (List Obj)            -- member values
  deriving Repr

def World.fields (w : World) (c : Nat) : List Field := match w.classes[c]? with | some f => f | none => []
def World.members (w : World) (e : Nat) : List Obj := match w.enums[e]? with | some f => f | none => []

/-- Python builtins used at the leaves, abstract. -/
structure PyEnv where
  toInt : Obj → Option Int
  toStr : Obj → Option String
  toBool : Obj → Option Bool
  toInt_int : ∀ i, toInt (.int i) = some i
  toStr_str : ∀ s, toStr (.str s) = some s
  toBool_bool : ∀ b, toBool (.bool b) = some b

def isPrim : Obj → Bool
  | .none | .bool _ | .int _ | .str _ => true
  | _ => false

/-- insert into a duplicate-free list (Python `set.add`) -/
def setAdd (xs : List Obj) (x : Obj) : List Obj := if x ∈ xs then xs else xs ++ [x]
def mkSet (xs : List Obj) : List Obj := xs.foldl setAdd []

/-- `d[k] = v` on an insertion-ordered dict -/
def dictSet : List (Obj × Obj) → Obj → Obj → List (Obj × Obj)
  | [], k, v => [(k, v)]
  | (k', v') :: rest, k, v => if k' = k then (k', v) :: rest else (k', v') :: dictSet rest k v
def mkDict (kvs : List (Obj × Obj)) : List (Obj × Obj) := kvs.foldl (fun d kv => dictSet d kv.1 kv.2) []

def olookup (kvs : List (Obj × Obj)) (k : Obj) : Option Obj :=
  match kvs with
  | [] => none
  | (k', v) :: rest => if k' = k then some v else olookup rest k

theorem olookup_lt {kvs : List (Obj × Obj)} {k v} (h : olookup kvs k = some v) : sizeOf v < sizeOf kvs := by
  induction kvs with
  | nil => simp [olookup] at h
  | cons p rest ih =>
    cases p with
    | mk k' w =>
      simp only [olookup] at h
      split at h
      · cases h; simp; omega
      · have := ih h; simp; omega

/-- iterable payloads accepted where a sequence is expected -/
def iterItems : Obj → Option (List Obj)
  | .list xs => some xs
  | .tuple xs => some xs
  | .set xs => some xs
  | _ => none

theorem iterItems_le {o xs} (h : iterItems o = some xs) : sizeOf xs < sizeOf o := by
  cases o <;> simp [iterItems] at h <;> subst h <;> simp <;> omega

def indexOf? (xs : List Obj) (x : Obj) : Option Nat :=
  match xs with
  | [] => none
  | y :: ys => if y = x then some 0 else (indexOf? ys x).map (· + 1)

mutual
def conf (w : World) : Ty → Obj → Bool
  | .any, _ => true
  | .int, .int _ => true
  | .str, .str _ => true
  | .bool, .bool _ => true
  | .enum e, .enumM e' m => e == e' && decide (m < (w.members e).length)
  | .list t, .list xs => confList w t xs
  | .set t, .set xs => confList w t xs && decide xs.Nodup
  | .tupleHet ts, .tuple xs => confTuple w ts xs
  | .dict k v, .dict kvs => confKV w k v kvs && decide (kvs.map (·.1)).Nodup
  | .opt _, .none => true
  | .opt t, x => conf w t x
  | .cls c, .inst c' fs => c == c' && confFields w (w.fields c) fs
  | _, _ => false
termination_by t x => (sizeOf x, sizeOf t)
def confList (w : World) (t : Ty) : List Obj → Bool
  | [] => true
  | x :: xs => conf w t x && confList w t xs
termination_by xs => (sizeOf xs, sizeOf t)
def confTuple (w : World) : List Ty → List Obj → Bool
  | [], [] => true
  | t :: ts, x :: xs => conf w t x && confTuple w ts xs
  | _, _ => false
termination_by ts xs => (sizeOf xs, sizeOf ts)
def confKV (w : World) (k v : Ty) : List (Obj × Obj) → Bool
  | [] => true
  | (a, b) :: rest => conf w k a && conf w v b && confKV w k v rest
termination_by kvs => (sizeOf kvs, sizeOf k + sizeOf v)
def confFields (w : World) : List Field → List (String × Obj) → Bool
  | [], [] => true
  | f :: fds, (n, x) :: rest => f.name == n && conf w f.ty x && confFields w fds rest
  | _, _ => false
termination_by _ fs => (sizeOf fs, 0)
end


mutual
/-- unstructure, Converter-style encodings -/
def un (w : World) : Ty → Obj → Obj
  | .enum e, .enumM _ m => match (w.members e)[m]? with | some v => v | none => .none
  | .list t, .list xs => .list (unList w t xs)
  | .set t, .set xs => .set (mkSet (unList w t xs))
  | .tupleHet ts, .tuple xs => .tuple (unTuple w ts xs)
  | .dict k v, .dict kvs => .dict (mkDict (unKV w k v kvs))
  | .opt _, .none => .none
  | .opt t, x => un w t x
  | .cls c, .inst _ fs => .dict (unFields w (w.fields c) fs)
  | _, x => x
termination_by t x => (sizeOf x, sizeOf t)
def unList (w : World) (t : Ty) : List Obj → List Obj
  | [] => []
  | x :: xs => un w t x :: unList w t xs
termination_by xs => (sizeOf xs, sizeOf t)
def unTuple (w : World) : List Ty → List Obj → List Obj
  | t :: ts, x :: xs => un w t x :: unTuple w ts xs
  | _, _ => []
termination_by ts xs => (sizeOf xs, sizeOf ts)
def unKV (w : World) (k v : Ty) : List (Obj × Obj) → List (Obj × Obj)
  | [] => []
  | (a, b) :: rest => (un w k a, un w v b) :: unKV w k v rest
termination_by kvs => (sizeOf kvs, sizeOf k + sizeOf v)
def unFields (w : World) : List Field → List (String × Obj) → List (Obj × Obj)
  | f :: fds, (_, x) :: rest => (.str f.name, un w f.ty x) :: unFields w fds rest
  | _, _ => []
termination_by _ fs => (sizeOf fs, 0)
end

mutual
/-- structure, fast mode -/
def stF (env : PyEnv) (w : World) : Ty → Obj → Option Obj
  | .any, x => some x
  | .int, x => (env.toInt x).map .int
  | .str, x => (env.toStr x).map .str
  | .bool, x => (env.toBool x).map .bool
  | .enum e, x => (indexOf? (w.members e) x).map (.enumM e)
  | .list t, o => match h : iterItems o with
      | some xs => (stFList env w t xs).map .list
      | none => none
  | .set t, o => match h : iterItems o with
      | some xs => (stFList env w t xs).map (fun ys => .set (mkSet ys))
      | none => none
  | .tupleHet ts, o => match h : iterItems o with
      | some xs => (stFTuple env w ts xs).map .tuple
      | none => none
  | .dict k v, .dict kvs => (stFKV env w k v kvs).map (fun r => .dict (mkDict r))
  | .opt _, .none => some .none
  | .opt t, x => stF env w t x
  | .cls c, .dict kvs => (stFFields env w (w.fields c) kvs).map (.inst c)
  | _, _ => none
termination_by t x => (sizeOf x, sizeOf t)
decreasing_by
  all_goals first
    | decreasing_tactic
    | (apply Prod.Lex.left; exact iterItems_le h)
def stFList (env : PyEnv) (w : World) (t : Ty) : List Obj → Option (List Obj)
  | [] => some []
  | x :: xs => match stF env w t x with
    | none => none
    | some y => (stFList env w t xs).map (y :: ·)
termination_by xs => (sizeOf xs, sizeOf t)
def stFTuple (env : PyEnv) (w : World) : List Ty → List Obj → Option (List Obj)
  | [], [] => some []
  | t :: ts, x :: xs => match stF env w t x with
    | none => none
    | some y => (stFTuple env w ts xs).map (y :: ·)
  | _, _ => none                                             -- wrong arity
termination_by ts xs => (sizeOf xs, sizeOf ts)
def stFKV (env : PyEnv) (w : World) (k v : Ty) : List (Obj × Obj) → Option (List (Obj × Obj))
  | [] => some []
  | (a, b) :: rest => match stF env w k a, stF env w v b with
    | some a', some b' => (stFKV env w k v rest).map ((a', b') :: ·)
    | _, _ => none
termination_by kvs => (sizeOf kvs, sizeOf k + sizeOf v)
def stFFields (env : PyEnv) (w : World) : List Field → (kvs : List (Obj × Obj)) → Option (List (String × Obj))
  | [], _ => some []
  | f :: fds, kvs =>
    match h : olookup kvs (.str f.name) with
    | none => match f.dflt with
      | none => none
      | some d => (stFFields env w fds kvs).map ((f.name, d) :: ·)
    | some x => match stF env w f.ty x with
      | none => none
      | some y => (stFFields env w fds kvs).map ((f.name, y) :: ·)
termination_by fds kvs => (sizeOf kvs, fds.length)
decreasing_by
  all_goals first
    | decreasing_tactic
    | (apply Prod.Lex.left; exact olookup_lt h)
end


/-! ### helper lemmas on sets and dicts -/

theorem setAdd_nodup {xs : List Obj} (h : xs.Nodup) (x : Obj) : (setAdd xs x).Nodup := by
  unfold setAdd
  split
  · exact h
  · rename_i hx
    rw [List.nodup_append]
    refine ⟨h, by simp, ?_⟩
    intro a ha b hb
    simp at hb; subst hb
    intro e; subst e; exact hx ha

theorem setAdd_mem {xs : List Obj} {x y : Obj} (h : y ∈ setAdd xs x) : y ∈ xs ∨ y = x := by
  unfold setAdd at h
  split at h
  · exact Or.inl h
  · simp at h; exact h

theorem foldl_setAdd_nodup (ys : List Obj) : ∀ acc : List Obj, acc.Nodup → (ys.foldl setAdd acc).Nodup := by
  induction ys with
  | nil => intro acc h; exact h
  | cons y ys ih => intro acc h; exact ih _ (setAdd_nodup h y)

theorem foldl_setAdd_mem (ys : List Obj) : ∀ (acc : List Obj) (z : Obj),
    z ∈ ys.foldl setAdd acc → z ∈ acc ∨ z ∈ ys := by
  induction ys with
  | nil => intro acc z h; exact Or.inl h
  | cons y ys ih =>
    intro acc z h
    rcases ih _ z h with h1 | h1
    · rcases setAdd_mem h1 with h2 | h2
      · exact Or.inl h2
      · right; simp [h2]
    · right; simp [h1]

theorem mkSet_nodup (ys : List Obj) : (mkSet ys).Nodup := foldl_setAdd_nodup ys [] (by simp)
theorem mkSet_mem {ys : List Obj} {z} (h : z ∈ mkSet ys) : z ∈ ys := by
  rcases foldl_setAdd_mem ys [] z h with h | h
  · simp at h
  · exact h

theorem confList_iff (w : World) (t : Ty) (xs : List Obj) :
    confList w t xs = true ↔ ∀ x ∈ xs, conf w t x = true := by
  induction xs with
  | nil => simp [confList]
  | cons x xs ih => simp [confList, ih]

theorem confKV_iff (w : World) (k v : Ty) (kvs : List (Obj × Obj)) :
    confKV w k v kvs = true ↔ ∀ p ∈ kvs, conf w k p.1 = true ∧ conf w v p.2 = true := by
  induction kvs with
  | nil => simp [confKV]
  | cons p rest ih => cases p; simp [confKV, ih, and_assoc]

theorem dictSet_mem {d : List (Obj × Obj)} {k v : Obj} {p} (h : p ∈ dictSet d k v) : p ∈ d ∨ p = (k, v) := by
  induction d with
  | nil => simp [dictSet] at h; exact Or.inr h
  | cons q rest ih =>
    cases q with
    | mk k' v' =>
      simp only [dictSet] at h
      split at h
      · rename_i hk
        simp at h
        rcases h with h | h
        · right; rw [h, hk]
        · left; simp [h]
      · simp at h
        rcases h with h | h
        · left; simp [h]
        · rcases ih h with h2 | h2
          · left; simp [h2]
          · exact Or.inr h2

theorem dictSet_keys (d : List (Obj × Obj)) (k v : Obj) :
    (dictSet d k v).map (·.1) = if k ∈ d.map (·.1) then d.map (·.1) else d.map (·.1) ++ [k] := by
  induction d with
  | nil => simp [dictSet]
  | cons q rest ih =>
    cases q with
    | mk k' v' =>
      simp only [dictSet]
      split
      · rename_i hk; simp [hk]
      · rename_i hk
        simp only [List.map_cons, ih]
        by_cases hm : k ∈ rest.map (·.1)
        · simp [hm]
        · have : ¬ (k = k') := fun e => hk e.symm
          simp [hm, this]

theorem dictSet_nodup {d : List (Obj × Obj)} (h : (d.map (·.1)).Nodup) (k v : Obj) :
    ((dictSet d k v).map (·.1)).Nodup := by
  rw [dictSet_keys]
  split
  · exact h
  · rename_i hk
    rw [List.nodup_append]
    refine ⟨h, by simp, ?_⟩
    intro a ha b hb
    simp at hb; subst hb
    intro e; subst e; exact hk ha

theorem foldl_dictSet_nodup (kvs : List (Obj × Obj)) : ∀ d : List (Obj × Obj), (d.map (·.1)).Nodup →
    ((kvs.foldl (fun d kv => dictSet d kv.1 kv.2) d).map (·.1)).Nodup := by
  induction kvs with
  | nil => intro d h; exact h
  | cons p rest ih => intro d h; exact ih _ (dictSet_nodup h _ _)

theorem foldl_dictSet_mem (kvs : List (Obj × Obj)) : ∀ (d : List (Obj × Obj)) (p : Obj × Obj),
    p ∈ kvs.foldl (fun d kv => dictSet d kv.1 kv.2) d → p ∈ d ∨ p ∈ kvs := by
  induction kvs with
  | nil => intro d p h; exact Or.inl h
  | cons q rest ih =>
    intro d p h
    rcases ih _ p h with h1 | h1
    · rcases dictSet_mem h1 with h2 | h2
      · exact Or.inl h2
      · right; cases q; simp_all
    · right; simp [h1]

theorem mkDict_nodup (kvs : List (Obj × Obj)) : ((mkDict kvs).map (·.1)).Nodup :=
  foldl_dictSet_nodup kvs [] (by simp)
theorem mkDict_mem {kvs : List (Obj × Obj)} {p} (h : p ∈ mkDict kvs) : p ∈ kvs := by
  rcases foldl_dictSet_mem kvs [] p h with h | h
  · simp at h
  · exact h

theorem indexOf?_lt {xs : List Obj} {x : Obj} {m} (h : indexOf? xs x = some m) : m < xs.length := by
  induction xs generalizing m with
  | nil => simp [indexOf?] at h
  | cons y ys ih =>
    simp only [indexOf?] at h
    split at h
    · cases h; simp
    · cases hi : indexOf? ys x with
      | none => simp [hi] at h
      | some j => simp [hi] at h; subst h; have := ih hi; simp; omega

/-- defaults conform to their field types -/
def World.DefaultsOK (w : World) : Prop :=
  ∀ c, ∀ f ∈ w.fields c, ∀ d, f.dflt = some d → conf w f.ty d = true

/-- C02 (core): whatever the input, an accepted result conforms to the type at every depth. -/
theorem sound (env : PyEnv) (w : World) (hw : w.DefaultsOK) :
    (∀ t o v, stF env w t o = some v → conf w t v = true) ∧
    (∀ fds kvs fs, (∀ f ∈ fds, ∀ d, f.dflt = some d → conf w f.ty d = true) →
        stFFields env w fds kvs = some fs → confFields w fds fs = true) ∧
    (∀ k v kvs r, stFKV env w k v kvs = some r → confKV w k v r = true) ∧
    (∀ ts xs ys, stFTuple env w ts xs = some ys → confTuple w ts ys = true) ∧
    (∀ t xs ys, stFList env w t xs = some ys → confList w t ys = true) := by
  apply stF.mutual_induct env w
    (motive1 := fun t o => ∀ v, stF env w t o = some v → conf w t v = true)
    (motive2 := fun fds kvs => ∀ fs, (∀ f ∈ fds, ∀ d, f.dflt = some d → conf w f.ty d = true) →
        stFFields env w fds kvs = some fs → confFields w fds fs = true)
    (motive3 := fun k v kvs => ∀ r, stFKV env w k v kvs = some r → confKV w k v r = true)
    (motive4 := fun ts xs => ∀ ys, stFTuple env w ts xs = some ys → confTuple w ts ys = true)
    (motive5 := fun t xs => ∀ ys, stFList env w t xs = some ys → confList w t ys = true)
  -- motive1
  · intro x v h; simp [conf]
  · intro x v h; simp only [stF] at h; cases hi : env.toInt x <;> simp [hi] at h; subst h; simp [conf]
  · intro x v h; simp only [stF] at h; cases hi : env.toStr x <;> simp [hi] at h; subst h; simp [conf]
  · intro x v h; simp only [stF] at h; cases hi : env.toBool x <;> simp [hi] at h; subst h; simp [conf]
  · intro e x v h
    simp only [stF] at h
    cases hi : indexOf? (w.members e) x <;> simp [hi] at h
    subst h; simp [conf, indexOf?_lt hi]
  · intro t o xs hit ih v h
    rw [stF] at h
    split at h
    · rename_i xs' hit'; rw [hit] at hit'; cases hit'
      cases hl : stFList env w t xs <;> simp [hl] at h
      subst h; simp [conf, ih _ hl]
    · simp at h
  · intro t o hit v h
    rw [stF] at h
    split at h
    · rename_i xs' hit'; rw [hit] at hit'; cases hit'
    · simp at h
  · intro t o xs hit ih v h
    rw [stF] at h
    split at h
    · rename_i xs' hit'; rw [hit] at hit'; cases hit'
      cases hl : stFList env w t xs <;> simp [hl] at h
      subst h
      rename_i ys
      have hc := (confList_iff w t ys).mp (ih _ hl)
      simp only [conf, Bool.and_eq_true, decide_eq_true_eq]
      exact ⟨(confList_iff w t _).mpr (fun x hx => hc x (mkSet_mem hx)), mkSet_nodup ys⟩
    · simp at h
  · intro t o hit v h
    rw [stF] at h
    split at h
    · rename_i xs' hit'; rw [hit] at hit'; cases hit'
    · simp at h
  · intro ts o xs hit ih v h
    rw [stF] at h
    split at h
    · rename_i xs' hit'; rw [hit] at hit'; cases hit'
      cases hl : stFTuple env w ts xs <;> simp [hl] at h
      subst h; simp [conf, ih _ hl]
    · simp at h
  · intro ts o hit v h
    rw [stF] at h
    split at h
    · rename_i xs' hit'; rw [hit] at hit'; cases hit'
    · simp at h
  · intro k v kvs ih r h
    simp only [stF] at h
    cases hl : stFKV env w k v kvs <;> simp [hl] at h
    subst h
    rename_i r'
    have hc := (confKV_iff w k v r').mp (ih _ hl)
    simp only [conf, Bool.and_eq_true, decide_eq_true_eq]
    exact ⟨(confKV_iff w k v _).mpr (fun p hp => hc p (mkDict_mem hp)), mkDict_nodup r'⟩
  · intro t v h; simp [stF] at h; subst h; simp [conf]
  · intro t x hx ih v h
    have e2 : stF env w t.opt x = stF env w t x := by cases x <;> simp_all [stF]
    rw [e2] at h
    have := ih v h
    cases v <;> simp_all [conf]
  · intro c kvs ih v h
    simp only [stF] at h
    cases hl : stFFields env w (w.fields c) kvs <;> simp [hl] at h
    subst h
    simp [conf, ih _ (fun f hf d hd => hw c f hf d hd) hl]
  · intro t o h1 h2 h3 h4 h5 h6 h7 h8 h9 h10 h11 h12 v h
    exfalso
    cases t <;> cases o <;> simp_all [stF]
  -- motive2: fields
  · intro kvs fs _ h; simp [stFFields] at h; subst h; simp [confFields]
  · intro f fds kvs hl hd fs _ h
    rw [stFFields] at h
    split at h <;> simp_all
  · intro f fds kvs hl d hd ih fs hdf h
    rw [stFFields] at h
    split at h
    · simp only [hd] at h
      cases hr : stFFields env w fds kvs <;> simp [hr] at h
      subst h
      simp [confFields, hdf f (by simp) d hd, ih _ (fun g hg => hdf g (by simp [hg])) hr]
    · simp_all
  · intro f fds kvs x hl hf ih fs _ h
    rw [stFFields] at h
    split at h <;> simp_all
  · intro f fds kvs x hl y hf ih1 ih2 fs hdf h
    rw [stFFields] at h
    split at h
    · simp_all
    · rename_i x' hl'
      rw [hl] at hl'; cases hl'
      simp only [hf] at h
      cases hr : stFFields env w fds kvs <;> simp [hr] at h
      subst h
      simp [confFields, ih1 _ hf, ih2 _ (fun g hg => hdf g (by simp [hg])) hr]
  -- motive3: key/value pairs
  · intro k v r h; simp [stFKV] at h; subst h; simp [confKV]
  · intro k v a b rest a' b' hb ha ih1 ih2 ih3 r h
    rw [stFKV] at h
    simp only [ha, hb] at h
    cases hr : stFKV env w k v rest <;> simp [hr] at h
    subst h
    simp [confKV, ih1 _ ha, ih2 _ hb, ih3 _ hr]
  · intro k v a b rest hne ih1 ih2 r h
    rw [stFKV] at h
    split at h
    · rename_i a' b' ha hb; exact absurd hb (hne a' b' ha)
    · simp at h
  -- motive4: heterogeneous tuples
  · intro ys h; simp [stFTuple] at h; subst h; simp [confTuple]
  · intro t ts x xs hf ih ys h
    rw [stFTuple] at h; simp [hf] at h
  · intro t ts x xs y hf ih1 ih2 ys h
    rw [stFTuple] at h
    simp only [hf] at h
    cases hr : stFTuple env w ts xs <;> simp [hr] at h
    subst h
    simp [confTuple, ih1 _ hf, ih2 _ hr]
  · intro ts xs h1 h2 ys h
    exfalso
    cases ts <;> cases xs <;> simp_all [stFTuple]
    exact h2 _ _ _ _ rfl rfl rfl rfl
  -- motive5: lists
  · intro t ys h; simp [stFList] at h; subst h; simp [confList]
  · intro t x xs hf ih ys h
    rw [stFList] at h; simp [hf] at h
  · intro t x xs y hf ih1 ih2 ys h
    rw [stFList] at h
    simp only [hf] at h
    cases hr : stFList env w t xs <;> simp [hr] at h
    subst h
    simp [confList, ih1 _ hf, ih2 _ hr]

end Core
#print axioms Core.sound
