"""Prototype: deterministic cooperative scheduler for Python threads at line granularity in cattrs code."""
import sys, threading, random, collections

class Sched:
    def __init__(self, seed, nthreads):
        self.rnd = random.Random(seed)
        self.sems = [threading.Semaphore(0) for _ in range(nthreads)]
        self.ctrl = threading.Semaphore(0)
        self.done = [False]*nthreads
        self.trace_log = []
        self.steps = 0
        self.tids = {}
    def _want(self, code):
        fn = code.co_filename
        return '/cattrs/' in fn or fn.startswith('<cattrs generated')
    def tracer(self, ix):
        def local(frame, event, arg):
            if event == 'line':
                self.yield_(ix)
            return local
        def glob(frame, event, arg):
            if event == 'call' and self._want(frame.f_code):
                return local
            return None
        return glob
    def yield_(self, ix):
        # hand control back to the controller and wait for our turn
        self.ctrl.release()
        self.sems[ix].acquire()
    def worker(self, ix, fn, out):
        self.sems[ix].acquire()          # wait for first turn
        sys.settrace(self.tracer(ix))
        try:
            out[ix] = ('ok', fn())
        except BaseException as e:
            out[ix] = ('err', type(e).__name__, str(e)[:80])
        finally:
            sys.settrace(None)
            self.done[ix] = True
            self.ctrl.release()
    def run(self, fns, schedule=None):
        n = len(fns); out = [None]*n
        ths = [threading.Thread(target=self.worker, args=(i, f, out)) for i, f in enumerate(fns)]
        for t in ths: t.start()
        choices = []
        while not all(self.done):
            live = [i for i in range(n) if not self.done[i]]
            if schedule is not None and self.steps < len(schedule) and schedule[self.steps] in live:
                i = schedule[self.steps]
            else:
                # bias towards long runs of one thread with occasional preemption
                i = self.rnd.choice(live) if (not choices or choices[-1] not in live or self.rnd.random() < 0.15) else choices[-1]
            choices.append(i); self.steps += 1
            self.sems[i].release()
            self.ctrl.acquire()
        for t in ths: t.join()
        return out, choices

if __name__ == '__main__':
    import attrs
    from typing import Optional
    from cattrs import Converter
    seed = int(sys.argv[1]) if len(sys.argv) > 1 else 0
    def mk():
        @attrs.define
        class C:
            x: int
            a: 'Optional[A]' = None
        @attrs.define
        class B:
            c: C
            bs: list['B'] = attrs.Factory(list)
        @attrs.define
        class A:
            b: B
            y: str = 'y'
        attrs.resolve_types(C, globals() | locals()); attrs.resolve_types(B, globals() | locals()); attrs.resolve_types(A, globals() | locals())
        return A, B, C
    A, B, C = mk()
    val = A(B(C(1, A(B(C(2)), 'z')), [B(C(3))]))
    ref_c = Converter()
    ref_u = ref_c.unstructure(val); ref_s = ref_c.structure(ref_u, A)
    bad = 0; total_steps = 0
    for s in range(seed, seed + 40):
        c = Converter()
        sch = Sched(s, 3)
        fns = [lambda: c.structure(ref_u, A), lambda: c.unstructure(val), lambda: c.structure(ref_u['b'], B)]
        out, choices = sch.run(fns)
        total_steps += len(choices)
        exp = [('ok', ref_s), ('ok', ref_u), ('ok', ref_s.b)]
        if out != exp:
            bad += 1; print('seed', s, 'MISMATCH', out)
    print('schedules', 40, 'bad', bad, 'avg steps', total_steps // 40)
