"""Abstract programs and their wire format (S-expressions), shared by both sides.

Abstract objects are tagged tuples:
  ('N',) ('b',bool) ('i',int) ('f',twice:int) ('s',str) ('y',hex) ('e',enum#,member#)
  ('l',[..]) ('t',[..]) ('q',[..]) ('S',[..]) ('F',[..]) ('d',[(k,v)..]) ('I',cls#,[(name,v)..]) ('o',id)
Abstract types: 'any' 'int' 'float' 'str' 'bytes' 'bool' | ('enum',k) ('lit',[objs]) ('list',t) ('seq',t) ('mseq',t)
  ('tup*',t) ('deque',t) ('set',t) ('mset',t) ('fset',t) ('tup',[ts]) ('dict',k,v) ('map',k,v) ('mmap',k,v)
  ('opt',t) ('new',t) ('ann',t) ('final',t) ('alias',t) ('cls',k) ('td',k)
  ('odict',k,v) ('ddict',k,v) ('counter',k)   collections.OrderedDict[K, V] / defaultdict[K, V] / Counter[K]: mapping types
       whose target class is not dict; their values are ('D', 'od'|'dd'|'ctr', [(k,v)..]) (the default_factory of a
       defaultdict is a function of the declared type, not part of the abstract object)
  ('nt',k)   a typing.NamedTuple class of the world (class kind 'nt'); its values are ('I',k,[(name,v)..])
  ('union',[k...],has_none)   Union[K.., (None)] of attrs classes / dataclasses of the world
"""
from __future__ import annotations


def esc(s: str) -> str:
    out = ['"']
    for ch in s:
        o = ord(ch)
        if ch == '"':
            out.append('\\"')
        elif ch == "\\":
            out.append("\\\\")
        elif o < 32 or o > 126:
            out.append("\\u%04x" % (o & 0xFFFF))
        else:
            out.append(ch)
    out.append('"')
    return "".join(out)


def obj_sx(o) -> str:
    t = o[0]
    if t == "N":
        return "N"
    if t == "b":
        return "(b %d)" % (1 if o[1] else 0)
    if t == "i":
        return "(i %d)" % o[1]
    if t == "f":
        return "(f %d)" % o[1]
    if t == "s":
        return "(s %s)" % esc(o[1])
    if t == "y":
        return "(y %s)" % esc(o[1])
    if t == "e":
        return "(e %d %d)" % (o[1], o[2])
    if t in ("l", "t", "q"):
        return "(" + " ".join([t] + [obj_sx(x) for x in o[1]]) + ")"
    if t in ("S", "F"):
        return "(" + " ".join([t] + [obj_sx(x) for x in o[1]]) + ")"
    if t == "d":
        return "(" + " ".join(["d"] + ["(%s %s)" % (obj_sx(k), obj_sx(v)) for k, v in o[1]]) + ")"
    if t == "D":
        return "(" + " ".join(["D", o[1]] + ["(%s %s)" % (obj_sx(k), obj_sx(v)) for k, v in o[2]]) + ")"
    if t == "I":
        return "(" + " ".join(["I", str(o[1])] + ["(%s %s)" % (esc(n), obj_sx(v)) for n, v in o[2]]) + ")"
    if t == "o":
        return "(o %d)" % o[1]
    raise ValueError(o)


def canon_sx(o) -> str:
    """Canonical text: sets sorted by the canonical text of their elements (as the Lean printer does)."""
    t = o[0]
    if t in ("S", "F"):
        return "(" + " ".join([t] + sorted(canon_sx(x) for x in o[1])) + ")"
    if t in ("l", "t", "q"):
        return "(" + " ".join([t] + [canon_sx(x) for x in o[1]]) + ")"
    if t == "d":
        return "(" + " ".join(["d"] + ["(%s %s)" % (canon_sx(k), canon_sx(v)) for k, v in o[1]]) + ")"
    if t == "D":
        return "(" + " ".join(["D", o[1]] + ["(%s %s)" % (canon_sx(k), canon_sx(v)) for k, v in o[2]]) + ")"
    if t == "I":
        return "(" + " ".join(["I", str(o[1])] + ["(%s %s)" % (esc(n), canon_sx(v)) for n, v in o[2]]) + ")"
    return obj_sx(o)


def ty_sx(t) -> str:
    if isinstance(t, str):
        return t
    k = t[0]
    if k == "enum" or k == "cls" or k == "td" or k == "nt":
        return "(%s %d)" % (k, t[1])
    if k == "lit":
        return "(" + " ".join(["lit"] + [obj_sx(v) for v in t[1]]) + ")"
    if k == "union":
        return "(" + " ".join(["ounion" if t[2] else "union"] + [str(c) for c in t[1]]) + ")"
    if k == "tup":
        return "(" + " ".join(["tup"] + [ty_sx(x) for x in t[1]]) + ")"
    if k in ("dict", "map", "mmap", "odict", "ddict"):
        return "(%s %s %s)" % (k, ty_sx(t[1]), ty_sx(t[2]))
    return "(%s %s)" % (k, ty_sx(t[1]))


def dflt_sx(d) -> str:
    if d is None:
        return "-"
    return "(%s %s)" % (d[0], obj_sx(d[1]))  # ('c', obj) | ('fac', obj)


def field_sx(f) -> str:
    return "(fld %s %s %s %s %d %d)" % (
        esc(f["name"]),
        esc(f["alias"]),
        "-" if f["ty"] is None else ty_sx(f["ty"]),
        dflt_sx(f["dflt"]),
        1 if f["init"] else 0,
        1 if f.get("required", True) else 0,
    )


def cls_sx(c) -> str:
    return "(" + " ".join(["cls", c["kind"], "1" if c["frozen"] else "0"] + [field_sx(f) for f in c["fields"]]) + ")"


def world_sx(w) -> str:
    return "(world (%s) (%s))" % (
        " ".join(["classes"] + [cls_sx(c) for c in w["classes"]]),
        " ".join(["enums"] + ["(" + " ".join(obj_sx(v) for v in e) + ")" for e in w["enums"]]),
    )


def cfg_sx(cfg) -> str:
    return "(cfg %d %d %d %d)" % (
        1 if cfg["gen"] else 0,
        1 if cfg["tuple"] else 0,
        1 if cfg["detailed"] else 0,
        1 if cfg.get("forbid") else 0,
    )


# ---------------------------------------------------------------- parsing replies


def parse_sx(s: str):
    """Parse one S-expression into nested python lists; atoms -> str, strings -> ('"', value)."""
    pos = 0
    n = len(s)

    def skip():
        nonlocal pos
        while pos < n and s[pos] in " \t\r\n":
            pos += 1

    def one():
        nonlocal pos
        skip()
        if pos >= n:
            raise ValueError("eof")
        c = s[pos]
        if c == "(":
            pos += 1
            items = []
            while True:
                skip()
                if pos >= n:
                    raise ValueError("eof in list")
                if s[pos] == ")":
                    pos += 1
                    return items
                items.append(one())
        if c == '"':
            pos += 1
            out = []
            while s[pos] != '"':
                ch = s[pos]
                if ch == "\\":
                    nx = s[pos + 1]
                    if nx == "u":
                        out.append(chr(int(s[pos + 2 : pos + 6], 16)))
                        pos += 6
                        continue
                    out.append({"n": "\n", "t": "\t", "r": "\r"}.get(nx, nx))
                    pos += 2
                    continue
                out.append(ch)
                pos += 1
            pos += 1
            return ('"', "".join(out))
        st = pos
        while pos < n and s[pos] not in ' ()"\t\r\n':
            pos += 1
        return s[st:pos]

    r = one()
    return r


def obj_of_px(p):
    """parsed S-expression -> abstract object"""
    if p == "N":
        return ("N",)
    h = p[0]
    if h == "b":
        return ("b", p[1] == "1")
    if h == "i":
        return ("i", int(p[1]))
    if h == "f":
        return ("f", int(p[1]))
    if h == "s":
        return ("s", p[1][1])
    if h == "y":
        return ("y", p[1][1])
    if h == "e":
        return ("e", int(p[1]), int(p[2]))
    if h in ("l", "t", "q", "S", "F"):
        return (h, [obj_of_px(x) for x in p[1:]])
    if h == "d":
        return ("d", [(obj_of_px(k), obj_of_px(v)) for k, v in p[1:]])
    if h == "D":
        return ("D", p[1], [(obj_of_px(k), obj_of_px(v)) for k, v in p[2:]])
    if h == "I":
        return ("I", int(p[1]), [(n[1], obj_of_px(v)) for n, v in p[2:]])
    if h == "o":
        return ("o", int(p[1]))
    raise ValueError(p)


# ---------------------------------------------------------------- JSON round trip of abstract terms

def tuple_ify(o):
    """JSON turns tuples into lists; restore the abstract-term shape."""
    if isinstance(o, list):
        if o and isinstance(o[0], str) and o[0] in ("N", "b", "i", "f", "s", "y", "e", "l", "t", "q", "S", "F", "d", "D", "I", "o"):
            tag = o[0]
            if tag in ("l", "t", "q", "S", "F"):
                return (tag, [tuple_ify(x) for x in o[1]])
            if tag == "d":
                return (tag, [(tuple_ify(k), tuple_ify(v)) for k, v in o[1]])
            if tag == "I":
                return (tag, o[1], [(n, tuple_ify(v)) for n, v in o[2]])
            if tag == "D":
                return (tag, o[1], [(tuple_ify(k), tuple_ify(v)) for k, v in o[2]])
            return tuple(o)
        if o and isinstance(o[0], str):  # a type term
            k = o[0]
            if k in ("enum", "cls", "td", "nt"):
                return (k, o[1])
            if k == "lit":
                return (k, [tuple_ify(v) for v in o[1]])
            if k == "union":
                return (k, list(o[1]), bool(o[2]))
            if k == "tup":
                return (k, [tuple_ify(v) for v in o[1]])
            if k in ("dict", "map", "mmap", "odict", "ddict"):
                return (k, tuple_ify(o[1]), tuple_ify(o[2]))
            return (k, tuple_ify(o[1]))
        return [tuple_ify(x) for x in o]
    return o




def world_from_json(w):
    out = {"classes": [], "enums": [[tuple_ify(v) for v in e] for e in w["enums"]]}
    for c in w["classes"]:
        c2 = dict(c)
        c2["fields"] = []
        for f in c["fields"]:
            f2 = dict(f)
            f2["ty"] = tuple_ify(f["ty"]) if f["ty"] is not None else None
            f2["dflt"] = (f["dflt"][0], tuple_ify(f["dflt"][1])) if f["dflt"] is not None else None
            c2["fields"].append(f2)
        out["classes"].append(c2)
    return out


def case_from_json(case):
    out = dict(case)
    if "world" in out:
        out["world"] = world_from_json(out["world"])
    for k in ("x", "ty", "payload", "value"):
        if k in out and out[k] is not None:
            out[k] = tuple_ify(out[k])
    return out
