"""Strategy stream of C08 (implementation-only oracle; the Lean Dispatch model has no strategies).

The strategies of `cattrs.strategies` are REGISTRATION OPERATIONS made of look-ups and registrations: `include_subclasses`
asks the converter for the own-fields hooks of every class of a tree (while it forces the other classes of the tree into the
hook generator's working set, so that fields typed as tree classes dispatch at run time) and registers what it got, for
good, as predicate hooks; `configure_tagged_union` registers union hooks that call back into the converter.  C08 says a
registration's effect may not depend on what the converter was USED for before: a converter that structured / unstructured
/ handed out hooks for the classes of the tree (or for classes and collections holding them) and THEN had the strategy
applied must behave like a fresh converter on which only the strategy (and the other registrations, in order) was applied.

Trees: fields typed DIRECTLY as another class of the tree that has subclasses (the own-fields hook of the holder must not
be taken from a cache filled before the strategy ran); holders outside the tree with direct / list / Optional / dict fields.
Kept clear of two regions where the UNCHANGED tree is not transparent (finding candidates, generated only when recorded in
known_findings.json): tree classes whose fields are Optional / collections of tree classes under a union strategy
(`c08-include-subclasses-stale-collection-hooks`), and cyclic class graphs (`c08-cyclic-graph-first-use-order`).
"""
import sys
from functools import partial
from typing import Optional

import attrs
from attrs import define

from harness import dispatch_common as dc  # noqa: F401  (puts CATTRS_SRC on sys.path first)
from harness import framework
from cattrs import BaseConverter, Converter  # noqa: E402
from cattrs.gen import override  # noqa: E402
from cattrs.strategies import configure_tagged_union, include_subclasses  # noqa: E402


# ---- tree S: the holder of a tree-typed field is itself a class of the tree
@define
class SV:
    w: int


@define
class STr(SV):
    l: int  # noqa: E741


@define
class SRe(STr):
    t: int


@define
class STk(SV):
    tr: STr          # typed directly as a tree class that has subclasses
    n: int = 0


@define
class SGar:          # outside the tree
    v: SV
    vs: list[SV]
    o: Optional[STr] = None
    m: dict[str, STr] = attrs.Factory(dict)


# ---- tree P: deeper; two tree-typed fields (one of a class with subclasses, one of a leaf)
@define
class PB:
    k: int


@define
class PM(PB):
    m: int


@define
class PL(PM):
    z: int


@define
class PL2(PM):
    q: int


@define
class PX(PB):
    mid: PM
    leaf: PL


# ---- tree Q: the recorded region (collection / Optional fields of tree classes inside a tree class)
@define
class QV:
    w: int


@define
class QTr(QV):
    l: int  # noqa: E741


@define
class QRe(QTr):
    t: int


@define
class QTk(QV):
    trs: list[QTr]
    o: Optional[QTr] = None


# ---- a cyclic class graph (recorded region)
@define
class CyDept:
    head: Optional["CyPerson"] = None


@define
class CyPerson:
    dept: Optional[CyDept] = None


@define
class CyMgr(CyPerson):
    level: int = 1


attrs.resolve_types(CyDept, globals(), locals())

F_COLL = "c08-include-subclasses-stale-collection-hooks"
F_CYCLE = "c08-cyclic-graph-first-use-order"

_re, _pl, _pl2 = SRe(4, 12, -18), PL(1, 2, 3), PL2(4, 5, 6)
_tk = STk(6, _re, 2)
_qre = QRe(4, 12, -18)
# probe name -> (tree, type, sample)
PROBES = {
    "Tk": ("S", STk, _tk), "Tk-as-V": ("S", SV, _tk), "Tr": ("S", STr, _re), "Re": ("S", SRe, _re), "V": ("S", SV, SV(1)),
    "Gar": ("S", SGar, SGar(_tk, [_re, SV(1), _tk], _re, {"k": _re})),
    "list[V]": ("S", list[SV], [_tk, _re]), "Optional[Tr]": ("S", Optional[STr], _re), "dict[str,Tr]": ("S", dict[str, STr], {"k": _re}),
    "PX": ("P", PX, PX(1, _pl2, _pl)), "PX-as-PB": ("P", PB, PX(1, _pl, _pl)), "PM": ("P", PM, _pl2), "PL": ("P", PL, _pl),
    "list[PB]": ("P", list[PB], [PX(1, _pl2, _pl), _pl, PB(9)]), "tuple[PM,int]": ("P", tuple[PM, int], (_pl2, 1)),
    "QTk": ("Q", QTk, QTk(6, [_qre], _qre)), "QTk-as-QV": ("Q", QV, QTk(6, [_qre], _qre)), "list[QTr]": ("Q", list[QTr], [_qre]),
    "CyDept": ("C", CyDept, CyDept(CyMgr(None, 3))), "CyPerson": ("C", CyPerson, CyMgr(CyDept(CyMgr(None, 2)), 3)),
}
ROOTS = {"S": [SV, STr], "P": [PB, PM], "Q": [QV]}
KINDS = ("plain", "tagged:kind", "tagged:_type", "tagged:kind+overrides", "plain+overrides")


def tagged(v, tag):
    """the payload of an instance as a converter with the tagged-union strategy writes it (tag = None: untagged)"""
    if attrs.has(type(v)):
        d = {a.name: tagged(getattr(v, a.name), tag) for a in attrs.fields(type(v))}
        if tag:
            d[tag] = type(v).__name__
        return d
    if isinstance(v, (list, tuple)):
        return [tagged(x, tag) for x in v]
    if isinstance(v, dict):
        return {k: tagged(x, tag) for k, x in v.items()}
    return v


PAY_TAGS = (None, "kind", "_type")


def apply_op(c, op):
    if op[0] == "regint":
        if op[1] == dc.UN:
            c.register_unstructure_hook(int, lambda v, tag=op[2]: v + 1000 * tag)
        else:
            c.register_structure_hook(int, lambda v, _, tag=op[2]: int(v) + 1000 * tag)
        return
    _, tree, ri, kind = op
    root = ROOTS[tree][ri]
    kw = {}
    if kind.startswith("tagged"):
        tn = kind.split(":")[1].split("+")[0]
        kw["union_strategy"] = configure_tagged_union if tn == "_type" else partial(configure_tagged_union, tag_name=tn)
    if kind.endswith("+overrides"):
        kw["overrides"] = {attrs.fields(root)[0].name: override(omit_if_default=False)}
    include_subclasses(root, c, **kw)


def outcome(fn):
    try:
        return ("ok", repr(fn()))
    except Exception as e:  # noqa: BLE001
        return ("err", type(e).__name__)


def use(c, d, how, name, tag=None):
    _, t, sample = PROBES[name]
    payload = tagged(sample, tag)
    if how == "call":
        return outcome((lambda: c.unstructure(sample, unstructure_as=t)) if d == dc.UN else (lambda: c.structure(payload, t)))
    g = c.get_unstructure_hook if d == dc.UN else c.get_structure_hook
    if how == "get":
        return outcome(lambda: g(t) and None)
    if how == "get-uncached":
        return outcome(lambda: g(t, cache_result=False) and None)
    h = outcome(lambda: g(t))
    if h[0] == "err":
        return h
    hook = g(t)
    return outcome((lambda: hook(sample)) if d == dc.UN else (lambda: hook(payload, t)))


def names_of(trees):
    return [n for n in sorted(PROBES) if PROBES[n][0] in trees]


def gen_history(rng, trees, n_ops):
    """ops: ["strat", tree, root index, kind] (at most one per tree) | ["regint", dir, tag] |
    ["warm", dir, how, probe name, payload tag]; always at least one warm-up before the first strategy"""
    names = names_of(trees)
    todo = [t for t in trees if t in ROOTS]
    rng.shuffle(todo)
    h = []
    for i in range(n_ops):
        r = rng.random()
        if todo and h and r < 0.25:
            t = todo.pop()
            kind = rng.choice(KINDS)
            if t == "Q":
                kind = rng.choice(["tagged:kind", "tagged:_type"])
            h.append(["strat", t, 0 if rng.random() < 0.7 else rng.randrange(len(ROOTS[t])), kind])
        elif r < 0.33:
            h.append(["regint", rng.choice(dc.DIRS), i + 1])
        else:
            h.append(["warm", rng.choice(dc.DIRS), rng.choice(["call", "call", "get", "get-uncached", "get-apply"]), rng.choice(names),
                      rng.choice(PAY_TAGS)])
    for t in todo[:1]:
        h.append(["strat", t, 0, rng.choice(KINDS[1:3] if t == "Q" else KINDS)])
    return h


def make(cfg):
    return (Converter if cfg["klass"] == "Converter" else BaseConverter)(detailed_validation=cfg["detailed"])


def run_one(cfg, history, upto, warm, reverse, names):
    c = make(cfg)
    for op in history[:upto]:
        if op[0] == "warm":
            if warm:
                use(c, op[1], op[2], op[3], op[4])
        else:
            apply_op(c, op)
    out = {}
    ps = [(d, nm, tag) for nm in names for d in dc.DIRS for tag in (PAY_TAGS if d == dc.ST else (None,))]
    for d, nm, tag in (reversed(ps) if reverse else ps):
        out[(d, nm, tag)] = use(c, d, "call", nm, tag)
    return out


def describe(op):
    if op[0] == "strat":
        return f"include_subclasses({ROOTS[op[1]][op[2]].__name__}, {op[3]})"
    if op[0] == "regint":
        return f"{op[1]}:hook(int)#{op[2]}"
    return f"{op[1]}:{op[2]}({op[3]}{'' if op[1] == dc.UN else ', tag=' + str(op[4])})"


def cfg_name(cfg):
    return f"{cfg['klass']}{'' if cfg['detailed'] else '/fast'}"


def check_one(cfg, history, trees):
    """-> [(what, cut, probe)] failures of the fresh-replay oracle at the cut points (after every registration / strategy
    that follows a warm-up, and at the end; the last three)"""
    names = names_of(trees)
    cuts = sorted({i + 1 for i, op in enumerate(history) if op[0] != "warm" and any(o[0] == "warm" for o in history[:i])}
                  | {len(history)})
    bad = []
    for cut in cuts[-3:]:
        warmed = dc.in_thread(run_one, cfg, history, cut, True, False, names)
        fresh = dc.in_thread(run_one, cfg, history, cut, False, True, names)
        for k in warmed:
            if warmed[k] != fresh[k]:
                bad.append((f"{'unstructuring' if k[0] == dc.UN else f'structuring (payload tag {k[2]})'} {k[1]}: the used converter "
                            f"gives {warmed[k]!r}, a fresh one with the same registrations / strategies gives {fresh[k]!r}", cut, k[1]))
                break
    return bad


@framework.finding(F_COLL)
def _f_coll(case):
    """include_subclasses with a union strategy, applied after a cache-filling call, on a tree one of whose classes has an
    Optional / collection field of a tree class (tree Q only): the stale collection hook is bound into the registered hook"""
    if case.get("stream") != "strategies" or case.get("trees") != ["Q"] or PROBES.get(case.get("probe"), ("",))[0] != "Q":
        return False
    h = case["history"]
    return any(o[0] == "strat" and o[1] == "Q" and o[3].startswith("tagged") and any(p[0] == "warm" for p in h[:i])
               for i, o in enumerate(h))


@framework.finding(F_CYCLE)
def _f_cycle(case):
    """cyclic class graph (tree C only, no strategy): which link of the cycle is late-bound -- and so dispatched by run-time
    class -- depends on which class was used first"""
    # (no `warm` step is needed: the used converter is probed at every cut point of the history, and each probe is a use)
    return case.get("stream") == "strategies" and case.get("trees") == ["C"] and PROBES.get(case.get("probe"), ("",))[0] == "C"


CFGS = [{"klass": "Converter", "detailed": True}, {"klass": "Converter", "detailed": False}, {"klass": "BaseConverter", "detailed": True}]


def sweep_cases():
    """every tree x root x kind of strategy x converter class: everything of the tree is used (one direction, or both; by
    calls or get_*_hook), then the strategy is applied"""
    n = 0
    for tree in ("S", "P"):
        for ri in range(len(ROOTS[tree])):
            for kind in KINDS:
                for cfg in CFGS:
                    if cfg["klass"] == "BaseConverter" and kind != "plain":
                        continue   # documented: the strategy needs a Converter (plain works by accident of late binding)
                    n += 1
                    for dirs in (((dc.UN,), (dc.ST,))[n % 2], dc.DIRS):
                        n += 1
                        names = names_of([tree])
                        h = [["warm", d, ("call", "get", "get-apply", "get-uncached")[(n + i) % 4], nm, PAY_TAGS[(n + i) % 3]]
                             for d in dirs for i, nm in enumerate(names[n % 2:] + names[:n % 2])]
                        h.append(["strat", tree, ri, kind])
                        yield cfg, h, [tree]


def strategy_stream(chk, n_cases):
    rng = chk.rng
    known = {f["signature"] for f in chk.known}
    cases = list(sweep_cases())
    for i in range(n_cases):
        cfg = rng.choice(CFGS[:2])
        trees = ["S", "P"]
        if F_COLL in known and i % 10 == 3:
            trees = ["Q"]
        elif F_CYCLE in known and i % 10 == 7:
            trees = ["C"]
        cases.append((cfg, gen_history(rng, trees, rng.randint(3, 9)), trees))
    for cfg, history, trees in cases:
        warm_then_strat = any(o[0] == "strat" and any(p[0] == "warm" for p in history[:i]) for i, o in enumerate(history))
        chk.count(("strategies", cfg_name(cfg), repr(history)), nontrivial=warm_then_strat,
                  sample={"stream": "strategies", "cfg": cfg_name(cfg), "history": [describe(o) for o in history][:10]})
        chk.note("strategy-stream:" + cfg_name(cfg), "strategy-stream:trees:" + "+".join(trees))
        for o in history:
            if o[0] == "strat":
                chk.note("strategy-stream:include_subclasses:" + o[3])
        for what, cut, probe in check_one(cfg, history, trees)[:2]:
            chk.violation(f"C08 oracle (strategy stream): {what} [{cfg_name(cfg)} after {cut} ops of: "
                          f"{' ; '.join(describe(o) for o in history)}]",
                          {"stream": "strategies", "cfg": cfg, "history": history, "trees": trees, "probe": probe})
        dc.prune_linecache()


def strategy_replay(case):
    history = [list(o) for o in case["history"]]
    print("strategy stream:", cfg_name(case["cfg"]))
    for o in history:
        print("  ", describe(o))
    bad = check_one(case["cfg"], history, case["trees"])
    for what, cut, _ in bad:
        print(f"VIOLATED after {cut} ops: {what}")
    if not bad:
        print("oracle holds")
    return 1 if bad else 0


if __name__ == "__main__":
    import random
    import time
    r = random.Random(int(sys.argv[1]) if len(sys.argv) > 1 else 0)
    trees = sys.argv[3].split(",") if len(sys.argv) > 3 else ["S", "P"]
    t0 = time.time()
    n = 0
    cases = list(sweep_cases())
    for _ in range(int(sys.argv[2]) if len(sys.argv) > 2 else 100):
        cases.append((r.choice(CFGS[:2]), gen_history(r, trees, r.randint(3, 9)), trees))
    for cfg, h, tr in cases:
        for what, cut, _ in check_one(cfg, h, tr):
            n += 1
            print(cfg_name(cfg), what, "|", cut, " ; ".join(describe(o) for o in h))
    print("cases:", len(cases), "failures:", n, "time: %.1fs" % (time.time() - t0))
