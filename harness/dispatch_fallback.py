"""Fallback-factory stream of C08 (implementation-only oracle; outside the Lean Dispatch model, whose fallback hooks are
constants).

A converter's `unstructure_fallback_factory` / `structure_fallback_factory` are construction options, and nothing says the
hooks such a factory makes are constants: the documented ways of using them build hooks OUT OF OTHER HOOKS --

* chained converters: `Converter(unstructure_fallback_factory=parent.get_unstructure_hook,
  structure_fallback_factory=parent.get_structure_hook)`: whatever the child has no hook for is handled by the parent's
  CURRENT hook for it;
* a factory that handles a family of classes cattrs does not know (here: plain classes with annotations) by composing
  `conv.get_(un)structure_hook(field type)` of the annotations, looked up when the hook is made (early binding, the
  ordinary way of writing a hook factory) -- cached or uncached -- or when the hook is called (late binding).

Such fallback hooks depend on the registrations like every generated hook does, so C08 applies to them as it stands: a
converter that was used (structure / unstructure / get_*_hook on the plain classes themselves, on collections of them, on
attrs classes with such fields) and then received registrations for the types those hooks are composed of must answer
every probe like a FRESH converter (same construction, registrations only; probing in reverse order; a thread of its own).

Chained converters: a registration on the PARENT is no part of the child's history, and the child's caches are not touched
by it; what the statement covers is the child's own registrations, which make the child look everything up again.  A child
is therefore judged at a cut only when it is *in sync*: no parent registration lies between one of its earlier uses and the
cut without a later registration on the child.  The parent is always judged.
"""
import enum
import sys
from typing import Optional

import attrs

from harness import dispatch_common as dc  # noqa: F401  (puts CATTRS_SRC on sys.path first)
from cattrs import BaseConverter, Converter  # noqa: E402
from cattrs.errors import StructureHandlerNotFoundError  # noqa: E402
from cattrs.fns import identity  # noqa: E402


class _Plain:
    """plain (non-attrs, non-dataclass) classes with annotations: cattrs has no hook for them"""

    def __init__(self, **kw):
        for k in self.__annotations__:
            setattr(self, k, kw[k])

    def __repr__(self):
        return f"{type(self).__name__}({', '.join(f'{k}={getattr(self, k)!r}' for k in self.__annotations__)})"

    def __eq__(self, o):
        return type(o) is type(self) and all(getattr(self, k) == getattr(o, k) for k in self.__annotations__)

    __hash__ = None


class FbLeaf:
    """no annotations: not handled by the composing factory either (identity / no structure hook until registered)"""

    def __init__(self, v):
        self.v = v

    def __repr__(self):
        return f"FbLeaf({self.v!r})"


class FbE(enum.Enum):
    M = 1


@attrs.define
class FbA:
    x: int


class FbMoney(_Plain):
    amount: FbLeaf
    cents: int


class FbOuter(_Plain):
    """a plain class of plain / attrs / collection fields: fallback hooks composed of fallback hooks"""
    m: FbMoney
    a: FbA
    tags: list[int]
    e: FbE


@attrs.define
class FbHold:
    m: FbMoney
    n: int


@attrs.define
class FbHoldL:
    ms: list[FbMoney]
    o: Optional[FbMoney] = None


_LEAF, _A = FbLeaf("1.50"), FbA(5)
_MONEY = FbMoney(amount=_LEAF, cents=7)
_PM = {"amount": "1.50", "cents": 7}
_OUTER = FbOuter(m=_MONEY, a=_A, tags=[1, 2], e=FbE.M)
_PO = {"m": _PM, "a": {"x": 5}, "tags": [1, 2], "e": 1}
# probe name -> (type, unstructure sample, structure payload)
PROBES = {
    "Money": (FbMoney, _MONEY, _PM),
    "Outer": (FbOuter, _OUTER, _PO),
    "Hold": (FbHold, FbHold(_MONEY, 3), {"m": _PM, "n": 3}),
    "HoldL": (FbHoldL, FbHoldL([_MONEY], _MONEY), {"ms": [_PM], "o": _PM}),
    "list[Money]": (list[FbMoney], [_MONEY], [_PM]),
    "dict[str,Money]": (dict[str, FbMoney], {"k": _MONEY}, {"k": _PM}),
    "Optional[Money]": (Optional[FbMoney], _MONEY, _PM),
    "tuple[Money,int]": (tuple[FbMoney, int], (_MONEY, 1), [_PM, 1]),
    "list[Outer]": (list[FbOuter], [_OUTER], [_PO]),
    "Leaf": (FbLeaf, _LEAF, "1.50"),
    "A": (FbA, _A, {"x": 5}),
    "int": (int, 7, 7),
}
TARGETS = {"int": int, "Leaf": FbLeaf, "A": FbA, "E": FbE, "Money": FbMoney, "str": str}
VIA = ("hook", "func", "factory")
MODES = ("self-early", "self-early-uncached", "self-late", "chained", "chained-composing-parent")


def composing_factory(box, d, mode):
    """fallback factory for converter `box[0]`: plain annotated classes are handled by composing the converter's hooks for
    the annotations; everything else as cattrs' default factories do (identity / no structure hook)"""
    def get(t, early):
        c = box[0]
        g = c.get_unstructure_hook if d == dc.UN else c.get_structure_hook
        return g(t) if (mode != "self-early-uncached" or not early) else g(t, cache_result=False)

    def factory(t):
        if not (isinstance(t, type) and issubclass(t, _Plain)):
            if d == dc.UN:
                return identity
            raise StructureHandlerNotFoundError(f"no hook for {t!r}", t)
        ann = dict(t.__annotations__)
        if mode == "self-late":
            if d == dc.UN:
                return lambda v: {k: get(ft, False)(getattr(v, k)) for k, ft in ann.items()}
            return lambda v, _: t(**{k: get(ft, False)(v[k], ft) for k, ft in ann.items()})
        hooks = {k: get(ft, True) for k, ft in ann.items()}   # early binding: looked up when the hook is made
        if d == dc.UN:
            return lambda v: {k: hooks[k](getattr(v, k)) for k in ann}
        return lambda v, _: t(**{k: hooks[k](v[k], ann[k]) for k in ann})
    return factory


def build(cfg):
    """cfg = {"mode", "klass": [k0, k1], "detailed"} -> [converter 0 (self / parent), converter 1 (child) if chained]"""
    def cls(k):
        return Converter if k == "Converter" else BaseConverter
    mode, det = cfg["mode"], cfg["detailed"]
    if not mode.startswith("chained"):
        box = []
        c = cls(cfg["klass"][0])(detailed_validation=det, unstructure_fallback_factory=composing_factory(box, dc.UN, mode),
                                 structure_fallback_factory=composing_factory(box, dc.ST, mode))
        box.append(c)
        return [c]
    if mode == "chained-composing-parent":
        box = []
        parent = cls(cfg["klass"][0])(detailed_validation=det, unstructure_fallback_factory=composing_factory(box, dc.UN, "self-early"),
                                      structure_fallback_factory=composing_factory(box, dc.ST, "self-early"))
        box.append(parent)
    else:
        parent = cls(cfg["klass"][0])(detailed_validation=det)
    child = cls(cfg["klass"][1])(detailed_validation=det, unstructure_fallback_factory=parent.get_unstructure_hook,
                                 structure_fallback_factory=parent.get_structure_hook)
    return [parent, child]


def apply_reg(c, op):
    _, _j, d, via, target, tag = op
    t = TARGETS[target]
    if d == dc.UN:
        def hook(v, tag=tag):
            return f"u{tag}<{v!r}>"
    else:
        def hook(v, _, tag=tag):
            return ("s", tag, repr(v))
    pred = (lambda x, t=t: x is t)
    if via == "hook":
        (c.register_unstructure_hook if d == dc.UN else c.register_structure_hook)(t, hook)
    elif via == "func":
        (c.register_unstructure_hook_func if d == dc.UN else c.register_structure_hook_func)(pred, hook)
    else:
        (c.register_unstructure_hook_factory if d == dc.UN else c.register_structure_hook_factory)(pred, lambda _t: hook)


def outcome(fn):
    try:
        return ("ok", repr(fn()))
    except Exception as e:  # noqa: BLE001
        return ("err", type(e).__name__)


def use(c, d, how, name):
    t, sample, payload = PROBES[name]
    if how == "call":
        return outcome((lambda: c.unstructure(sample, unstructure_as=t)) if d == dc.UN else (lambda: c.structure(payload, t)))
    g = c.get_unstructure_hook if d == dc.UN else c.get_structure_hook
    if how == "get":
        return outcome(lambda: g(t) and None)
    if how == "get-uncached":
        return outcome(lambda: g(t, cache_result=False) and None)
    h = outcome(lambda: g(t))   # "get-apply": obtain the hook, then call it
    if h[0] == "err":
        return h
    hook = g(t)
    return outcome((lambda: hook(sample)) if d == dc.UN else (lambda: hook(payload, t)))


def gen_history(rng, cfg, n_ops):
    """ops: ["reg", conv, dir, via, target, tag] | ["warm", conv, dir, how, probe name]"""
    n_conv = 2 if cfg["mode"].startswith("chained") else 1
    h = []
    for i in range(n_ops):
        j = rng.randrange(n_conv)
        d = rng.choice(dc.DIRS)
        if rng.random() < 0.5:
            h.append(["warm", j, d, rng.choice(["call", "call", "get", "get-uncached", "get-apply"]), rng.choice(sorted(PROBES))])
        else:
            h.append(["reg", j, d, rng.choice(VIA), rng.choice(["int", "int", "Leaf", "Leaf", "A", "E", "Money", "str"]), i + 1])
    return h


def in_sync(history, cut, d):
    """may direction `d` of the child (converter 1) be judged after history[:cut]?  (see the module docstring; the two
    directions have separate dispatchers: a registration clears the caches of its own direction only)"""
    used = False       # the child was used (in this direction) since its last registration in this direction
    stale = False      # ... and the parent was registered on (in this direction) afterwards
    for op in history[:cut]:
        if op[2] != d:
            continue
        if op[0] == "warm" and op[1] == 1:
            used = True
        elif op[0] == "reg" and op[1] == 1:
            used = stale = False
        elif op[0] == "reg" and op[1] == 0 and used:
            stale = True
    return not stale


def run_one(cfg, history, upto, warm, reverse):
    convs = build(cfg)
    for op in history[:upto]:
        if op[0] == "warm":
            if warm:
                use(convs[op[1]], op[2], op[3], op[4])
        else:
            apply_reg(convs[op[1]], op)
    out = {}
    ps = [(j, d, nm) for j in range(len(convs)) for d in dc.DIRS for nm in sorted(PROBES)]
    for j, d, nm in (reversed(ps) if reverse else ps):
        out[(j, d, nm)] = use(convs[j], d, "call", nm)
    return out


def describe(op):
    if op[0] == "reg":
        return f"c{op[1]}.{op[2]}:{op[3]}({op[4]})#{op[5]}"
    return f"c{op[1]}.{op[2]}:{op[3]}({op[4]})"


def cfg_name(cfg):
    return f"{cfg['mode']}:{'+'.join(cfg['klass'])}{'' if cfg['detailed'] else '/fast'}"


def check_one(cfg, history):
    """-> [(what, cut)] failures of the fresh-replay oracle at the cut points (after every registration that follows a
    warm-up, and at the end; the last three)"""
    cuts = sorted({i + 1 for i, op in enumerate(history) if op[0] == "reg" and any(o[0] == "warm" for o in history[:i])}
                  | {len(history)})
    bad = []
    for cut in cuts[-3:]:
        warmed = dc.in_thread(run_one, cfg, history, cut, True, False)
        fresh = dc.in_thread(run_one, cfg, history, cut, False, True)
        sync = {d: in_sync(history, cut, d) for d in dc.DIRS}
        for k in warmed:
            if k[0] == 1 and not sync[k[1]]:
                continue
            if warmed[k] != fresh[k]:
                bad.append((f"{'unstructuring' if k[1] == dc.UN else 'structuring'} {k[2]} on c{k[0]}: the used converter gives "
                            f"{warmed[k]!r}, a fresh one with the same construction and registrations gives {fresh[k]!r}", cut))
                break
    return bad


def gen_cfg(rng):
    return {"mode": rng.choice(MODES), "klass": [rng.choice(["Converter", "BaseConverter"]) for _ in range(2)],
            "detailed": rng.random() < 0.5}


def sweep_cases():
    """systematic part: every mode x converter class x direction x registration path: use everything, register a type the
    fallback hooks are composed of (on the converter itself; chained: on the parent, then anything on the child), probe"""
    n = 0
    for mode in MODES:
        for klass in ("Converter", "BaseConverter"):
            for d in dc.DIRS:
                for target in ("int", "Leaf", "A"):
                    n += 1
                    cfg = {"mode": mode, "klass": [klass, ("Converter", "BaseConverter")[n % 2]], "detailed": bool(n % 3)}
                    chained = mode.startswith("chained")
                    h = [["warm", 1 if chained else 0, d, ("call", "get", "get-apply", "get-uncached")[(n + i) % 4], nm]
                         for i, nm in enumerate(sorted(PROBES))]
                    h.append(["reg", 0, d, VIA[n % 3], target, 1])
                    if chained:   # same direction: the two directions have separate dispatchers
                        h.append(["reg", 1, d, VIA[(n + 1) % 3], "str", 2])
                    yield cfg, h


def fallback_stream(chk, n_cases):
    rng = chk.rng
    cases = list(sweep_cases())
    for _ in range(n_cases):
        cfg = gen_cfg(rng)
        cases.append((cfg, gen_history(rng, cfg, rng.randint(2, 9))))
    for cfg, history in cases:
        n_warm = sum(1 for o in history if o[0] == "warm")
        n_reg = sum(1 for o in history if o[0] == "reg")
        chk.count(("fallback", cfg_name(cfg), repr(history)), nontrivial=n_warm > 0 and n_reg > 0,
                  sample={"stream": "fallback", "cfg": cfg_name(cfg), "history": [describe(o) for o in history][:10]})
        chk.note("fallback-stream:" + cfg["mode"], "fallback-stream:" + "+".join(cfg["klass"][:2 if cfg["mode"].startswith("chained") else 1]))
        if any(o[0] == "reg" and o[4] != "Money" and any(p[0] == "warm" and p[2] == o[2] for p in history[:i]) for i, o in enumerate(history)):
            chk.note("fallback-stream:registers-a-component-type-after-use")
        if cfg["mode"].startswith("chained") and not all(in_sync(history, len(history), d) for d in dc.DIRS):
            chk.note("fallback-stream:child-not-judged-at-the-end(parent registered after its last use)")
        for what, cut in check_one(cfg, history)[:2]:
            chk.violation(f"C08 oracle (fallback-factory stream): {what} [{cfg_name(cfg)} after {cut} ops of: "
                          f"{' ; '.join(describe(o) for o in history)}]",
                          {"stream": "fallback", "cfg": cfg, "history": history})
        dc.prune_linecache()


def fallback_replay(case):
    history = [list(o) for o in case["history"]]
    print("fallback-factory stream:", cfg_name(case["cfg"]))
    for o in history:
        print("  ", describe(o))
    bad = check_one(case["cfg"], history)
    for what, cut in bad:
        print(f"VIOLATED after {cut} ops: {what}")
    if not bad:
        print("oracle holds")
    return 1 if bad else 0


if __name__ == "__main__":
    import random
    import time
    r = random.Random(int(sys.argv[1]) if len(sys.argv) > 1 else 0)
    t0 = time.time()
    n = 0
    cases = list(sweep_cases())
    for _ in range(int(sys.argv[2]) if len(sys.argv) > 2 else 200):
        cfg = gen_cfg(r)
        cases.append((cfg, gen_history(r, cfg, r.randint(2, 9))))
    for cfg, h in cases:
        for what, cut in check_one(cfg, h):
            n += 1
            print(cfg_name(cfg), what, "|", cut, " ; ".join(describe(o) for o in h))
    print("cases:", len(cases), "failures:", n, "time: %.1fs" % (time.time() - t0))
