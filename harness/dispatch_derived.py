"""Derived-state stream of C08 (implementation-only oracle; outside the Lean Dispatch model).

Some hooks are computed from OTHER hooks' attributes, not only from the hooks themselves: the default structure hook of
`Union[A, B]` (attrs classes) asks the converter for the structure hooks of A and B and reads their `overrides`
(`create_default_dis_func(..., overrides="from_converter")`) to learn under which KEYS the discriminating fields arrive.
So registering, for a member class, a hook made by `make_dict_structure_fn(M, conv, x=override(rename="ex"))` -- through
`register_structure_hook_factory` (converter-taking or closing over the converter), `register_structure_hook_func` or
`register_structure_hook` -- changes how every union containing M (top level, Optional, as a field, inside a list / dict)
is told apart.  C08 says this must not depend on whether those unions were used before: a warmed converter and a fresh
one that received only the registrations answer every probe identically (the fresh one probes in reverse order).
"""
import sys
from typing import Optional, Union

import attrs

from harness import dispatch_common as dc  # noqa: F401  (puts CATTRS_SRC on sys.path first)
from cattrs import BaseConverter, Converter  # noqa: E402
from cattrs.gen import make_dict_structure_fn, override  # noqa: E402


@attrs.define
class DvA:
    x: int


@attrs.define
class DvD:
    z: int


@attrs.define
class DvB:
    x: int
    y: int


@attrs.define
class DvHold:
    item: Union[DvA, DvD]


@attrs.define
class DvHold2:
    item: Optional[Union[DvA, DvB]] = None


MEMBERS = {"A": DvA, "D": DvD, "B": DvB}
FIELDS = {"A": ["x"], "D": ["z"], "B": ["x", "y"]}
WIRE = {"x": ["ex", "x2"], "z": ["zed"], "y": ["why"]}
UAD, UAB, UADB = Union[DvA, DvD], Union[DvA, DvB], Union[DvA, DvD, DvB]
TARGETS = {
    "Union[A,D]": (UAD, lambda p: p), "Union[A,B]": (UAB, lambda p: p), "Union[A,D,B]": (UADB, lambda p: p),
    "Optional[Union[A,D]]": (Optional[UAD], lambda p: p),
    "Hold(item: Union[A,D])": (DvHold, lambda p: {"item": p}),
    "Hold2(item: Optional[Union[A,B]])": (DvHold2, lambda p: {"item": p}),
    "list[Union[A,D]]": (list[UAD], lambda p: [p, p]),
    "dict[str,Union[A,B]]": (dict[str, UAB], lambda p: {"k": p}),
}
KEYSETS = [("x",), ("ex",), ("x2",), ("z",), ("zed",), ("x", "y"), ("x", "why"), ("ex", "y"), ("ex", "why"), ("x2", "why"),
           ("x", "z"), ()]
PAYLOADS = [{k: 1 + i for i, k in enumerate(ks)} for ks in KEYSETS]
VIA = ("factory-ext", "factory-closure", "func", "hook")


def gen_history(rng, n_ops):
    """ops: ("reg", via, member, {field: wire name}) | ("regint", tag) | ("warm", how, target name, payload index)"""
    h = []
    for _ in range(n_ops):
        r = rng.random()
        if r < 0.45:
            m = rng.choice(sorted(MEMBERS))
            ren = {f: rng.choice(WIRE[f]) for f in FIELDS[m] if rng.random() < 0.7}
            h.append(["reg", rng.choice(VIA), m, ren])
        elif r < 0.55:
            h.append(["regint", len(h)])
        else:
            h.append(["warm", rng.choice(["structure", "get", "get-uncached"]), rng.choice(sorted(TARGETS)),
                      rng.randrange(len(PAYLOADS))])
    return h


def apply_reg(c, op):
    if op[0] == "regint":
        c.register_structure_hook(int, lambda v, _, tag=op[1]: int(v) + 1000 * tag)
        return
    _, via, m, ren = op
    cl = MEMBERS[m]
    ovs = {f: override(rename=w) for f, w in ren.items()}
    if via == "factory-ext":
        c.register_structure_hook_factory(lambda t: t is cl, lambda t, conv: make_dict_structure_fn(t, conv, **ovs))
    elif via == "factory-closure":
        c.register_structure_hook_factory(lambda t: t is cl, lambda t: make_dict_structure_fn(t, c, **ovs))
    elif via == "func":
        c.register_structure_hook_func(lambda t: t is cl, make_dict_structure_fn(cl, c, **ovs))
    else:
        c.register_structure_hook(cl, make_dict_structure_fn(cl, c, **ovs))


def outcome(fn):
    try:
        return ("ok", repr(fn()))
    except Exception as e:  # noqa: BLE001
        return ("err", type(e).__name__)


def probes():
    return [(tn, pi) for tn in sorted(TARGETS) for pi in range(len(PAYLOADS))]


def run_one(klass, detailed, history, upto, warm, reverse):
    """results of every probe on a converter that executed history[:upto] (registrations only unless `warm`)"""
    c = (Converter if klass == "Converter" else BaseConverter)(detailed_validation=detailed)
    before = dc.options_snapshot(c)
    for op in history[:upto]:
        if op[0] == "warm":
            if warm:
                t, wrap = TARGETS[op[2]]
                if op[1] == "structure":
                    outcome(lambda: c.structure(wrap(PAYLOADS[op[3]]), t))
                elif op[1] == "get":
                    outcome(lambda: c.get_structure_hook(t))
                else:
                    outcome(lambda: c.get_structure_hook(t, cache_result=False))
        else:
            apply_reg(c, op)
    out = {}
    ps = probes()
    for tn, pi in (reversed(ps) if reverse else ps):
        t, wrap = TARGETS[tn]
        out[(tn, pi)] = outcome(lambda: c.structure(wrap(PAYLOADS[pi]), t))
    return out, dc.options_diff(before, c)


def describe(op):
    if op[0] == "reg":
        return f"{op[1]}({op[2]}, rename={op[3]})"
    if op[0] == "regint":
        return f"hook(int)#{op[1]}"
    return f"{op[1]}({op[2]}, {PAYLOADS[op[3]]})"


def check_one(klass, detailed, history):
    """-> [(what, cut)] failures of the fresh-replay oracle at the cut points (after every registration that follows a
    warm-up, and at the end)"""
    cuts = sorted({i + 1 for i, op in enumerate(history) if op[0] != "warm" and any(o[0] == "warm" for o in history[:i])}
                  | {len(history)})
    bad = []
    for cut in cuts[-3:]:
        warmed, w1 = run_one(klass, detailed, history, cut, True, False)
        fresh, w2 = run_one(klass, detailed, history, cut, False, True)
        for k in warmed:
            if warmed[k] != fresh[k]:
                bad.append((f"structuring {PAYLOADS[k[1]]} as {k[0]}: warmed converter gives {warmed[k]!r}, a fresh converter "
                            f"with the same registrations gives {fresh[k]!r}", cut))
                break
        for w in w1 + w2:
            bad.append(("an option attribute was written by use: " + w, cut))
    return bad


def derived_stream(chk, n_cases):
    rng = chk.rng
    for _ in range(n_cases):
        klass = rng.choice(["Converter", "BaseConverter"])
        detailed = rng.random() < 0.5
        history = gen_history(rng, rng.randint(2, 7))
        n_warm = sum(1 for o in history if o[0] == "warm")
        n_ren = sum(1 for o in history if o[0] == "reg" and o[3])
        chk.count(("derived", klass, detailed, repr(history)), nontrivial=n_warm > 0 and n_ren > 0)
        chk.note("derived-stream:" + klass, "derived-stream:warm-then-rename" if any(
            o[0] == "reg" and o[3] and any(p[0] == "warm" for p in history[:i]) for i, o in enumerate(history)) else "derived-stream:other")
        for op in history:
            if op[0] == "reg":
                chk.note("derived-stream:via:" + op[1])
        for what, cut in check_one(klass, detailed, history)[:2]:
            chk.violation(f"C08 oracle (derived-state stream): {what} [{klass}{'' if detailed else '/fast'} after {cut} ops of: "
                          f"{' ; '.join(describe(o) for o in history)}]",
                          {"stream": "derived", "klass": klass, "detailed": detailed, "history": history})
        dc.prune_linecache()


def derived_replay(case):
    history = [list(o) for o in case["history"]]
    print("derived-state stream:", case["klass"], "detailed" if case["detailed"] else "fast")
    for o in history:
        print("  ", describe(o))
    bad = check_one(case["klass"], case["detailed"], history)
    for what, cut in bad:
        print(f"VIOLATED after {cut} ops: {what}")
    if not bad:
        print("oracle holds")
    return 1 if bad else 0


if __name__ == "__main__":
    import random
    r = random.Random(int(sys.argv[1]) if len(sys.argv) > 1 else 0)
    n = 0
    for _ in range(200):
        h = gen_history(r, r.randint(2, 7))
        for what, cut in check_one(r.choice(["Converter", "BaseConverter"]), r.random() < 0.5, h):
            n += 1
            print(what, "|", " ; ".join(describe(o) for o in h))
    print("failures:", n)
