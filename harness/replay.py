"""./check replay <file>: re-run one stored case through its property's replay function."""
import importlib, json, sys
from harness import lean
def main():
    case = json.load(open(sys.argv[1]))
    pid = case["property"]
    mod = importlib.import_module(f"harness.props.{pid.lower()}")
    print(f"replaying {pid}: {case['what']}")
    if not hasattr(mod, "replay"):
        print(json.dumps(case["case"], indent=1)); sys.exit(0)
    rc = mod.replay(case["case"])
    sys.exit(rc or 0)
if __name__ == "__main__":
    main()
