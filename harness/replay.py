"""./check replay <file>: re-run one stored case through its property's replay function."""
import importlib, json, sys
from harness import lean
def main():
    case = json.load(open(sys.argv[1]))
    pid = case["property"]
    mod = importlib.import_module(f"harness.props.{pid.lower()}")
    print(f"replaying {pid}: {case['what']}")
    if isinstance(case["case"], dict) and case["case"].get("ext"):
        # extended (implementation-only) stream: classes are created on the fly; the record holds the type, the input
        # and the observed outcome in text form, re-running the check with the same VERIF_SEED regenerates the case
        print(json.dumps(case["case"], indent=1)); sys.exit(1 if case.get("found_failing_input", True) else 0)
    if not hasattr(mod, "replay"):
        print(json.dumps(case["case"], indent=1)); sys.exit(0)
    rc = mod.replay(case["case"])
    sys.exit(rc or 0)
if __name__ == "__main__":
    main()
