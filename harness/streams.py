"""Case streams shared by the data-path properties (C01, C02, C04, C06, ...)."""
from __future__ import annotations

from harness import gen, terms
from harness.datapath import Session


def worlds(chk, drv, n_worlds, **gen_kw):
    """yield (G, Session, world) for freshly generated and realised worlds"""
    G = gen.Gen(chk.rng, **gen_kw)
    made = 0
    attempts = 0
    while made < n_worlds and attempts < n_worlds * 3:
        attempts += 1
        w = G.world()
        try:
            S = Session(drv, w)
        except Exception:
            chk.note("world-rejected-by-python")
            continue
        made += 1
        for c in w["classes"]:
            for k, v in (c.get("features") or {}).items():
                chk.note("class-feature:" + k + ("=" + str(v) if k in ("syntax", "eq") else ""))
            for f in c["fields"]:
                if f.get("inherited"):
                    continue
                for k in ("explicit_alias", "takes_self"):
                    if f.get(k):
                        chk.note("class-feature:" + k)
                if f.get("validator"):
                    chk.note("class-feature:validator:" + f["validator"] + (":post-init" if f.get("validator_in") else ":field"))
        yield G, S, w
        for k, v in S.stats.items():
            chk.hist[k] += v


def typed_values(chk, G, S, w, n_types=5, n_values=2, any_stable=True, max_depth=3):
    """yield (ty, x_abs, x_py): types and conforming values (re-read from the realised value)"""
    for _ in range(n_types):
        ty = G.type(w, chk.rng.randint(0, max_depth))
        for _ in range(n_values):
            x0 = G.value(w, ty, 3, any_stable=any_stable)
            try:
                xv, x = S.realise(x0)
                S.R.fix_factories(ty, xv)
            except Exception:
                chk.note("value-not-realisable")
                continue
            if gen.lookalike_hazard(x):
                chk.unmodelled += 1
                continue
            yield ty, x, xv


REJECTED_BY = {"mod3": [("i", 3), ("i", 0), ("s", "12")], "noz": [("s", "zz"), ("s", "z")],
               "len2": [("l", [("i", 1), ("i", 2)]), ("t", [("s", "b"), ("s", "c")])]}


def validator_payloads(chk, G, S, w, ty, base_abs):
    """valid payload of a class position with the value under a validated attribute's key replaced by a value OF THE
    DECLARED TYPE (or coercible to it) that the attribute's validator / post-init check rejects: the call must raise"""
    t = gen.strip_wraps(ty)
    if isinstance(t, str) or t[0] != "cls" or base_abs[0] != "d":
        return
    for f in w["classes"][t[1]]["fields"]:
        if not f.get("validator") or not f["init"]:
            continue
        for bad in REJECTED_BY[f["validator"]]:
            kvs = [(k, bad if k == ("s", f["name"]) else v) for k, v in base_abs[1]]
            if not any(k == ("s", f["name"]) for k, _ in kvs):
                kvs.append((("s", f["name"]), bad))
            try:
                pv, p2 = S.realise(("d", kvs))
            except Exception:
                continue
            if not gen.lookalike_hazard(p2):
                yield "validator-rejected-value", p2, pv


def payloads(chk, G, S, w, base_abs, n_mut=2, n_junk=1):
    """yield (kind, payload_abs, payload_py): the valid payload, mutations of it, junk"""
    out = [("valid", base_abs)]
    for _ in range(n_mut):
        out.append(("mutated", G.mutate(w, base_abs, chk.rng.randint(1, 2))))
    for _ in range(n_junk):
        out.append(("junk", G.junk(w, 2)))
    for kind, p in out:
        try:
            pv, p2 = S.realise(p)
        except Exception:
            chk.note("payload-not-realisable")
            continue
        if gen.lookalike_hazard(p2):
            chk.unmodelled += 1
            continue
        yield kind, p2, pv


def class_positions(w, cfg, ty, p, path=(), _depth=0):
    """type-directed walk of a payload: yield (path, class index, kind) for every position of `p` that the type makes a
    class / TypedDict position read by KEY (dict strategy) and that holds a mapping.  Paths as in `Gen._positions`."""
    if ty is None or isinstance(ty, str) or _depth > 8:
        return
    k, t = ty[0], p[0]
    if k in ("opt", "new", "ann", "final", "alias"):
        if t != "N":
            yield from class_positions(w, cfg, ty[1], p, path, _depth)
        return
    if k in ("list", "seq", "mseq", "tup*", "deque", "set", "mset", "fset"):
        if t in ("l", "t", "q", "S", "F"):
            for i, x in enumerate(p[1]):
                yield from class_positions(w, cfg, ty[1], x, path + (i,), _depth + 1)
        return
    if k == "tup":
        if t in ("l", "t", "q") and len(p[1]) == len(ty[1]):
            for i, (a, x) in enumerate(zip(ty[1], p[1])):
                yield from class_positions(w, cfg, a, x, path + (i,), _depth + 1)
        return
    if k == "nt":
        fts = [f["ty"] for f in w["classes"][ty[1]]["fields"]]
        if t in ("l", "t", "q") and len(p[1]) <= len(fts):
            for i, (a, x) in enumerate(zip(fts, p[1])):
                yield from class_positions(w, cfg, a, x, path + (i,), _depth + 1)
        return
    if k in ("dict", "map", "mmap", "odict", "ddict"):
        if t == "d":
            for i, (a, b) in enumerate(p[1]):
                yield from class_positions(w, cfg, ty[2], b, path + ((i, 1),), _depth + 1)
        return
    if k in ("cls", "td", "union"):
        if t != "d" or (k != "td" and cfg["tuple"]):
            return
        members = list(ty[1]) if k == "union" else [ty[1]]
        for ci in members:
            yield (path, ci, w["classes"][ci]["kind"])
            fds = {f["name"]: f for f in w["classes"][ci]["fields"]}
            for i, (a, b) in enumerate(p[1]):
                f = fds.get(a[1]) if a[0] == "s" else None
                if f is not None and f["ty"] is not None:
                    yield from class_positions(w, cfg, f["ty"], b, path + ((i, 1),), _depth + 1)


def deep_missing_key_payloads(chk, G, S, w, cfg, ty, base_abs, limit=6, top=True):
    """"missing parts" at EVERY depth: the valid payload with one key removed from a NESTED class / TypedDict payload (a
    class or TypedDict sitting under a TypedDict key -- required or not --, under an attribute, inside a list, a tuple, a
    mapping value, an Optional).  The hook of the enclosing position then meets an inner hook that fails the way the
    generated hooks signal a missing key (fast mode: a bare KeyError); whatever the enclosing template does with absent
    keys of its own, a PRESENT component that is invalid has to make the call raise -- in both modes alike.
    top=False leaves out the outermost position (covered by the callers' own streams)."""
    out, seen = [], set()
    poss = [(path, ci) for path, ci, _ in class_positions(w, cfg, ty, base_abs) if path or top]
    chk.rng.shuffle(poss)
    for path, ci in poss:
        sub = base_abs
        try:
            for step in path:
                sub = sub[1][step[0]][step[1]] if isinstance(step, tuple) else sub[1][step]
        except Exception:
            continue
        names = {f["name"] for f in w["classes"][ci]["fields"]}
        idx = [i for i, (a, _) in enumerate(sub[1]) if a[0] == "s" and a[1] in names]
        chk.rng.shuffle(idx)
        for i in idx[:2]:
            if (path, i) in seen or len(out) >= limit:
                continue
            seen.add((path, i))
            p = G._edit(base_abs, path, lambda x, i=i: ("d", x[1][:i] + x[1][i + 1:]))
            try:
                pv, p2 = S.realise(p)
            except Exception:
                continue
            if not gen.lookalike_hazard(p2):
                fld = next(f for f in w["classes"][ci]["fields"] if f["name"] == sub[1][i][0][1])
                req = fld.get("required", True) if w["classes"][ci]["kind"] == "td" else (fld["dflt"] is None and fld["init"])
                out.append(("nested-key-removed:" + ("required" if req else "optional"), p2, pv))
    return out
