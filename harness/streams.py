"""Case streams shared by the data-path properties (C01, C02, C04, C06, ...)."""
from __future__ import annotations

from harness import gen, terms
from harness.datapath import Session


def worlds(chk, drv, n_worlds, **gen_kw):
    """yield (G, Session, world) for freshly generated and realised worlds"""
    G = gen.Gen(chk.rng, **gen_kw)
    made = 0
    attempts = 0
    while made < n_worlds and attempts < n_worlds * 3:
        attempts += 1
        w = G.world()
        try:
            S = Session(drv, w)
        except Exception:
            chk.note("world-rejected-by-python")
            continue
        made += 1
        for c in w["classes"]:
            for k, v in (c.get("features") or {}).items():
                chk.note("class-feature:" + k + ("=" + str(v) if k in ("syntax", "eq") else ""))
            for f in c["fields"]:
                if f.get("inherited"):
                    continue
                for k in ("explicit_alias", "takes_self"):
                    if f.get(k):
                        chk.note("class-feature:" + k)
                if f.get("validator"):
                    chk.note("class-feature:validator:" + f["validator"] + (":post-init" if f.get("validator_in") else ":field"))
        yield G, S, w
        for k, v in S.stats.items():
            chk.hist[k] += v


def typed_values(chk, G, S, w, n_types=5, n_values=2, any_stable=True, max_depth=3):
    """yield (ty, x_abs, x_py): types and conforming values (re-read from the realised value)"""
    for _ in range(n_types):
        ty = G.type(w, chk.rng.randint(0, max_depth))
        for _ in range(n_values):
            x0 = G.value(w, ty, 3, any_stable=any_stable)
            try:
                xv, x = S.realise(x0)
                S.R.fix_factories(ty, xv)
            except Exception:
                chk.note("value-not-realisable")
                continue
            if gen.lookalike_hazard(x):
                chk.unmodelled += 1
                continue
            yield ty, x, xv


REJECTED_BY = {"mod3": [("i", 3), ("i", 0), ("s", "12")], "noz": [("s", "zz"), ("s", "z")],
               "len2": [("l", [("i", 1), ("i", 2)]), ("t", [("s", "b"), ("s", "c")])]}


def validator_payloads(chk, G, S, w, ty, base_abs):
    """valid payload of a class position with the value under a validated attribute's key replaced by a value OF THE
    DECLARED TYPE (or coercible to it) that the attribute's validator / post-init check rejects: the call must raise"""
    t = gen.strip_wraps(ty)
    if isinstance(t, str) or t[0] != "cls" or base_abs[0] != "d":
        return
    for f in w["classes"][t[1]]["fields"]:
        if not f.get("validator") or not f["init"]:
            continue
        for bad in REJECTED_BY[f["validator"]]:
            kvs = [(k, bad if k == ("s", f["name"]) else v) for k, v in base_abs[1]]
            if not any(k == ("s", f["name"]) for k, _ in kvs):
                kvs.append((("s", f["name"]), bad))
            try:
                pv, p2 = S.realise(("d", kvs))
            except Exception:
                continue
            if not gen.lookalike_hazard(p2):
                yield "validator-rejected-value", p2, pv


def payloads(chk, G, S, w, base_abs, n_mut=2, n_junk=1):
    """yield (kind, payload_abs, payload_py): the valid payload, mutations of it, junk"""
    out = [("valid", base_abs)]
    for _ in range(n_mut):
        out.append(("mutated", G.mutate(w, base_abs, chk.rng.randint(1, 2))))
    for _ in range(n_junk):
        out.append(("junk", G.junk(w, 2)))
    for kind, p in out:
        try:
            pv, p2 = S.realise(p)
        except Exception:
            chk.note("payload-not-realisable")
            continue
        if gen.lookalike_hazard(p2):
            chk.unmodelled += 1
            continue
        yield kind, p2, pv
