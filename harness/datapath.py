"""Run data-path operations on the real cattrs and on the Lean model, for one realised world."""
from __future__ import annotations

import linecache
import sys

from . import terms
from .realise import Realised, Unrepresentable

import os  # noqa: E402

CATTRS_SRC = os.environ.get("CATTRS_SRC", "/repo/src")  # a scratch copy when self-testing with mutants
sys.path.insert(0, CATTRS_SRC)

import cattrs  # noqa: E402
from cattrs import BaseConverter, Converter, UnstructureStrategy  # noqa: E402
from cattrs.errors import (  # noqa: E402
    AttributeValidationNote,
    ClassValidationError,
    ForbiddenExtraKeysError,
    IterableValidationError,
    IterableValidationNote,
)

assert cattrs.__file__.startswith(CATTRS_SRC), cattrs.__file__

_MISSING = object()


# ---- watchdog for calls into the implementation.  A changed cattrs can make a single structure / unstructure call take
# exponential time (e.g. a hook that retries its whole input after any exception, met by a recursive class that runs
# into RecursionError at every level): the check must finish and report, not hang.  The timeout is raised as a
# BaseException (cattrs' own `except Exception` clauses do not swallow it) and the call counts as `raised`.
import signal  # noqa: E402
import threading  # noqa: E402

CALL_TIMEOUT_S = float(os.environ.get("VERIF_CALL_TIMEOUT", "8"))


class CallTimeout(BaseException):
    pass


def _on_alarm(signum, frame):
    raise CallTimeout(f"call into cattrs exceeded {CALL_TIMEOUT_S} s")


def guarded(f):
    """run f() under the watchdog (main thread only; elsewhere unguarded)"""
    if CALL_TIMEOUT_S <= 0 or threading.current_thread() is not threading.main_thread():
        return f()
    if signal.getsignal(signal.SIGALRM) is not _on_alarm:
        signal.signal(signal.SIGALRM, _on_alarm)
    signal.setitimer(signal.ITIMER_REAL, CALL_TIMEOUT_S)
    try:
        return f()
    finally:
        signal.setitimer(signal.ITIMER_REAL, 0)

ALL_CFGS = [
    {"gen": g, "tuple": t, "detailed": d, "forbid": False}
    for g in (True, False)
    for t in (False, True)
    for d in (True, False)
]


def cfg_key(cfg):
    return (cfg["gen"], cfg["tuple"], cfg["detailed"], bool(cfg.get("forbid")))


def cfg_name(cfg):
    return ("Converter" if cfg["gen"] else "BaseConverter") + ("/tuple" if cfg["tuple"] else "/dict") + (
        "/detailed" if cfg["detailed"] else "/fast") + ("/forbid" if cfg.get("forbid") else "")


def make_converter(cfg):
    strat = UnstructureStrategy.AS_TUPLE if cfg["tuple"] else UnstructureStrategy.AS_DICT
    if cfg["gen"]:
        return Converter(unstruct_strat=strat, detailed_validation=cfg["detailed"],
                         forbid_extra_keys=bool(cfg.get("forbid")))
    return BaseConverter(unstruct_strat=strat, detailed_validation=cfg["detailed"])


def prune_linecache():
    # generate_unique_filename probes names linearly; keep the cache small in long runs
    if len(linecache.cache) > 400:
        for k in [k for k in linecache.cache if k.startswith("<cattrs generated")]:
            del linecache.cache[k]


def err_tree(R, exc):
    """Canonical shape of a structuring error (classes of ordinary leaf exceptions are not recorded)."""
    if isinstance(exc, ClassValidationError):
        out = []
        for sub in exc.exceptions:
            note = None
            for n in getattr(sub, "__notes__", []):
                if n.__class__ is AttributeValidationNote:
                    note = n
                    break
            out.append("(%s %s)" % (terms.esc(note.name) if note is not None else "-", err_tree(R, sub)))
        return "(" + " ".join(["cve"] + out) + ")"
    if isinstance(exc, IterableValidationError):
        out = []
        for sub in exc.exceptions:
            note = None
            for n in getattr(sub, "__notes__", []):
                if n.__class__ is IterableValidationNote:
                    note = n
                    break
            if note is None:
                ix = "-"
            else:
                try:
                    ix = terms.canon_sx(R.abs(note.index))
                except Unrepresentable:
                    ix = "?"
            out.append("(%s %s)" % (ix, err_tree(R, sub)))
        return "(" + " ".join(["ive"] + out) + ")"
    if isinstance(exc, ForbiddenExtraKeysError):
        try:
            ks = sorted(terms.canon_sx(R.abs(k)) for k in exc.extra_fields)
        except Unrepresentable:
            ks = ["?"]
        return "(" + " ".join(["extra"] + ks) + ")"
    return "(leaf)"


def leaf_iterated(world, cfg, ty, p) -> bool:
    """Does structuring p as ty iterate a `str` / `bytes` payload (a collection / heterogeneous-tuple / NamedTuple /
    tuple-strategy class position holding a str or bytes)?  Only used to label the histograms of the checks: the model
    covers these cases (Lean `stLF` / `stLD`), the evidence shows how many of them were compared."""
    if ty is None or isinstance(ty, str):
        return False
    k, t = ty[0], p[0]
    leaf = t in ("s", "y")

    def items():
        if t in ("l", "t", "q", "S", "F"):
            return list(p[1])
        if t == "d":
            return [a for a, _ in p[1]]
        return []

    if k in ("list", "seq", "mseq", "tup*", "deque", "set", "mset", "fset"):
        return leaf or any(leaf_iterated(world, cfg, ty[1], x) for x in items())
    if k == "tup":
        return leaf or any(leaf_iterated(world, cfg, a, x) for a, x in zip(ty[1], items()))
    if k == "nt":
        fts = [f["ty"] for f in world["classes"][ty[1]]["fields"]]
        return leaf or any(leaf_iterated(world, cfg, a, x) for a, x in zip(fts, items()))
    if k == "counter":
        return t == "d" and any(leaf_iterated(world, cfg, ty[1], a) for a, b in p[1])
    if k in ("dict", "map", "mmap", "odict", "ddict"):
        return t == "d" and any(leaf_iterated(world, cfg, ty[1], a) or leaf_iterated(world, cfg, ty[2], b) for a, b in p[1])
    if k in ("opt", "new", "ann", "final", "alias"):
        return leaf_iterated(world, cfg, ty[1], p)
    if k in ("cls", "td"):
        fds = world["classes"][ty[1]]["fields"]
        if k == "cls" and cfg["tuple"]:
            return leaf or any(leaf_iterated(world, cfg, f["ty"], x) for f, x in zip(fds, items()))
        if t != "d":
            return False
        d = {a[1]: b for a, b in p[1] if a[0] == "s"}
        return any(f["name"] in d and leaf_iterated(world, cfg, f["ty"], d[f["name"]]) for f in fds)
    if k == "union":
        return any(leaf_iterated(world, cfg, ("cls", m), p) for m in ty[1])
    return False


class Session:
    """One world, realised once, with a converter per configuration and the model loaded with it."""

    def __init__(self, drv, world):
        prune_linecache()
        self.drv = drv
        self.world = world
        self.R = Realised(world)
        self._validators = any(f.get("validator") for c in world["classes"] for f in c["fields"])
        import collections
        self.stats = collections.Counter()
        self.convs = {}
        r = drv.ask("WORLD " + terms.world_sx(world))
        if r != "ok":
            raise RuntimeError("model rejected world: " + r + " :: " + terms.world_sx(world))

    def conv(self, cfg):
        k = cfg_key(cfg)
        if k not in self.convs:
            self.convs[k] = make_converter(cfg)
        return self.convs[k]

    def realise(self, o_abs):
        """-> (python value, abstract object re-read from it).  Re-reading fixes the iteration
        order of sets (and anything else the realisation normalises) to what cattrs will see."""
        v = self.R.val(o_abs)
        return v, self.R.abs(v)

    # ---- implementation side
    def impl_un(self, cfg, ty, x_abs, conv=None, x=_MISSING):
        conv = conv or self.conv(cfg)
        if x is _MISSING:
            x = self.R.val(x_abs)
        try:
            T = self.R.ty(ty)
            u = guarded(lambda: conv.unstructure(x, unstructure_as=T))
        except CallTimeout as e:
            self.stats["call-timeout"] += 1
            return ("err", e)
        except Exception as e:  # noqa: BLE001
            return ("err", e)
        try:
            return ("ok", self.R.abs_un(u), u)
        except Unrepresentable:
            return ("unrep", u)

    def impl_st(self, cfg, ty, payload_abs, conv=None, payload=_MISSING):
        conv = conv or self.conv(cfg)
        p = self.R.val(payload_abs) if payload is _MISSING else payload
        try:
            T = self.R.ty(ty)
            v = guarded(lambda: conv.structure(p, T))
        except CallTimeout as e:
            self.stats["call-timeout"] += 1
            return ("err", e)
        except Exception as e:  # noqa: BLE001
            return ("err", e)
        try:
            return ("ok", self.R.abs(v), v)
        except Unrepresentable:
            return ("unrep", v)

    # ---- model side
    def model_un(self, cfg, ty, x_abs):
        return self.drv.ask("UN %s %s %s" % (terms.cfg_sx(cfg), terms.ty_sx(ty), terms.obj_sx(x_abs)))

    def model_st(self, cfg, ty, payload_abs):
        r = self.drv.ask("ST %s %s %s" % (terms.cfg_sx(cfg), terms.ty_sx(ty), terms.obj_sx(payload_abs)))
        if self._validators and r.startswith("(ok "):
            # class construction is modelled, not verified: an instance whose attribute holds a value its validator /
            # post-init check rejects cannot be built -- `__init__` raises, so does the structuring call (both modes)
            from . import gen
            if not gen.validators_ok(self.world, reply_obj(r)):
                self.stats["model:rejected-by-validator"] += 1
                return "(err (leaf))" if cfg["detailed"] else "(err)"
            self.stats["model:accepted-through-validators"] += 1
        return r

    def model_conf(self, ty, x_abs):
        return self.drv.ask("CONF %s %s" % (terms.ty_sx(ty), terms.obj_sx(x_abs))) == "1"


def reply_kind(r: str):
    if r == "unmodelled":
        return "unmodelled"
    if r.startswith("(ok "):
        return "ok"
    if r.startswith("(err"):
        return "err"
    return "bad:" + r


def reply_obj(r: str):
    """abstract object inside an `(ok obj)` reply"""
    p = terms.parse_sx(r)
    return terms.obj_of_px(p[1])


def reply_canon(r: str) -> str:
    return terms.canon_sx(reply_obj(r))
