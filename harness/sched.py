"""Deterministic cooperative thread scheduler + working-set tracing (property C19).

Two independent pieces, both working WITHOUT touching /repo:

1. `install_tracing()` -- call BEFORE cattrs is imported.  While cattrs is being imported `threading.local`
   is a tracing subclass, so `cattrs.gen._consts.already_generating = local()` becomes a `TracingLocal`; after
   the import every cattrs module that refers to `already_generating` gets a module-global `set = TracingSet`
   (a `set` subclass), so the sets those modules create are tracing sets.  Every get/set/delete of the attribute
   `working_set` and every `in` / `add` / `remove` / truth test on a set that has been stored in it is appended
   to `TRACE.log` in global order with the logical thread id and the answer it received.

2. `Scheduler` -- runs N real threads so that exactly ONE runs at any time.  A trace function yields at every
   `line` event inside cattrs source files and cattrs-generated code ("scheduling point").  The thread that
   holds the token evaluates the policy itself (continue, or wake another thread and block on its own
   semaphore), so no controller thread and no hand-off is needed when the policy says "continue".
   Policies are small, JSON-able and deterministic: `RandomPolicy(seed, p)` and `PreemptPolicy(order, preempts)`.
   Every blocking wait has a timeout; on a timeout the run is aborted (all threads released and joined) and
   `SchedTimeout` is raised -- the caller turns that into exit code 2, never into a violation.
"""
from __future__ import annotations

import os
import random
import sys
import threading
import time

CATTRS_SRC = os.environ.get("CATTRS_SRC", "/repo/src")

_orig_local = threading.local


class SchedTimeout(Exception):
    pass


# ------------------------------------------------------------------------------------------------ tracing

class Trace:
    def __init__(self):
        self.log = []           # (tid, op, sid, cls, answer, func)      working-set accesses only
        self.glog = []          # (tid, op, key, answer, msd)            working-set AND memo-table accesses, global order
        self.on = False
        self.tid_of = {}        # threading.get_ident() -> logical thread id
        self.next_sid = 1
        self.installed = False
        self.is_local = None    # is already_generating a TracingLocal?
        self.patched_modules = []
        self.pending = {}
        self.dwc_patched = False   # MultiStrategyDispatch.dispatch_without_caching is the tracing wrapper

    def tid(self):
        return self.tid_of.get(threading.get_ident(), 1000)   # 1000 = the main (harness) thread

    def rec(self, op, sid, cls, ans, func=""):
        if self.on:
            t = self.tid()
            self.log.append((t, op, sid, cls, ans, func))
            self.glog.append((t, op, cls, ans, sid))

    def grec(self, op, key, ans, msd):
        """a memo-table access (`lru` read, `lruw` write, `dwc`/`dwce`/`dwcx` start / end / exceptional end of
        dispatch_without_caching, `dget`/`dset`/`dclr` on _direct_dispatch, `cclr` = cache_clear)"""
        if self.on:
            self.glog.append((self.tid(), op, key, ans, msd))

    def start(self):
        """Start a fresh log.  If the calling thread's slot is not empty (an implementation that keeps an empty
        set instead of deleting the attribute is just as good), the log starts with a synthetic `set` event so
        that the replay begins from the real state."""
        self.log = []
        self.glog = []
        self.pending = {}       # logical thread id -> stack of [unconsumed?, typ] cells of calls through an LruProxy
        self.on = True
        ag = getattr(sys.modules.get("cattrs.gen._consts"), "already_generating", None)
        if isinstance(ag, TracingLocal):
            try:
                v = _orig_local.__getattribute__(ag, "working_set")
            except AttributeError:
                return
            ag.working_set = v      # logged by TracingLocal.__setattr__ (same object, no copy)

    def stop(self):
        self.on = False
        return self.log


TRACE = Trace()


def _caller_name():
    try:
        return sys._getframe(2).f_code.co_name
    except Exception:
        return ""


class TracingSet(set):
    """A set that logs membership tests, add, remove/discard and truth tests once it is a working set."""
    __slots__ = ("_sid", "_ws")

    def _id(self):
        try:
            return self._sid
        except AttributeError:
            self._sid = TRACE.next_sid
            TRACE.next_sid += 1
            self._ws = False
            return self._sid

    def _is_ws(self):
        try:
            return self._ws
        except AttributeError:
            return False

    def __contains__(self, x):
        r = set.__contains__(self, x)
        if TRACE.on and self._is_ws():
            TRACE.rec("in", self._sid, x, r, _caller_name())
        return r

    def add(self, x):
        set.add(self, x)
        if TRACE.on and self._is_ws():
            TRACE.rec("add", self._sid, x, "unit", _caller_name())

    def remove(self, x):
        try:
            set.remove(self, x)
        except KeyError:
            if TRACE.on and self._is_ws():
                TRACE.rec("rm", self._sid, x, "keyErr", _caller_name())
            raise
        if TRACE.on and self._is_ws():
            TRACE.rec("rm", self._sid, x, "unit", _caller_name())

    def discard(self, x):
        had = set.__contains__(self, x)
        set.discard(self, x)
        if TRACE.on and self._is_ws() and had:
            TRACE.rec("rm", self._sid, x, "unit", _caller_name())

    def __bool__(self):
        r = set.__len__(self) > 0
        if TRACE.on and self._is_ws():
            TRACE.rec("empty", self._sid, None, not r, _caller_name())
        return r

    __hash__ = None


_standins = {}      # id(plain set) -> (the plain set, kept alive; its tracing stand-in)


class TracingLocal(_orig_local):
    """threading.local that logs get/set/delete of the attribute `working_set`."""

    def __getattribute__(self, name):
        if name != "working_set":
            return _orig_local.__getattribute__(self, name)
        try:
            v = _orig_local.__getattribute__(self, name)
        except AttributeError:
            TRACE.rec("get", 0, None, "attrErr", _caller_name())
            raise
        if TRACE.on:
            sid = v._id() if isinstance(v, TracingSet) else -id(v)
            TRACE.rec("get", sid, None, "found", _caller_name())
        return v

    def __setattr__(self, name, value):
        if name == "working_set" and type(value) is set:
            # a plain set (`set(union_classes) - {cl}` in strategies/_subclasses.py: set difference does not keep the
            # subclass): store a tracing stand-in -- the code reaches it through the attribute only.  IDENTITY IS
            # PRESERVED: the same plain object is always replaced by the same stand-in, so a set that an
            # implementation hands to several threads stays shared between them.
            ent = _standins.get(id(value))
            if ent is None or ent[0] is not value:
                if len(_standins) > 20000:
                    _standins.clear()
                ent = (value, TracingSet(value))
                _standins[id(value)] = ent
            value = ent[1]
        if name == "working_set" and TRACE.on:
            if isinstance(value, TracingSet):
                sid = value._id()
                value._ws = True
            else:  # a set our instrumentation did not create: stored as is, its operations stay unobserved
                sid = -id(value)
            TRACE.rec("set", sid, tuple(set.__iter__(value)) if isinstance(value, set) else (), "unit", _caller_name())
        elif name == "working_set" and isinstance(value, TracingSet):
            value._id()
            value._ws = True
        _orig_local.__setattr__(self, name, value)

    def __delattr__(self, name):
        if name != "working_set":
            return _orig_local.__delattr__(self, name)
        try:
            _orig_local.__delattr__(self, name)
        except AttributeError:
            TRACE.rec("del", 0, None, "attrErr", _caller_name())
            raise
        TRACE.rec("del", 0, None, "unit", _caller_name())


# ------------------------------------------------------------------------------------------------ cooperative locks
# While cattrs is imported `threading.Lock` / `threading.RLock` are these factories (and afterwards a cattrs module that
# holds the `threading` module itself sees a proxy with them), so every lock cattrs code creates is cooperative: a
# scheduled worker that cannot get the lock does not block the interpreter thread that holds the scheduling token, it
# tells the scheduler (`Scheduler._block`), which runs another thread -- and knows, exactly and without any timing,
# when NO live thread can run: a deadlock.  Outside a scheduled run they behave like the real locks.

_orig_Lock = threading.Lock
_orig_RLock = threading.RLock


class SchedDeadlock(BaseException):
    """raised inside the blocked acquire() of every worker when the run is torn down after a deadlock"""


class _CoopBase:
    __slots__ = ("_inner", "_owner", "_where")

    def acquire(self, blocking=True, timeout=-1):
        S = Scheduler._active
        ix = TRACE.tid_of.get(threading.get_ident()) if S is not None else None
        if ix is None or S.abort:
            if S is not None and S.abort and ix is not None:
                if self._inner.acquire(False):
                    return True
                raise SchedDeadlock()
            return self._inner.acquire(blocking, timeout)
        while True:
            if self._inner.acquire(False):
                self._owner = ix
                try:
                    f = sys._getframe(1)
                    if f.f_code.co_name == "__enter__":
                        f = f.f_back
                    self._where = f"{os.path.basename(f.f_code.co_filename)}:{f.f_lineno}"
                except Exception:  # noqa: BLE001
                    self._where = "?"
                return True
            if not blocking:
                return False
            S._block(ix, self)          # returns when this thread is scheduled again; raises SchedDeadlock on teardown

    def release(self):
        self._inner.release()
        S = Scheduler._active
        if S is not None and S.blocked:
            for t in [t for t, l in S.blocked.items() if l is self]:
                del S.blocked[t]

    def __enter__(self):
        self.acquire()
        return True

    def __exit__(self, *a):
        self.release()

    def locked(self):
        return self._inner.locked()

    def __getattr__(self, name):
        return getattr(self._inner, name)


class CoopLock(_CoopBase):
    __slots__ = ()

    def __init__(self):
        self._inner = _orig_Lock()
        self._owner = None
        self._where = "?"


class CoopRLock(_CoopBase):
    __slots__ = ()

    def __init__(self):
        self._inner = _orig_RLock()
        self._owner = None
        self._where = "?"

    def locked(self):
        if self._inner.acquire(False):
            self._inner.release()
            return False
        return True


class _ThreadingProxy:
    """what a cattrs module that did `import threading` sees"""

    def __init__(self, mod):
        self.__dict__["_mod"] = mod

    Lock = CoopLock
    RLock = CoopRLock
    local = None    # set after TracingLocal exists

    def __getattr__(self, name):
        return getattr(self._mod, name)


# ------------------------------------------------------------------------------------------------ memo-table tracing
# (corr:C19:GENSCHED)  Nothing under /repo is touched: `dispatch_without_caching` is wrapped on the CLASS after the
# import (so the `lru_cache` every later converter builds in `MultiStrategyDispatch.__init__` wraps the tracing
# version), and a converter under test gets, per dispatcher, a proxy around ITS OWN lru wrapper and a tracing dict
# holding the contents of ITS OWN `_direct_dispatch`.  None of this code is a scheduling point (harness file).

def _make_dwc(orig):
    def dispatch_without_caching(self, typ):
        if not TRACE.on:
            return orig(self, typ)
        st = TRACE.pending.get(TRACE.tid())
        via_lru = False
        if st:
            cell = st[-1]
            if cell[0] and cell[1] is typ and cell[2] is self:
                cell[0] = False          # the pending call through the lru turned out to be a miss
                via_lru = True
        TRACE.grec("lru" if via_lru else "dwc", typ, "miss", self)
        try:
            r = orig(self, typ)
        except BaseException as e:
            TRACE.grec("dwcx", typ, type(e).__name__, self)
            raise
        # (through the lru: the C wrapper stores the result right after this return, no scheduling point between)
        TRACE.grec("lruw" if via_lru else "dwce", typ, "unit", self)
        return r
    dispatch_without_caching.__wrapped__ = orig
    return dispatch_without_caching


class LruProxy:
    """Stands in for `MultiStrategyDispatch.dispatch` (the lru_cache wrapper) of one dispatcher."""
    __slots__ = ("inner", "msd")

    def __init__(self, inner, msd):
        self.inner = inner
        self.msd = msd

    def __call__(self, typ):
        if not TRACE.on:
            return self.inner(typ)
        st = TRACE.pending.setdefault(TRACE.tid(), [])
        cell = [True, typ, self.msd]
        st.append(cell)
        try:
            r = self.inner(typ)
        finally:
            st.pop()
        if cell[0]:
            TRACE.grec("lru", typ, "hit", self.msd)
        return r

    def cache_clear(self):
        self.inner.cache_clear()
        TRACE.grec("cclr", None, "unit", self.msd)

    def __getattr__(self, name):
        return getattr(self.inner, name)


class TracingDict(dict):
    """Stands in for `MultiStrategyDispatch._direct_dispatch` of one dispatcher."""
    __slots__ = ("msd",)

    def get(self, k, default=None):
        r = dict.get(self, k, default)
        TRACE.grec("dget", k, "miss" if r is None else "hit", self.msd)
        return r

    def __getitem__(self, k):
        try:
            r = dict.__getitem__(self, k)
        except KeyError:
            TRACE.grec("dget", k, "miss", self.msd)
            raise
        TRACE.grec("dget", k, "hit", self.msd)
        return r

    def __setitem__(self, k, v):
        dict.__setitem__(self, k, v)
        TRACE.grec("dset", k, "unit", self.msd)

    def clear(self):
        dict.clear(self)
        TRACE.grec("dclr", None, "unit", self.msd)


def instrument_converter(conv):
    """Install the memo-table tracing on both dispatchers of a fresh converter.  Returns False (nothing installed,
    or partially: the caller must then not use the memo log) if the dispatcher no longer has the shape the tracing
    relies on -- that is NOT an alarm by itself."""
    if not TRACE.dwc_patched:
        return False
    try:
        msds = [conv._structure_func, conv._unstructure_func]
        for msd in msds:
            inner = msd.dispatch
            wrapped = getattr(inner, "__wrapped__", None)
            if isinstance(inner, LruProxy) or not hasattr(inner, "cache_clear") or wrapped is None:
                return False
            if getattr(wrapped, "__func__", None) is not type(msd).dispatch_without_caching:
                return False
            if type(msd._direct_dispatch) is not dict:
                return False
        for msd in msds:
            msd.dispatch = LruProxy(msd.dispatch, msd)
            d = TracingDict(msd._direct_dispatch)
            d.msd = msd
            msd._direct_dispatch = d
    except Exception:  # noqa: BLE001
        return False
    return True


def install_tracing():
    """Import cattrs (from CATTRS_SRC) with the tracing threading.local in place.  Idempotent."""
    if TRACE.installed:
        return TRACE
    if any(m == "cattrs" or m.startswith("cattrs.") for m in sys.modules):
        raise RuntimeError("install_tracing() must run before cattrs is imported")
    if CATTRS_SRC not in sys.path[:1]:
        sys.path.insert(0, CATTRS_SRC)
    for dep in ("attrs", "attr", "typing_extensions", "exceptiongroup"):   # not ours to instrument
        try:
            __import__(dep)
        except Exception:  # noqa: BLE001
            pass
    _ThreadingProxy.local = TracingLocal
    threading.local = TracingLocal
    threading.Lock = CoopLock
    threading.RLock = CoopRLock
    try:
        import cattrs  # noqa: F401
        import cattrs.cols  # noqa: F401
        import cattrs.gen  # noqa: F401
        import cattrs.gen.typeddicts  # noqa: F401
        import cattrs.strategies  # noqa: F401
    finally:
        threading.local = _orig_local
        threading.Lock = _orig_Lock
        threading.RLock = _orig_RLock
    src = os.path.realpath(os.path.dirname(sys.modules["cattrs"].__file__))
    if not src.startswith(os.path.realpath(CATTRS_SRC)):
        raise RuntimeError(f"cattrs was imported from {src}, expected {CATTRS_SRC}")
    consts = sys.modules["cattrs.gen._consts"]
    ag = getattr(consts, "already_generating", None)
    TRACE.is_local = isinstance(ag, TracingLocal)
    for name, mod in list(sys.modules.items()):
        if (name == "cattrs" or name.startswith("cattrs.")) and mod is not None:
            d = getattr(mod, "__dict__", {})
            if "already_generating" in d and "set" not in d:
                mod.set = TracingSet
                TRACE.patched_modules.append(name)
            for k, v in list(d.items()):
                if v is threading:
                    setattr(mod, k, _ThreadingProxy(threading))
    try:
        msd_cls = sys.modules["cattrs.dispatch"].MultiStrategyDispatch
        orig = msd_cls.__dict__.get("dispatch_without_caching")
        if callable(orig) and getattr(orig, "__code__", None) is not None and orig.__code__.co_argcount == 2:
            msd_cls.dispatch_without_caching = _make_dwc(orig)
            TRACE.dwc_patched = True
    except Exception:  # noqa: BLE001 - the dispatcher has another shape: no memo-table log, not an alarm
        TRACE.dwc_patched = False
    TRACE.installed = True
    return TRACE


# ------------------------------------------------------------------------------------------------ policies

class RandomPolicy:
    """Continue the running thread with probability 1-p, otherwise pick a runnable thread uniformly."""

    def __init__(self, seed, p=0.15):
        self.seed = seed
        self.p = p
        self.rnd = random.Random(seed)

    def start(self, live):
        return self.rnd.choice(live)

    def choose(self, cur, own_step, live):
        if cur in live and self.rnd.random() >= self.p:
            return cur
        return self.rnd.choice(live)

    def to_json(self):
        return {"kind": "random", "seed": self.seed, "p": self.p}


class PreemptPolicy:
    """Run threads to completion in `order`, except that when thread t reaches its k-th scheduling point and
    (t, k) is in `preempts`, control moves to preempts[(t, k)] (if runnable)."""

    def __init__(self, order, preempts):
        self.order = list(order)
        self.preempts = {(int(t), int(k)): int(j) for (t, k), j in
                         (preempts.items() if isinstance(preempts, dict) else [((a, b), c) for a, b, c in preempts])}

    def _first(self, live):
        for t in self.order:
            if t in live:
                return t
        return live[0]

    def start(self, live):
        return self._first(live)

    def choose(self, cur, own_step, live):
        if cur in live:
            j = self.preempts.get((cur, own_step))
            if j is not None and j in live:
                return j
            return cur
        return self._first(live)

    def to_json(self):
        return {"kind": "preempt", "order": self.order, "preempts": [[t, k, j] for (t, k), j in sorted(self.preempts.items())]}


def policy_from_json(d):
    if d["kind"] == "random":
        return RandomPolicy(d["seed"], d.get("p", 0.15))
    return PreemptPolicy(d["order"], [tuple(x) for x in d["preempts"]])


# ------------------------------------------------------------------------------------------------ scheduler

# (gen/_lc.py is NOT in this list: it works on the process-global `linecache.cache`)
_PURE_FILES = ("_compat.py", "_generics.py", "typealiases.py", "fns.py", "literals.py", "errors.py")
_src_cache = {}


def _is_cattrs_file(fn):
    return (os.sep + "cattrs" + os.sep in fn and "site-packages" not in fn and os.sep + "harness" + os.sep not in fn)


def full_want(code, _cache={}):
    """Every line of every cattrs source file and of cattrs-generated code is a scheduling point."""
    fn = code.co_filename
    r = _cache.get(fn)
    if r is None:
        r = fn.startswith("<cattrs generated") or _is_cattrs_file(fn)
        _cache[fn] = r
    return r


def reduced_want(code, _files={}, _funcs={}):
    """Partial-order reduction: no scheduling points inside code that touches no state shared between threads --
    the pure type predicates / helpers of `_compat.py` (except `adapted_fields`, which resolves string
    annotations ON the class), `_generics.py`, `typealiases.py`, `fns.py`, `literals.py`, `errors.py`, and the predicate loop of `FunctionDispatch.dispatch` (only the lines that call
    a handler factory remain).  A switch at such a line commutes with the other threads' steps, so it is
    equivalent to a switch at the next remaining point.  Returns False / True / a frozenset of line numbers.
    (Nothing is cached per code object: hashing a code object is expensive and would keep generated code alive.)"""
    fn = code.co_filename
    kind = _files.get(fn)
    if kind is None:
        if fn.startswith("<cattrs generated"):
            kind = "all"
        elif not _is_cattrs_file(fn):
            kind = "none"
        elif os.path.basename(fn) in _PURE_FILES:
            kind = "pure"
        elif os.path.basename(fn) == "dispatch.py":
            kind = "dispatch"
        else:
            kind = "all"
        if len(_files) > 5000:
            _files.clear()
        _files[fn] = kind
    if kind == "all":
        return True
    if kind == "none":
        return False
    if kind == "pure":
        return code.co_name == "adapted_fields"
    if code.co_name != "dispatch" or "can_handle" not in code.co_varnames:
        return True
    key = (fn, code.co_firstlineno)
    r = _funcs.get(key)
    if r is None:
        try:
            src = open(fn).read().split("\n")
        except OSError:
            src = []
        first = code.co_firstlineno
        last = max([ln for _, _, ln in code.co_lines() if ln is not None] + [first])
        r = frozenset(ln for ln in range(first, last + 1) if ln - 1 < len(src) and "handler(" in src[ln - 1]) or False
        _funcs[key] = r
    return r


default_want = reduced_want


class _Gate:
    """Binary semaphore on a raw lock (threading.Semaphore is pure Python and several times slower)."""
    __slots__ = ("lock", "free")

    def __init__(self):
        self.lock = threading.Lock()
        self.lock.acquire()
        self.free = False

    def release(self):
        try:
            self.lock.release()
        except RuntimeError:
            pass

    def acquire(self, timeout):
        if self.free:
            return True
        return self.lock.acquire(timeout=timeout) or self.free

    def open_forever(self):
        self.free = True
        self.release()


class Scheduler:
    """Exactly one of the N worker threads runs at any time.  Scheduling points are delivered by `sys.monitoring`
    LINE events (Python >= 3.12; enabled only for the code objects `want` selects, so untraced code runs at full
    speed) or, failing that, by `sys.settrace`."""
    TIMEOUT = 30.0
    _mon_ready = False
    _active = None            # the scheduler whose workers are running (at most one at a time)
    _only = {}                # code object -> frozenset of line numbers that are scheduling points
    _want = None

    def __init__(self, policy, want=None, record_points=False, use_monitoring=True):
        self.policy = policy
        self.want = want or default_want
        self.record_points = record_points
        self.use_monitoring = use_monitoring and hasattr(sys, "monitoring")
        self.points = []          # (tid, own_step, filename, lineno) when record_points
        self.steps = 0            # scheduling points in total
        self.switches = 0
        self.own = []
        self.abort = False
        self.timed_out = False
        self.blocked = {}         # logical thread id -> the cooperative lock it waits for
        self.deadlock = None      # description, once no live thread can run
        self.on_switch = None     # optional probe called (with the thread id) whenever the token changes hands
        self.hung = False         # the token holder made no progress for HANG seconds (not a cooperative lock)

    HANG = 12.0

    def _runnable(self):
        if not self.blocked:
            return self.live
        return [t for t in self.live if t not in self.blocked]

    def _declare_deadlock(self):
        parts = []
        for t in self.live:
            l = self.blocked.get(t)
            if l is not None:
                parts.append(f"thread {t} waits for a {type(l).__name__[4:]} taken by thread {l._owner} at {l._where}")
        self.deadlock = "; ".join(parts) or "no live thread can run"
        self.abort = True
        for g in self.sems:
            g.open_forever()

    def _block(self, ix, lock):
        """thread `ix` (holding the token) cannot get `lock`: run somebody else, or find that nobody can run"""
        self.blocked[ix] = lock
        run = self._runnable()
        if not run:
            self._declare_deadlock()
            raise SchedDeadlock()
        self.steps += 1
        nxt = self.policy.choose(ix, self.own[ix], run)
        self.switches += 1
        if self.on_switch is not None:
            self.on_switch(ix)
        self.sems[nxt].release()
        if not self.sems[ix].acquire(timeout=self.TIMEOUT):
            self.abort = True
            self.timed_out = True
        if self.abort:
            raise SchedDeadlock()

    # -- executed by the thread holding the token
    def _yield(self, ix, filename, lineno):
        if self.abort:
            return
        self.steps += 1
        self.own[ix] += 1
        if self.record_points:
            self.points.append((ix, self.own[ix], filename, lineno))
        nxt = self.policy.choose(ix, self.own[ix], self._runnable())
        if nxt != ix:
            self.switches += 1
            if self.on_switch is not None:
                self.on_switch(ix)
            self.sems[nxt].release()
            if not self.sems[ix].acquire(timeout=self.TIMEOUT):
                self.abort = True
                self.timed_out = True

    # -- sys.monitoring back end
    @classmethod
    def _setup_monitoring(cls, want):
        mon = sys.monitoring
        if cls._mon_ready and cls._want is want:
            return True
        tool = mon.DEBUGGER_ID
        if not cls._mon_ready:
            if mon.get_tool(tool) is not None:
                return False
            mon.use_tool_id(tool, "c19-scheduler")
        else:                      # different filter: forget what was enabled
            mon.set_events(tool, 0)
            for code in list(cls._enabled):
                mon.set_local_events(tool, code, 0)
            mon.restart_events()
        cls._want = want
        cls._only = {}
        cls._enabled = []
        only = cls._only
        enabled = cls._enabled
        tid_of = TRACE.tid_of
        get_ident = threading.get_ident

        def on_start(code, offset):
            w = want(code)
            if w:
                if w is not True:
                    only[id(code)] = w
                mon.set_local_events(tool, code, mon.events.LINE)
                if not code.co_filename.startswith("<"):
                    enabled.append(code)      # keeps the code object alive, so its id stays valid
            return mon.DISABLE

        def on_line(code, lineno):
            S = cls._active
            if S is None:
                return
            ix = tid_of.get(get_ident())
            if ix is None:
                return
            ls = only.get(id(code)) if only else None
            if ls is None or lineno in ls:
                S._yield(ix, code.co_filename, lineno)

        mon.register_callback(tool, mon.events.PY_START, on_start)
        mon.register_callback(tool, mon.events.LINE, on_line)
        mon.set_events(tool, mon.events.PY_START)
        cls._mon_ready = True
        return True

    # -- sys.settrace back end
    def _tracer(self, ix):
        want = self.want
        yield_ = self._yield
        only = {}

        def local(frame, event, arg):
            if event == "line":
                ls = only.get(frame.f_code)
                if ls is None or frame.f_lineno in ls:
                    yield_(ix, frame.f_code.co_filename, frame.f_lineno)
            return local

        def glob(frame, event, arg):
            if event == "call":
                w = want(frame.f_code)
                if w is True:
                    return local
                if w:
                    only[frame.f_code] = w
                    return local
            return None

        return glob

    def _worker(self, ix, fn):
        ok = self.sems[ix].acquire(timeout=self.TIMEOUT)
        if not ok:
            self.abort = True
            self.timed_out = True
        TRACE.tid_of[threading.get_ident()] = ix
        if not self.abort and not self.monitoring:
            sys.settrace(self._tracer(ix))
        try:
            self.out[ix] = ("ok", fn())
        except BaseException as e:  # noqa: BLE001 - the result IS the exception
            self.out[ix] = ("err", e)
        finally:
            sys.settrace(None)
            TRACE.tid_of.pop(threading.get_ident(), None)
            self.live.remove(ix)
            self.blocked.pop(ix, None)
            if self.live and not self.abort:
                run = self._runnable()
                if run:
                    nxt = self.policy.choose(ix, self.own[ix], run)
                    self.sems[nxt].release()
                else:                      # everybody left waits for a lock nobody will release
                    self._declare_deadlock()
            elif not self.live:
                self.all_done.set()

    def run(self, fns):
        n = len(fns)
        self.monitoring = self.use_monitoring and self._setup_monitoring(self.want)
        self.sems = [_Gate() for _ in range(n)]
        self.out = [None] * n
        self.own = [0] * n
        self.live = list(range(n))
        self.all_done = threading.Event()
        ths = [threading.Thread(target=self._worker, args=(i, f), daemon=True, name=f"c19-{i}") for i, f in enumerate(fns)]
        Scheduler._active = self
        try:
            for t in ths:
                t.start()
            self.sems[self.policy.start(self.live)].release()
            # watchdog: the run ends, or the token holder stops making progress (blocked in something that is not a
            # cooperative lock) -- the caller retries the schedule to tell a reproducible hang from a slow machine
            t_end = time.time() + self.TIMEOUT * 2
            last, t_last = -1, time.time()
            finished = False
            while time.time() < t_end:
                finished = self.all_done.wait(timeout=0.25)
                if finished or self.abort:
                    break
                if self.steps != last:
                    last, t_last = self.steps, time.time()
                elif time.time() - t_last > self.HANG:
                    self.hung = True
                    break
            if self.deadlock is not None:
                finished = self.all_done.wait(timeout=self.TIMEOUT)
            if not finished or self.timed_out:
                self.abort = True
                for s in self.sems:      # let everybody run free to completion
                    s.open_forever()
            deadline = time.time() + self.TIMEOUT
            for t in ths:
                t.join(timeout=max(0.1, deadline - time.time()))
        finally:
            Scheduler._active = None
        left = [t.name for t in ths if t.is_alive()]
        if self.deadlock is not None and not left:
            return self.out
        if not finished or self.timed_out or left:
            e = SchedTimeout(f"scheduler timed out (threads left: {left}; no progress: {self.hung})")
            e.hung = self.hung
            e.steps = self.steps
            raise e
        return self.out
