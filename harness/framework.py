"""Shared machinery of every check: lean gate, case loop, findings, replays, evidence."""
from __future__ import annotations

import collections
import json
import os
import random
import sys
import time
import traceback

from . import drift, lean

VERIF = lean.VERIF
# mutant self-tests (tools/mutant.sh) redirect both so that a run against a mutated copy never overwrites the evidence
EVIDENCE_DIR = os.environ.get("VERIF_EVIDENCE_DIR") or os.path.join(VERIF, "evidence")
REPLAY_DIR = os.environ.get("VERIF_REPLAY_DIR") or os.path.join(VERIF, "replays")
FINDINGS_FILE = os.path.join(VERIF, "known_findings.json")

TRUSTED_BASE = [
    "Lean 4.33.0 kernel (theorems audited with #print axioms; allowed: propext, Classical.choice, Quot.sound)",
    "the hand-written Lean model of cattrs (lean/CattrsModel) and the statements in lean/CattrsModel/Props",
    "the correspondence check (harness/: generators, realiser, canonical printer) tying the model to /repo/src",
    "CPython builtins, attrs/dataclasses class construction and typing introspection are modelled, not verified",
]


class Check:
    """Bookkeeping for one run of one property's check."""

    def __init__(self, prop_id, tier, seed):
        self.prop_id = prop_id
        self.tier = tier
        self.seed = seed
        self.rng = random.Random(seed * 1000003 + sum(map(ord, prop_id)))
        self.t0 = time.time()
        self.evaluations = 0
        self.nontrivial = set()
        self.samples = []
        self.hist = collections.Counter()
        self.unmodelled = 0
        self.violations = []  # (kind, what, replay_payload)
        self.known_hits = collections.Counter()
        self.known = [f for f in load_findings() if f.get("property") == prop_id and f.get("kind") == "finding"]
        self.gate_info = None
        self.extra = {}
        self.assumptions = []

    # -- lean
    def lean_gate(self):
        self.gate_info = lean.gate(self.prop_id)
        if self.tier == "thorough":
            mods = lean.load_registry().get(self.prop_id, {}).get("modules", [])
            self.extra["leanchecker_s"] = lean.leanchecker(mods)
            self.extra["leanchecker_modules"] = mods
        return self.gate_info

    # -- counting
    def count(self, key=None, nontrivial=True, sample=None):
        self.evaluations += 1
        if key is not None and nontrivial:
            self.nontrivial.add(key)
        if sample is not None and len(self.samples) < 5:
            self.samples.append(sample)

    def note(self, *keys):
        for k in keys:
            self.hist[k] += 1

    # -- outcomes
    def violation(self, what, replay, found_input=True):
        """Record a violation unless it matches a known finding."""
        for f in self.known:
            pred = FINDING_PREDICATES.get(f["signature"])
            if pred is not None and pred(replay):
                self.known_hits[f["id"]] += 1
                return False
        self.violations.append((what, replay, found_input))
        return True

    def finish(self):
        os.makedirs(EVIDENCE_DIR, exist_ok=True)
        wall = time.time() - self.t0
        for f in self.known:
            n = self.known_hits.get(f["id"], 0)
            print(f"KNOWN-FINDING: property={self.prop_id} {f['id']} {f['what']} (reproduced {n}x in this run)")
        g = self.gate_info or {"obligations": 0, "discharged": 0, "theorems": {}, "status": {}}
        cov = {
            "obligations": g["obligations"],
            "discharged": g["discharged"],
            "checker_cmd": "cd lean && lake build && lake env lean Audit.lean   (#print axioms for every registered theorem)",
            "trusted_base": TRUSTED_BASE,
            "theorems": g["theorems"],
            "theorem_status": g.get("status", {}),
            "evaluations": self.evaluations,
            "distinct_nontrivial": len(self.nontrivial),
            "rule": self.extra.pop("rule", "distinct canonical cases that exercise at least one non-leaf mechanism"),
            "samples": self.samples[:5],
            "histogram": dict(sorted(self.hist.items())),
            "unmodelled": self.unmodelled,
            "known_findings_reproduced": dict(self.known_hits),
        }
        cov.update(self.extra)
        ev = {
            "property_id": self.prop_id,
            "tier": self.tier,
            "seed": self.seed,
            "level": "proof",
            "coverage": cov,
            "assumptions": self.assumptions or TRUSTED_BASE,
            "wall_s": round(wall, 2),
            "violations": len(self.violations),
        }
        json.dump(ev, open(os.path.join(EVIDENCE_DIR, f"{self.prop_id}.json"), "w"), indent=1, default=str)
        if self.violations:
            os.makedirs(REPLAY_DIR, exist_ok=True)
            shown = set()
            for i, (what, replay, found) in enumerate(self.violations[:20]):
                path = os.path.join(REPLAY_DIR, f"{self.prop_id}_{self.seed}_{i}.json")
                json.dump({"property": self.prop_id, "what": what, "found_failing_input": found, "case": replay},
                          open(path, "w"), indent=1, default=str)
                if what in shown:
                    continue
                shown.add(what)
                tail = "" if found else " no-failing-input-found"
                print(f"VIOLATION property={self.prop_id} replay={path}{tail}")
                print(f"  {what}")
            return 1
        print(f"OK {self.prop_id} tier={self.tier} seed={self.seed} evaluations={self.evaluations} "
              f"nontrivial={len(self.nontrivial)} unmodelled={self.unmodelled} "
              f"theorems={g['discharged']}/{g['obligations']} wall={wall:.1f}s")
        return 0


def load_findings():
    if not os.path.exists(FINDINGS_FILE):
        return []
    return json.load(open(FINDINGS_FILE))["findings"]


FINDING_PREDICATES = {}


def finding(name):
    def deco(fn):
        FINDING_PREDICATES[name] = fn
        return fn
    return deco


def main(run_fn, prop_id):
    tier = os.environ.get("VERIF_TIER") or (sys.argv[2] if len(sys.argv) > 2 else "quick")
    seed = int(os.environ.get("VERIF_SEED", "0"))
    chk = Check(prop_id, tier, seed)
    try:
        chk.lean_gate()
        run_fn(chk)
        changed = drift.drifted() if tier == "quick" else []
        if changed:
            # the source is not the one the recorded correspondence was sampled against: sample more (harness/drift.py)
            rounds = int(os.environ.get("VERIF_DRIFT_ROUNDS", "3"))
            done = 0
            while done < rounds and not chk.violations:
                run_fn(chk)
                done += 1
            chk.extra["source_drift"] = {"files": changed, "extra_rounds": done}
        rc = chk.finish()
    except lean.InfraError as e:
        print(f"INFRA-ERROR {prop_id}: {e}")
        rc = 2
    except Exception:
        traceback.print_exc()
        print(f"INFRA-ERROR {prop_id}: harness crashed")
        rc = 2
    sys.exit(rc)
