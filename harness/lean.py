"""Lean side: build gate, axiom audit, and the line-protocol driver."""
from __future__ import annotations

import fcntl
import hashlib
import json
import os
import re
import subprocess
import time

VERIF = os.path.dirname(os.path.dirname(os.path.abspath(__file__)))
LEAN_DIR = os.environ.get("VERIF_LEAN_DIR") or os.path.join(VERIF, "lean")
DRIVER = os.path.join(LEAN_DIR, ".lake", "build", "bin", "cattrs_model")
REGISTRY_DIR = os.path.join(LEAN_DIR, "registry.d")
ALLOWED_AXIOMS = {"propext", "Classical.choice", "Quot.sound"}
FORBIDDEN = re.compile(r"\b(sorry|admit|native_decide|bv_decide|implemented_by|unsafe)\b|^\s*axiom\s|maxHeartbeats\s+0")


class InfraError(Exception):
    pass


def _sources():
    out = []
    for root, dirs, files in os.walk(LEAN_DIR):
        dirs[:] = [d for d in dirs if d not in (".lake",)]
        for f in files:
            if f.endswith(".lean") or f == "lakefile.toml" or (f.endswith(".json") and "registry.d" in root):
                out.append(os.path.join(root, f))
    return sorted(out)


def _digest():
    h = hashlib.sha256()
    for p in _sources():
        h.update(p.encode())
        h.update(open(p, "rb").read())
    return h.hexdigest()


def strip_comments(src: str) -> str:
    # remove block comments (nested) and line comments
    out = []
    i = 0
    depth = 0
    n = len(src)
    while i < n:
        if src.startswith("/-", i):
            depth += 1
            i += 2
            continue
        if depth and src.startswith("-/", i):
            depth -= 1
            i += 2
            continue
        if depth:
            if src[i] == "\n":
                out.append("\n")
            i += 1
            continue
        if src.startswith("--", i):
            while i < n and src[i] != "\n":
                i += 1
            continue
        out.append(src[i])
        i += 1
    return "".join(out)


def grep_forbidden():
    hits = []
    for p in _sources():
        if not p.endswith(".lean"):
            continue
        for ln, line in enumerate(strip_comments(open(p).read()).split("\n"), 1):
            if FORBIDDEN.search(line):
                hits.append(f"{os.path.relpath(p, LEAN_DIR)}:{ln}: {line.strip()}")
    return hits


def load_registry():
    """Merge lean/registry.d/*.json: {prop: {modules: [...], theorems: [...], status: {thm: full|partial|witness}}}"""
    reg = {}
    if os.path.isdir(REGISTRY_DIR):
        for f in sorted(os.listdir(REGISTRY_DIR)):
            if not f.endswith(".json"):
                continue
            for k, v in json.load(open(os.path.join(REGISTRY_DIR, f))).items():
                e = reg.setdefault(k, {"modules": [], "theorems": [], "status": {}})
                e["modules"] += [m for m in v.get("modules", []) if m not in e["modules"]]
                e["theorems"] += [t for t in v.get("theorems", []) if t not in e["theorems"]]
                e["status"].update(v.get("status", {}))
    return reg


def build_and_audit(log=print):
    """lake build (serialised by a lock) and `#print axioms` for every registered theorem.
    Returns {theorem: [axioms]}.  Cached on the digest of the Lean sources."""
    os.makedirs(os.path.join(LEAN_DIR, ".lake"), exist_ok=True)
    lock = open(os.path.join(LEAN_DIR, ".lake", "verif.lock"), "w")
    fcntl.flock(lock, fcntl.LOCK_EX)
    try:
        cache_p = os.path.join(LEAN_DIR, ".lake", "audit_cache.json")
        dg = _digest()
        if os.path.exists(cache_p) and os.path.exists(DRIVER):
            c = json.load(open(cache_p))
            if c.get("digest") == dg:
                return c["axioms"], c["build_s"]
        t0 = time.time()
        r = subprocess.run(["lake", "build"], cwd=LEAN_DIR, capture_output=True, text=True)
        if r.returncode != 0:
            raise InfraError("lake build failed:\n" + r.stdout[-4000:] + r.stderr[-2000:])
        reg = load_registry()
        names = sorted({t for ts in reg.values() for t in ts["theorems"]})
        mods = sorted({m for ts in reg.values() for m in ts["modules"]})
        r = subprocess.run(["lake", "build"] + mods, cwd=LEAN_DIR, capture_output=True, text=True)
        if r.returncode != 0:
            raise InfraError("lake build of registered modules failed:\n" + r.stdout[-4000:] + r.stderr[-2000:])
        audit = "\n".join([f"import {m}" for m in mods] + [f"#print axioms {n}" for n in names]) + "\n"
        ap = os.path.join(LEAN_DIR, "Audit.lean")
        open(ap, "w").write(audit)
        r = subprocess.run(["lake", "env", "lean", "Audit.lean"], cwd=LEAN_DIR, capture_output=True, text=True)
        if r.returncode != 0:
            raise InfraError("axiom audit failed:\n" + r.stdout[-4000:] + r.stderr[-2000:])
        axioms = {}
        txt = r.stdout.replace("\n  ", " ")
        for m in re.finditer(r"'([^']+)' depends on axioms: \[([^\]]*)\]", txt):
            axioms[m.group(1)] = [a.strip() for a in m.group(2).split(",") if a.strip()]
        for m in re.finditer(r"'([^']+)' does not depend on any axioms", txt):
            axioms[m.group(1)] = []
        build_s = time.time() - t0
        json.dump({"digest": dg, "axioms": axioms, "build_s": build_s}, open(cache_p, "w"))
        return axioms, build_s
    finally:
        fcntl.flock(lock, fcntl.LOCK_UN)
        lock.close()


def leanchecker(modules):
    """Thorough tier: replay the compiled .olean files of the property's modules through Lean's independent checker."""
    t0 = time.time()
    r = subprocess.run(["lake", "env", "leanchecker"] + list(modules), cwd=LEAN_DIR, capture_output=True, text=True)
    if r.returncode != 0:
        raise InfraError("leanchecker rejected the compiled modules:\n" + r.stdout[-3000:] + r.stderr[-2000:])
    return round(time.time() - t0, 1)


def gate(prop_id):
    """The Lean gate for one property: returns dict(obligations, discharged, theorems, bad)."""
    hits = grep_forbidden()
    if hits:
        raise InfraError("forbidden tokens in Lean sources:\n" + "\n".join(hits))
    axioms, build_s = build_and_audit()
    reg = load_registry()
    ent = reg.get(prop_id, {"theorems": [], "modules": []})
    if not ent["theorems"]:
        raise InfraError(f"no theorem is registered for {prop_id} in lean/registry.d")
    res = {"obligations": len(ent["theorems"]), "discharged": 0, "theorems": {}, "bad": [], "build_s": build_s,
           "status": ent.get("status", {})}
    for t in ent["theorems"]:
        short = t
        ax = axioms.get(t)
        if ax is None:
            # `#print axioms` prints the name as written
            ax = axioms.get(t.split("CattrsModel.")[-1])
        if ax is None:
            res["bad"].append(f"{t}: not found in audit")
            continue
        res["theorems"][short] = ax
        extra = set(ax) - ALLOWED_AXIOMS
        if extra:
            res["bad"].append(f"{t}: disallowed axioms {sorted(extra)}")
        else:
            res["discharged"] += 1
    if res["bad"]:
        raise InfraError("axiom audit: " + "; ".join(res["bad"]))
    return res


class Driver:
    """Persistent model driver process speaking the line protocol."""

    def __init__(self):
        if not os.path.exists(DRIVER):
            build_and_audit()
        self.p = subprocess.Popen([DRIVER], stdin=subprocess.PIPE, stdout=subprocess.PIPE, text=True, bufsize=1)
        self.n = 0

    def ask(self, line: str) -> str:
        self.p.stdin.write(line.replace("\n", " ") + "\n")
        self.p.stdin.flush()
        self.n += 1
        r = self.p.stdout.readline()
        if not r:
            raise InfraError("model driver died on: " + line[:300])
        return r.rstrip("\n")

    def ask_many(self, lines):
        return [self.ask(l) for l in lines]

    def close(self):
        try:
            self.p.stdin.close()
            self.p.wait(timeout=5)
        except Exception:
            self.p.kill()
