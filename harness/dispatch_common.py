"""Shared machinery of the dispatch checks C07 / C08 / C18.

One abstract *history* (registrations, warm-up calls, copies, probes over a fixed universe of types) is
realised twice: on real cattrs converters (tagging user hooks make the chosen hook observable in the result)
and as `Facts` + `Cfg` + ops for the Lean model (`RUNHIST`, see lean/CattrsModel/Dispatch/Driver.lean).
Both results are brought to one canonical form (`canon` for implementation results, `expect` for hook terms
of the model / of the reference oracle) and compared.

What the harness knows about cattrs' *built-in* behaviour (independently of the implementation) is the table
`builtin_behaviour`: for every shape of type in the universe, per converter class and direction, which
built-in hook handles it, whether it is a factory (and how it looks up the component hooks), whether it
writes the direct table, whether it dispatches at call time, and what its output looks like given the
outputs of the components.
"""

import collections
import collections.abc
import enum
import functools
import json
import linecache
import os
import sys
import types
import typing
from typing import Annotated, NewType, Optional, Union

SRC = os.environ.get("CATTRS_SRC", "/repo/src")
sys.path.insert(0, SRC)

import attrs  # noqa: E402
import cattrs  # noqa: E402
import cattrs.errors  # noqa: E402
from cattrs import BaseConverter, Converter, UnstructureStrategy  # noqa: E402

if not os.path.abspath(cattrs.__file__).startswith(os.path.abspath(SRC)):
    raise RuntimeError(f"cattrs imported from {cattrs.__file__}, expected under {SRC}")

from harness import lean  # noqa: E402
from harness import dispatch_shapes as shapes  # noqa: E402
from harness.dispatch_shapes import NOCONV  # noqa: E402

UN, ST = "un", "st"
DIRS = (UN, ST)


# --------------------------------------------------------------------------------------------------
# universe
# --------------------------------------------------------------------------------------------------
@attrs.define
class DspA:
    x: int


@attrs.define
class DspB(DspA):
    y: int


@attrs.define
class DspD:
    z: int


class DspP:
    def __eq__(self, o):
        return type(o) is type(self)

    def __hash__(self):
        return 7


class DspQ(DspP):
    pass


class DspE(enum.Enum):
    M = 1


NA = NewType("NA", DspA)
NI = NewType("NI", int)
NNI = NewType("NNI", NI)


@attrs.define
class DspW:
    a: DspA
    n: NI
    l: list[DspB]  # noqa: E741


@attrs.define
class DspM:
    """a field whose type is a MAPPING of a union: the generated mapping hook (value handler baked in) sits in the direct table"""
    m: dict[str, Union[DspA, DspD]]


@attrs.define
class DspH:
    """fields spelled `Annotated[T, ...]`: their hooks are found through the converter's own Annotated factory"""
    a: Annotated[DspA, "m"]
    i: Annotated[int, "u"]


class SKIP:  # a component whose hook is obtained but not called on the sample
    pass


class Ty:
    def __init__(self, key, name, obj, shape, parts=(), sample=None, payload=None, tpayload=None, alt=None):
        self.key, self.name, self.obj, self.shape, self.parts = key, name, obj, shape, tuple(parts)
        self.sample, self.payload = sample, payload
        self.tpayload = payload if tpayload is None else tpayload  # payload under the tuple strategy
        self.alt = alt  # a second, `==`-equal realisation (unions)


class Universe:
    def __init__(self):
        self.types = []
        self.by_name = {}
        a, b, d = DspA(5), DspB(5, 6), DspD(7)
        pa, pb, pd = {"x": 5}, {"x": 5, "y": 6}, {"z": 7}
        add = self._add
        add("A", DspA, "attrs", ["int"], a, pa, (5,))
        add("B", DspB, "attrs", ["int", "int"], b, pb, (5, 6))
        add("D", DspD, "attrs", ["int"], d, pd, (7,))
        add("P", DspP, "plain", [], DspP(), {})
        add("Q", DspQ, "plain", [], DspQ(), {})
        add("E", DspE, "enum", [], DspE.M, 1)
        add("Enum", enum.Enum, "enumbase", [], DspE.M, 1)
        add("int", int, "int", [], 5, 5)
        add("str", str, "str", [], "s", "s")
        add("object", object, "object", [], DspP(), {})
        add("NA", NA, "newtype", ["A"], a, pa, (5,))
        add("NI", NI, "newtype", ["int"], 5, 5)
        add("NNI", NNI, "newtype", ["NI"], 5, 5)
        add("UAP", Union[DspA, DspP], "union", ["A", "P"], a, pa, (5,), alt=DspP | DspA)
        add("UAD", Union[DspA, DspD], "union", ["A", "D"], a, pa, (5,), alt=DspD | DspA)
        add("UIS", Union[int, str], "union", ["int", "str"], 5, 5, alt=str | int)
        add("OA", Optional[DspA], "optional", ["A"], a, pa, (5,), alt=None | DspA)
        add("ONI", Optional[NI], "optional", ["NI"], 5, 5)
        add("W", DspW, "attrs", ["A", "NI", "list[B]"], DspW(a, 5, [b]), {"a": pa, "n": 5, "l": [pb]},
            ((5,), 5, [(5, 6)]))
        add("list[A]", list[DspA], "list", ["A"], [a], [pa], [(5,)])
        add("list[B]", list[DspB], "list", ["B"], [b], [pb], [(5, 6)])
        add("list[NA]", list[NA], "list", ["NA"], [a], [pa], [(5,)])
        add("list[OA]", list[Optional[DspA]], "list", ["OA"], [a], [pa], [(5,)])
        add("list[list[B]]", list[list[DspB]], "list", ["list[B]"], [[b]], [[pb]], [[(5, 6)]])
        add("dict[str,B]", dict[str, DspB], "dict", ["str", "B"], {"k": b}, {"k": pb}, {"k": (5, 6)})
        # mapping types whose value type is a union / Optional (exact-type registrations; the union structure registry): the
        # hooks Converter generates for mappings are parked in the direct table with the value handler baked in
        add("dict[str,UAD]", dict[str, Union[DspA, DspD]], "dict", ["str", "UAD"], {"k": a}, {"k": pa}, {"k": (5,)})
        add("Mapping[str,OA]", typing.Mapping[str, Optional[DspA]], "dict", ["str", "OA"], {"k": a}, {"k": pa}, {"k": (5,)})
        add("M", DspM, "attrs", ["dict[str,UAD]"], DspM({"k": a}), {"m": {"k": pa}}, ({"k": (5,)},))
        add("tuple[A,P]", tuple[DspA, DspP], "tuple", ["A", "P"], (a, DspP()), [pa, {}], [(5,), {}])
        # a homogeneous tuple: shares its origin (`tuple`) with the heterogeneous one above, but not its container default
        # (Converter: list, through `gen_unstructure_iterable`; BaseConverter: the run-time class of the value)
        add("tuple[A,...]", tuple[DspA, ...], "htuple", ["A"], (a,), [pa], [(5,)])
        # `Annotated[T, ...]` spellings (Converter only: its `is_annotated` factories, registered last, unwrap them and
        # ask the converter THEY ARE BOUND TO for the hook of T), top level and as field types
        add("An[A]", Annotated[DspA, "m"], "annotated", ["A"], a, pa, (5,))
        add("An[int]", Annotated[int, "u"], "annotated", ["int"], 5, 5)
        add("An[NA]", Annotated[NA, "m"], "annotated", ["NA"], a, pa, (5,))
        add("An[list[B]]", Annotated[list[DspB], "m"], "annotated", ["list[B]"], [b], [pb], [(5, 6)])
        add("H", DspH, "attrs", ["An[A]", "An[int]"], DspH(a, 5), {"a": pa, "i": 5}, ((5,), 5))
        # W's parts were given by name before list[B] existed
        for t in self.types:
            t.parts = tuple(self.by_name[p].key if isinstance(p, str) else p for p in t.parts)
        self.n = len(self.types)
        self.key_of_obj = {}
        for t in self.types:
            self.key_of_obj[t.obj] = t.key
            if t.alt is not None:
                assert t.alt == t.obj and hash(t.alt) == hash(t.obj) and t.alt is not t.obj
        self.classes = [t for t in self.types if isinstance(t.obj, type)]
        self.mro = self._compute_mros()

    def _add(self, name, obj, shape, parts, sample, payload, tpayload=None, alt=None):
        t = Ty(len(self.types), name, obj, shape, parts, sample, payload, tpayload, alt)
        self.types.append(t)
        self.by_name[name] = t
        return t

    def key(self, obj):
        """Key of a Python type object (by ==/hash, as lru_cache and the direct table do); None if foreign."""
        try:
            return self.key_of_obj.get(obj)
        except TypeError:
            return None

    def k(self, name):
        return self.by_name[name].key

    def _compute_mros(self):
        """What functools.singledispatch sees: for every type, the universe classes in the order in which
        singledispatch would prefer them ([] if dispatch raises). Determined by probing a real singledispatch
        (validated fact, independent of cattrs)."""
        out = {}
        for t in self.types:
            remaining = list(self.classes)
            order = []
            while remaining:
                sd = functools.singledispatch(_NotFound)
                for c in remaining:
                    sd.register(c.obj, _const(c.key))
                try:
                    impl = sd.dispatch(t.obj)
                except Exception:
                    break
                if impl is _NotFound:
                    break
                k = impl()
                order.append(k)
                remaining = [c for c in remaining if c.key != k]
            out[t.key] = order
        return out

    def rtclass(self, key):
        """Key of the run-time class of the unstructure sample (None if that class is not in the universe)."""
        return self.key(type(self.types[key].sample))


class _NotFound:
    pass


def _const(k):
    return lambda *a: k


U = Universe()


# --------------------------------------------------------------------------------------------------
# converter configurations
# --------------------------------------------------------------------------------------------------
# fallback factory ids: 0 = cattrs' default; 7001 / 7002 = tagging factories; STRICT_FB = factories that RAISE when they are
# asked for a hook ("no hook registered for this type" -- the usual strict `unstructure_fallback_factory`): generating a
# hook for any type that reaches them fails until the user registers the missing hook
STRICT_FB = (7003, 7004)
# COMPOSE_FB = fallback factories whose hooks are BUILT OUT OF OTHER HOOKS: asked for a type, they look the hooks of its component
# types up through the converter they were written for -- cached (7005) or with `cache_result=False` (7006) -- when the hook is
# MADE (early binding), exactly as a registered hook factory does.  For the component structure see `comps_of` (plain classes
# get two virtual components under such a factory: "every object carries an int id and an A payload").  In the model such a
# factory is one more entry of the constructor's predicate list, LAST (lowest priority), with an always-true predicate:
# `dispatch_without_caching` asks the fallback factory exactly when `FunctionDispatch.dispatch` found no entry.
COMPOSE_FB = (7005, 7006)
ALL_PID = 99     # the truth-table row of that always-true predicate


class ConvCfg:
    """Construction of a converter: class, unstructure strategy, fallback factories, dispatch-neutral options."""

    def __init__(self, klass="Converter", tuple_strat=False, fb_un=0, fb_st=0, detailed=True, extra=None):
        self.klass, self.tuple_strat, self.fb_un, self.fb_st, self.detailed = klass, tuple_strat, fb_un, fb_st, detailed
        self.extra = dict(extra or {})  # forbid_extra_keys / omit_if_default / prefer_attrib_converters

    def gen(self):
        return self.klass != "BaseConverter"

    def to_json(self):
        return {"klass": self.klass, "tuple": self.tuple_strat, "fb_un": self.fb_un, "fb_st": self.fb_st,
                "detailed": self.detailed, "extra": self.extra}

    @staticmethod
    def from_json(j):
        return ConvCfg(j["klass"], j["tuple"], j["fb_un"], j["fb_st"], j["detailed"], j.get("extra"))

    def name(self):
        return (f"{self.klass}{'/tuple' if self.tuple_strat else ''}"
                f"{'/fbU-strict' if self.fb_un in STRICT_FB else '/fbU-composing' if self.fb_un in COMPOSE_FB else '/fbU' if self.fb_un else ''}"
                f"{'/fbS-strict' if self.fb_st in STRICT_FB else '/fbS-composing' if self.fb_st in COMPOSE_FB else '/fbS' if self.fb_st else ''}"
                f"{'' if self.detailed else '/fast'}")

    def opts(self):
        return self.name() + ("" if not self.extra else " " + json.dumps(self.extra, sort_keys=True))

    def fb(self, d):
        return self.fb_un if d == UN else self.fb_st


# Construction / copy options whose values are objects are written by NAME in the (JSON) case and decoded here.  The keys
# used (`set`, `frozenset`, `float`) are deliberately outside the universe: universe probes (and the model, which treats
# options as dispatch-neutral) are unaffected; the option-sensitive probes of C18 observe them.
_COLL = {"set": set, "frozenset": frozenset, "list": list, "tuple": tuple, "sorted": sorted,
         "AbstractSet": collections.abc.Set, "MutableSet": collections.abc.MutableSet,
         "Sequence": collections.abc.Sequence, "MutableSequence": collections.abc.MutableSequence, "deque": collections.deque,
         "Mapping": collections.abc.Mapping, "MutableMapping": collections.abc.MutableMapping, "dict": dict,
         "Counter": collections.Counter, "OrderedDict": collections.OrderedDict}
# "in order of decreasing generality" (docs, Customizing collection unstructuring): an override given for a type also applies to
# the more specific types below it unless they have an override of their own
_COLL_CHAIN = {"AbstractSet": ("MutableSet", "frozenset"), "MutableSet": ("set",), "Sequence": ("MutableSequence", "tuple"),
               "MutableSequence": ("list", "deque"), "Mapping": ("MutableMapping",), "MutableMapping": ("dict",), "dict": ("Counter",)}


def closed_overrides(co):
    """the documented meaning of an `unstruct_collection_overrides` dictionary (names as in the JSON case): the given entries
    plus, for every entry, the more specific collection types that have none of their own -- to a fixpoint"""
    co = dict(co or {})
    changed = True
    while changed:
        changed = False
        for k, targets in _COLL_CHAIN.items():
            for t in targets:
                if k in co and t not in co:
                    co[t] = co[k]
                    changed = True
    return co


def seq_tag(cc, origin, default):
    """canonical tag of the container a Converter built as `cc` unstructures a collection of origin `origin` to"""
    v = closed_overrides(cc.extra.get("unstruct_collection_overrides")).get(origin, default)
    return {"list": "list", "sorted": "list", "tuple": "tuple"}.get(v, v)
_DICTS = {"dict": dict, "OrderedDict": collections.OrderedDict}
_TYS = {"float": float, "bytes": bytes}


def decode_options(kw):
    """{option name: JSON value} -> keyword arguments of Converter(...) / .copy(...)"""
    from cattrs.gen import override
    out = {}
    for k, v in kw.items():
        if k == "unstruct_strat":
            out[k] = UnstructureStrategy(v)
        elif k == "unstruct_collection_overrides":
            out[k] = {_COLL[a]: _COLL[b] for a, b in v.items()}
        elif k == "type_overrides":
            out[k] = {_TYS[a]: override(rename=b) for a, b in v.items()}
        elif k == "dict_factory":
            out[k] = _DICTS[v]
        else:
            out[k] = v
    return out


# attributes of a converter that hold construction OPTIONS (C08: "behaviour is a function of construction options and
# registration history alone" -- no use of the converter may write them; C18: carried / replaced by copy)
OPTION_ATTRS = ("detailed_validation", "forbid_extra_keys", "omit_if_default", "type_overrides",
                "_unstruct_collection_overrides", "_prefer_attrib_converters", "_dict_factory", "_unstructure_attrs",
                "_structure_attrs")


def options_snapshot(conv):
    """{attribute: value}; dict-valued options are copied (keys and values compared by ==, callables by identity)"""
    out = {}
    for a in OPTION_ATTRS:
        if hasattr(conv, a):
            v = getattr(conv, a)
            if isinstance(v, types.MethodType):   # `_unstructure_attrs` / `_structure_attrs`: which method, not whose
                v = ("method", v.__func__.__name__)
            out[a] = dict(v) if isinstance(v, dict) else v
    try:
        out["unstruct_strat"] = conv.unstruct_strat
    except Exception:  # noqa: BLE001
        pass
    return out


def options_diff(before, conv):
    """attributes whose value after use differs from the snapshot taken at construction"""
    after = options_snapshot(conv)
    return [f"{a}: {before.get(a)!r} -> {after.get(a)!r}" for a in sorted(set(before) | set(after))
            if before.get(a) != after.get(a)]


class Beh:
    """A built-in behaviour for one type (direction and converter class fixed)."""

    def __init__(self, name, kind="plain", sub="none", direct=False, late=False, comps=(), out=None):
        self.name, self.kind, self.sub, self.direct, self.late, self.comps, self.out = name, kind, sub, direct, late, tuple(comps), out


def _rt(parts_keys):
    return [U.rtclass(k) for k in parts_keys]


def comps_of(cc: ConvCfg, d, key):
    """Component types on which a hook for `key` (built-in or a user extended factory of the harness)
    dispatches, for converters of configuration `cc` in direction `d`."""
    t = U.types[key]
    sh = t.shape
    base_un = (not cc.gen()) and d == UN  # BaseConverter unstructures elements by run-time class
    if sh == "attrs":
        return list(t.parts)
    if sh == "newtype":
        return [] if base_un else list(t.parts)
    if sh == "annotated":
        return list(t.parts)
    if sh == "union":
        if d == UN:
            return [U.rtclass(key)]
        return [p for p in t.parts if U.types[p].shape == "attrs"]
    if sh == "optional":
        return _rt(t.parts) if base_un else list(t.parts)
    if sh in ("list", "dict", "tuple", "htuple"):
        return _rt(t.parts) if base_un else list(t.parts)
    if sh == "plain" and cc.fb(d) in COMPOSE_FB:
        return [U.k("int"), U.k("A")]   # virtual components of plain classes under a composing fallback factory
    return []


def split(cc, d, key, v):
    """The parts of a sample on which the component hooks are called (aligned with comps_of)."""
    t = U.types[key]
    sh = t.shape
    if sh == "attrs":
        names = [a.name for a in attrs.fields(t.obj)]
        if d == UN:
            return [getattr(v, n) for n in names]
        if cc.tuple_strat:
            return list(v)
        return [v[n] for n in names]
    if sh == "newtype":
        return [v] if comps_of(cc, d, key) else []
    if sh == "annotated":
        return [v]
    if sh == "optional":
        return [v]
    if sh == "union":
        cs = comps_of(cc, d, key)
        return ([v] + [SKIP] * (len(cs) - 1)) if cs else []
    if sh in ("list", "htuple"):
        return [v[0]]
    if sh == "dict":
        (k, x), = v.items()
        return [k, x]
    if sh == "tuple":
        return [v[0], v[1]]
    if sh == "plain" and comps_of(cc, d, key):
        return [5, Impl.sample(cc, d, U.by_name["A"])]
    return []


def excluded(cc: ConvCfg, d, key):
    """Types not probed / not used as components for this configuration (outside the modelled fragment)."""
    t = U.types[key]
    if (not cc.gen()) and d == UN and t.name == "list[list[B]]":
        return True  # BaseConverter dispatches on the run-time class `list`, which is not in the universe
    if cc.tuple_strat and d == ST and (t.name == "UAD" or any(excluded(cc, d, p) for p in t.parts)):
        return True  # the automatic disambiguation needs mappings (also when the union is a component)
    if (not cc.gen()) and (t.shape == "annotated" or t.name == "H"):
        return True  # BaseConverter has no Annotated support (no `is_annotated` hook factory)
    return False


def builtin_behaviour(cc: ConvCfg, d, key):
    """The built-in predicate-tier behaviour of cattrs for type `key`, or None (then: class tier or fallback).
    Written from the documentation / source of BaseConverter.__init__ and Converter.__init__."""
    t = U.types[key]
    sh = t.shape
    gen = cc.gen()
    cs = comps_of(cc, d, key)
    first = lambda ch, s: ch[0]  # noqa: E731
    if d == UN:
        if sh == "attrs":
            if gen and not cc.tuple_strat:
                return Beh("gen_unstructure_attrs_fromdict", "factory", "uncached", comps=cs, out=_out_dict_attrs(t))
            if cc.tuple_strat:
                return Beh("unstructure_attrs_astuple", late=True, comps=cs, out=lambda ch, s: ("tuple", ch))
            return Beh("unstructure_attrs_asdict", late=True, comps=cs, out=_out_dict_attrs(t))
        if sh == "enum":
            return Beh("_unstructure_enum", out=lambda ch, s: canon(s.value))
        if sh == "newtype":
            return Beh("newtype_unstructure", "factory", "cached", comps=cs, out=first) if gen else None
        if sh == "annotated":
            return Beh("gen_unstructure_annotated", "factory", "cached", comps=cs, out=first) if gen else None
        if sh == "union":
            return Beh("_unstructure_union", late=True, comps=cs, out=first)
        if sh == "optional":
            if gen:
                return Beh("gen_unstructure_optional", "factory", "cached", comps=cs, out=first)
            return Beh("_unstructure_union", late=True, comps=cs, out=first)
        if sh == "list":
            if gen:
                tag = seq_tag(cc, "list", "list")
                return Beh("gen_unstructure_iterable", "factory", "uncached", direct=True, comps=cs, out=lambda ch, s: (tag, ch))
            return Beh("_unstructure_seq", late=True, comps=cs, out=lambda ch, s: ("list", ch))
        if sh == "dict":
            if gen:
                return Beh("gen_unstructure_mapping", "factory", "uncached", direct=True, comps=cs, out=_out_dict1)
            return Beh("_unstructure_mapping", late=True, comps=cs, out=_out_dict1)
        if sh == "tuple":
            if gen:
                tag = seq_tag(cc, "tuple", "tuple")
                return Beh("gen_unstructure_hetero_tuple", "factory", "cached", direct=True, comps=cs, out=lambda ch, s: (tag, ch))
            return None
        if sh == "htuple":
            if gen:  # `is_sequence` -> gen_unstructure_iterable: `unstruct_collection_overrides.get(tuple, list)`
                tag = seq_tag(cc, "tuple", "list")
                return Beh("gen_unstructure_iterable", "factory", "uncached", direct=True, comps=cs, out=lambda ch, s: (tag, ch))
            return Beh("_unstructure_seq", late=True, comps=cs, out=lambda ch, s: ("tuple", ch))  # `seq.__class__(...)`
        return None
    # structure
    if sh == "attrs":
        if gen and not cc.tuple_strat:
            return Beh("gen_structure_attrs_fromdict", "factory", "uncached", comps=cs, out=_out_inst(t))
        return Beh("structure_attrs_from" + ("tuple" if cc.tuple_strat else "dict"), late=True, comps=cs, out=_out_inst(t))
    if sh == "newtype":
        if gen:
            return Beh("get_structure_newtype", "factory", "cached", comps=cs, out=first)
        return Beh("_structure_newtype", late=True, comps=cs, out=first)
    if sh == "annotated":
        return Beh("gen_structure_annotated", "factory", "cached", comps=cs, out=first) if gen else None
    if sh == "optional":
        return Beh("_structure_optional", late=True, comps=cs, out=first)
    if sh == "union":
        if cs and len(cs) == len(t.parts):  # is_supported_union: all members attrs classes
            return Beh("_gen_attrs_union_structure", "factory", "cached", comps=cs, out=first)
        return None
    if sh == "list":
        return Beh("list_structure_factory", "extended", "cached", comps=cs, out=lambda ch, s: ("list", ch))
    if sh == "dict":
        if gen:
            return Beh("gen_structure_mapping", "factory", "uncached", direct=True, comps=cs, out=_out_dict1)
        return Beh("_structure_dict", late=True, comps=cs, out=_out_dict1)
    if sh in ("tuple", "htuple"):
        return Beh("_structure_tuple", late=True, comps=cs, out=lambda ch, s: ("tuple", ch))
    return None


def builtin_single(cc, d):
    """Built-in class-tier registrations restricted to the universe: [(class key, behaviour)] latest first."""
    if d == UN:
        return [(U.k("str"), Beh("identity", out=lambda ch, s: canon(s)))]
    call = lambda name: Beh("_structure_call", out=lambda ch, s, n=name: canon(U.by_name[n].obj(s)))  # noqa: E731
    return [(U.k("Enum"), Beh("_structure_call", out=lambda ch, s: ("enum", DspE(s).name))),
            (U.k("int"), call("int")), (U.k("str"), call("str"))]


def _out_dict_attrs(t):
    names = [a.name for a in attrs.fields(t.obj)]
    return lambda ch, s: ("dict", sorted([(("val", repr(n)), c) for n, c in zip(names, ch)], key=repr))


def _out_inst(t):
    names = [a.name for a in attrs.fields(t.obj)]
    return lambda ch, s: ("inst", t.obj.__name__, [(n, c) for n, c in zip(names, ch)])


def _out_dict1(ch, s):
    return ("dict", [(ch[0], ch[1])])


# --------------------------------------------------------------------------------------------------
# canonical form of implementation results
# --------------------------------------------------------------------------------------------------
class Tagged:
    __slots__ = ("c",)

    def __init__(self, c):
        self.c = c

    def __hash__(self):
        return hash(repr(self.c))

    def __eq__(self, o):
        return isinstance(o, Tagged) and o.c == self.c

    def __repr__(self):
        return f"Tagged{self.c!r}"


def canon(v):
    if isinstance(v, Tagged):
        return v.c
    if isinstance(v, enum.Enum):
        return ("enum", v.name)
    if v is None or isinstance(v, (bool, int, str)):
        return ("val", repr(v))
    if isinstance(v, list):
        return ("list", [canon(e) for e in v])
    if isinstance(v, tuple):
        return ("tuple", [canon(e) for e in v])
    if isinstance(v, dict):
        return ("dict", sorted([(canon(k), canon(x)) for k, x in v.items()], key=repr))
    if attrs.has(type(v)):
        return ("inst", type(v).__name__, [(a.name, canon(getattr(v, a.name))) for a in attrs.fields(type(v))])
    if isinstance(v, DspP):
        return ("obj", type(v).__name__)
    return ("other", type(v).__name__)


ERR = ("err",)


# --------------------------------------------------------------------------------------------------
# the model side: Facts / Cfg / ops as S-expressions; hook terms back
# --------------------------------------------------------------------------------------------------
_BUILTIN_IDS = {}


def _intern_builtin(d, name, key):
    """Globally stable id of the built-in hook `name` for type `key` (ids must agree between the converters of
    one store: the copy of a converter may be constructed with another unstructure strategy)."""
    return _BUILTIN_IDS.setdefault((d, name, key), 1000 + len(_BUILTIN_IDS))


class ModelCtx:
    """Everything that depends on (converter configuration, direction): built-in table, ids, facts."""

    def __init__(self, cc: ConvCfg, d, preds):
        self.cc, self.d, self.preds = cc, d, preds  # preds: {pid: (accepts:set, raises:set)}
        self.beh = {}      # builtin id -> Beh
        self.bid = {}      # type key -> builtin id (predicate tier)
        for t in U.types:
            b = builtin_behaviour(cc, d, t.key)
            if b is not None and not excluded(cc, d, t.key):
                nid = _intern_builtin(d, b.name, t.key)
                self.beh[nid] = b
                self.bid[t.key] = nid
        self.single = []
        for ck, b in builtin_single(cc, d):
            nid = _intern_builtin(d, "single:" + b.name, ck)
            self.beh[nid] = b
            self.single.append((ck, nid))
        self.comps = {t.key: [c for c in comps_of(cc, d, t.key)] for t in U.types if not excluded(cc, d, t.key)}
        self.rank = {}
        for t in U.types:
            self._rank(t.key)

    def _rank(self, k):
        if k in self.rank:
            return self.rank[k]
        cs = self.comps.get(k, [])
        assert all(c is not None for c in cs), (self.cc.name(), self.d, U.types[k].name, cs)
        r = 1 + max([self._rank(c) for c in cs], default=-1)
        self.rank[k] = r
        return r

    def facts_sx(self, others=()):
        """`others`: contexts of further converters of the same store (their late built-ins are added)."""
        mro = " ".join(f"({k} {' '.join(map(str, v))})" for k, v in U.mro.items() if v)
        holds = " ".join(f"({p} {' '.join(map(str, sorted(acc)))})" for p, (acc, _) in sorted(self.preds.items()))
        if any(c.cc.fb(c.d) in COMPOSE_FB for c in (self, *others)):
            holds += f" ({ALL_PID} {' '.join(str(t.key) for t in U.types)})"
        un = " ".join(str(t.key) for t in U.types if t.shape in ("union", "optional"))
        nt = " ".join(str(t.key) for t in U.types if t.shape == "newtype")
        lates = {i for c in (self, *others) for i, b in c.beh.items() if b.late}
        late = " ".join(str(i) for i in sorted(lates))
        merged = {}
        for c in (self, *others):
            for k, v in c.comps.items():
                assert merged.setdefault(k, v) == v, "converters of one store must agree on the component structure"
        rk = {}

        def rank_of(k):
            if k not in rk:
                rk[k] = 1 + max([rank_of(c) for c in merged.get(k, [])], default=-1)
            return rk[k]
        for t in U.types:
            rank_of(t.key)
        comps = " ".join(f"({k} {' '.join(map(str, v))})" for k, v in sorted(merged.items()) if v)
        rank = " ".join(f"({k} {r})" for k, r in sorted(rk.items()))
        return f"((mro {mro}) (holds {holds}) (union {un}) (newtype {nt}) (late {late}) (comps {comps}) (rank {rank}))"

    def cfg_sx(self, cc=None):
        """Cfg of a converter constructed with `cc` (default: this context's) in this direction.  The built-in
        predicate list restricted to the universe: the union-registry entry (structure) first, then one exact
        entry per type that has a built-in predicate-tier behaviour (they are pairwise disjoint, so their
        relative order is immaterial)."""
        ctx = self if cc is None else ModelCtx(cc, self.d, self.preds)
        ents = []
        if self.d == ST:
            ents.append("((tbl 0) unionreg 0 1 none 0)")
        for k, i in sorted(ctx.bid.items()):
            b = ctx.beh[i]
            ents.append(f"((exact {k}) {b.kind} {i} 1 {b.sub} {1 if b.direct else 0})")
        fb = ctx.cc.fb(self.d)
        if fb in COMPOSE_FB:   # a composing fallback factory = the last, always-true factory entry
            ents.append(f"((tbl {ALL_PID}) factory {fb} 1 {'cached' if fb == COMPOSE_FB[0] else 'uncached'} 0)")
        single = " ".join(f"({ck} (builtin {i}))" for ck, i in ctx.single)
        return f"({1 if self.d == ST else 0} {fb} ({single}) ({' '.join(ents)}))"


def parse_hook(sx):
    """S-expression (parsed by terms.parse) -> nested tuples ('user', n) | ('builtin', n) | ('made', f, t, wc, [..]) | ('fallback', f, t)"""
    h = sx[0]
    if h == "user":
        return ("user", int(sx[1]))
    if h == "builtin":
        return ("builtin", int(sx[1]))
    if h == "fallback":
        return ("fallback", int(sx[1]), int(sx[2]))
    if h == "made":
        return ("made", int(sx[1]), int(sx[2]), sx[3] == "1", [parse_hook(s) for s in sx[4]])
    raise ValueError(sx)


def parse_sx(s):
    """Minimal S-expression reader: atoms (str) and lists."""
    toks = s.replace("(", " ( ").replace(")", " ) ").split()
    pos = 0

    def rd():
        nonlocal pos
        t = toks[pos]
        pos += 1
        if t == "(":
            out = []
            while toks[pos] != ")":
                out.append(rd())
            pos += 1
            return out
        return t
    out = []
    while pos < len(toks):
        out.append(rd())
    return out


class ExpectErr(Exception):
    pass


def has_default_fallback(h):
    if h[0] == "fallback":
        return h[1] == 0
    if h[0] == "made":
        return any(has_default_fallback(s) for s in h[4])
    return False


def has_raising_node(h, fraise):
    """the hook tree contains a strict fallback factory, or a user hook factory asked for a type it raises on (`fraise`:
    {factory tag: keys it raises on}): the hook cannot be built (or, under a late-binding hook, cannot be called)"""
    if h[0] == "fallback":
        return h[1] in STRICT_FB
    if h[0] == "made":
        return h[2] in fraise.get(h[1], ()) or any(has_raising_node(s, fraise) for s in h[4])
    return False


def fraise_of(history):
    """{factory tag: keys on which that user hook factory raises} of the registrations of a history"""
    return {op["tag"]: set(op["fraise"]) for op in history if op.get("op") == "factory" and op.get("fraise")}


def expect(ctx: ModelCtx, h, key, sample):
    """Canonical result that calling hook term `h` (chosen for type `key`) on `sample` must give."""
    if ctx.d == ST and has_default_fallback(h):
        return ERR  # the default structure fallback factory raises as soon as it is asked for a hook
    if has_raising_node(h, getattr(ctx, "fraise", {})):
        return ERR
    return _expect(ctx, h, key, sample)


def _expect(ctx, h, key, sample):
    k = h[0]
    if k == "user":
        return ("U", h[1])
    if k == "fallback":
        if h[1] == 0:
            return canon(sample)  # default unstructure fallback: identity
        return ("FB", h[1], h[2])
    if k == "builtin":
        return ctx.beh[h[1]].out([], sample)
    f, ty, wc, subs = h[1], h[2], h[3], h[4]
    cs = ctx.comps.get(key, [])
    parts = split(ctx.cc, ctx.d, key, sample)
    ch = []
    for i, sh in enumerate(subs):
        if i >= len(cs) or i >= len(parts):
            ch.append(("?",))
        elif parts[i] is SKIP:
            ch.append(("skip",))
        else:
            ch.append(_expect(ctx, sh, cs[i], parts[i]))
    if f in ctx.beh:
        b = ctx.beh[f]
        live = [c for c in ch if c != ("skip",)]
        return b.out(live if b.name in ("_gen_attrs_union_structure",) else ch, sample)
    return ("F", f, ty, wc, ch)


# --------------------------------------------------------------------------------------------------
# the implementation side
# --------------------------------------------------------------------------------------------------
class PredicateConfused(Exception):
    """a user-defined exception class"""


# What a predicate written for one family of types raises on an unrelated type: `issubclass(t, X)` on a non-class
# (TypeError), `t.__origin__` (AttributeError), `t.__args__[0]` (IndexError), a table lookup (KeyError), own validation
# (ValueError, AssertionError, a user-defined class), ...  "can handle could raise an exception here ... it's easier to just
# ignore that case" (dispatch.py): ANY `Exception` means "does not accept".  RecursionError is deliberately not here:
# the dispatcher lets it through (repair of F40 -- it is not a property of the type).
PRED_EXCEPTIONS = (TypeError, AttributeError, IndexError, KeyError, ValueError, LookupError, AssertionError,
                   ZeroDivisionError, RuntimeError, NotImplementedError, StopIteration, OSError, UnicodeError,
                   ArithmeticError, NameError, BufferError, EOFError, ImportError, PredicateConfused, Exception)


def pred_exception(pid, key):
    """the exception class predicate `pid` raises on type `key` (a function of the case, so replays repeat it)"""
    return PRED_EXCEPTIONS[(pid * 7 + key * 3) % len(PRED_EXCEPTIONS)]


class Impl:
    """Real converters executing a history.  `current` is the converter an operation is being performed on
    (extended factories record whether the converter they receive is that one)."""

    def __init__(self, preds):
        self.preds = preds
        self.convs = []     # real converters
        self.cfgs = []      # ConvCfg of each
        self.current = None
        self.pred_fns = {}
        self.reg_errors = []  # registrations / copies that raised (never expected)
        self.raised = collections.Counter()  # exception classes raised by predicates
        self.opts0 = []     # options_snapshot of each converter when it entered the store

    # ---- construction
    def fb_factory(self, d, fid, box=None, cc=None):
        if fid in COMPOSE_FB:
            def composing(t):
                key = U.key(t)
                if key is None or excluded(cc, d, key):
                    return self._made(d, fid, key, False, None, None)
                conv = box[0]   # the converter this factory was written for (set right after construction)
                get = conv.get_unstructure_hook if d == UN else conv.get_structure_hook
                subs = [get(U.types[c].obj) if fid == COMPOSE_FB[0] else get(U.types[c].obj, cache_result=False)
                        for c in comps_of(cc, d, key)]
                return self._made(d, fid, key, False, cc, subs)
            return composing
        if fid in STRICT_FB:
            def strict(t):
                raise cattrs.errors.StructureHandlerNotFoundError(f"no hook registered for {t!r}", t)
            return strict
        if d == UN:
            return lambda t: (lambda v: Tagged(("FB", fid, U.key(t))))
        return lambda t: (lambda v, _: Tagged(("FB", fid, U.key(t))))

    def make(self, cc: ConvCfg):
        kw = {"detailed_validation": cc.detailed}
        if cc.tuple_strat:
            kw["unstruct_strat"] = UnstructureStrategy.AS_TUPLE
        box = []
        if cc.fb_un:
            kw["unstructure_fallback_factory"] = self.fb_factory(UN, cc.fb_un, box, cc)
        if cc.fb_st:
            kw["structure_fallback_factory"] = self.fb_factory(ST, cc.fb_st, box, cc)
        kw.update(decode_options(cc.extra))
        if cc.klass == "Converter":
            c = Converter(**kw)
        elif cc.klass == "BaseConverter":
            c = BaseConverter(**kw)
        elif cc.klass == "JsonConverter":
            from cattrs.preconf.json import make_converter
            c = make_converter(**kw)
        else:
            raise ValueError(cc.klass)
        box.append(c)
        return self.adopt(c, cc)

    def adopt(self, conv, cc):
        self.convs.append(conv)
        self.cfgs.append(cc)
        self.opts0.append(options_snapshot(conv))
        return len(self.convs) - 1

    def options_written(self):
        """["c<i>: attr: before -> after"] for every converter whose option attributes changed since it was created
        (nothing the harness does -- registrations, calls, get_*_hook, copying it -- may write them)"""
        return [f"c{i}: {d}" for i, c in enumerate(self.convs) for d in options_diff(self.opts0[i], c)]

    # ---- user callables
    def pred_fn(self, pid):
        if pid not in self.pred_fns:
            acc, rais = self.preds[pid]

            def pred(t, acc=acc, rais=rais):
                k = U.key(t)
                if k in rais:
                    exc = pred_exception(pid, k)
                    self.raised[exc.__name__] += 1
                    raise exc("predicate does not like this type")
                return k in acc
            self.pred_fns[pid] = pred
        return self.pred_fns[pid]

    def plain_hook(self, d, tag):
        if d == UN:
            return lambda v: Tagged(("U", tag))
        return lambda v, _: Tagged(("U", tag))

    def call_hook(self, d, hook, v, tobj):
        return hook(v) if d == UN else hook(v, tobj)

    def factory(self, d, tag, extended, shape=None, fraise=()):
        """A hook factory with the signature `shape` (harness/dispatch_shapes.py).  Its one body `core` is told what the
        factory was actually CALLED with: nothing in the converter position (`NOCONV`) -> it behaves as a plain factory;
        something there -> it records whether that is the converter being operated on and looks the component hooks up
        through it (as a converter-taking factory does).  The hook it makes shows all of that in its result:
        `("F", tag, type key, received?, [results of the component hooks])`, received? = False | True | "other" (an object
        that is not the current converter) | "extra" (arguments the documented call does not pass)."""
        impl = self

        def made(key, wc, cc, subs):
            return impl._made(d, tag, key, wc, cc, subs)

        def core(t, converter=NOCONV, extra=False):
            key = U.key(t)
            if key in fraise:   # a factory that cannot build a hook for this type (yet): hook generation fails
                raise ValueError(f"hook factory #{tag} cannot handle {t!r}")
            if converter is NOCONV:
                return made(key, "extra" if extra else False, None, None)
            cur = impl.current
            cc = impl.cfgs[cur] if cur is not None else None
            ok = cur is not None and converter is impl.convs[cur]
            wc = "extra" if extra else (True if ok else ("other" if not isinstance(converter, BaseConverter) else False))
            if cc is None or key is None or excluded(cc, d, key) or not isinstance(converter, BaseConverter):
                return made(key, wc, None, None)
            get = converter.get_unstructure_hook if d == UN else converter.get_structure_hook
            subs = [get(U.types[c].obj) for c in comps_of(cc, d, key)]
            return made(key, wc, cc, subs)

        if shape is None:
            shape = "t,c" if extended else "t"
        return shapes.SHAPES[shape].build(core)

    def _made(self, d, tag, key, wc, cc, subs):
        """the hook a factory (tag) makes for type `key` out of the hooks `subs` of its component types"""
        cs = comps_of(cc, d, key) if subs is not None else []

        def run(v):
            ch = []
            if subs is not None:
                for sub, c, part in zip(subs, cs, split(cc, d, key, v)):
                    ch.append(("skip",) if part is SKIP else canon(self.call_hook(d, sub, part, U.types[c].obj)))
            return Tagged(("F", tag, key, wc, ch))
        return (lambda v: run(v)) if d == UN else (lambda v, _: run(v))

    # ---- operations
    def do(self, op):
        """Execute one abstract op; returns canonical result for probing ops, else None."""
        kind = op["op"]
        if kind == "copy":
            src = self.convs[op["src"]]
            self.current = op["src"]
            cc = ConvCfg.from_json(op["cfg"])
            kw = decode_options(op.get("kwargs", {}))
            how = op.get("how", "copy")
            if how == "deepcopy":
                import copy as _copy
                new = _copy.deepcopy(src)
            else:
                new = src.copy(**kw)
            self.adopt(new, cc)
            return None
        i = op["conv"]
        c = self.convs[i]
        self.current = i
        d = op.get("dir")
        try:
            return self._do(c, self.cfgs[i], kind, d, op)
        except Exception as e:
            if kind in ("hook", "func", "factory"):
                self.reg_errors.append(f"{describe(op)} raised {type(e).__name__}: {e}"[:300])
                return None
            raise
        finally:
            self.current = None

    def _do(self, c, cc, kind, d, op):
        if kind == "hook":
            t = U.types[op["ty"]]
            tobj = t.alt if (op.get("alt") and t.alt is not None) else t.obj
            f = self.plain_hook(d, op["tag"])
            if op.get("form") == "deco":
                if d == UN:
                    def un_hook(v):
                        return Tagged(("U", op["tag"]))
                    un_hook.__annotations__ = {"v": tobj}
                    c.register_unstructure_hook(un_hook)
                else:
                    def st_hook(v, _):
                        return Tagged(("U", op["tag"]))
                    st_hook.__annotations__ = {"return": tobj}
                    c.register_structure_hook(st_hook)
            elif d == UN:
                c.register_unstructure_hook(tobj, f)
            else:
                c.register_structure_hook(tobj, f)
            return None
        if kind == "func":
            reg = c.register_unstructure_hook_func if d == UN else c.register_structure_hook_func
            reg(self.pred_fn(op["pred"]), self.plain_hook(d, op["tag"]))
            return None
        if kind == "factory":
            reg = c.register_unstructure_hook_factory if d == UN else c.register_structure_hook_factory
            fac = self.factory(d, op["tag"], op["extended"], op.get("shape"), frozenset(op.get("fraise", ())))
            if op.get("form") == "deco":
                reg(self.pred_fn(op["pred"]))(fac)
            else:
                reg(self.pred_fn(op["pred"]), fac)
            return None
        t = U.types[op["ty"]]
        tobj = t.alt if (op.get("alt") and t.alt is not None) else t.obj
        if kind == "get":
            get = c.get_unstructure_hook if d == UN else c.get_structure_hook
            try:
                hook = get(tobj) if op.get("cached", True) else get(tobj, cache_result=False)
            except Exception:
                return ERR
            if not op.get("apply", True):
                return None
            try:
                return canon(self.call_hook(d, hook, self.sample(cc, d, t), tobj))
            except Exception:
                return ERR
        if kind == "call":
            try:
                if d == UN:
                    return canon(c.unstructure(self.sample(cc, d, t), unstructure_as=tobj))
                return canon(c.structure(self.sample(cc, d, t), tobj))
            except Exception:
                return ERR
        raise ValueError(kind)

    @staticmethod
    def sample(cc, d, t):
        if d == UN:
            return t.sample
        return t.tpayload if cc.tuple_strat else t.payload


def prune_linecache():
    for k in [k for k in linecache.cache if k.startswith("<cattrs generated")]:
        del linecache.cache[k]


# --------------------------------------------------------------------------------------------------
# running a history on the model
# --------------------------------------------------------------------------------------------------
def entry_sx(pid, kind, tag, sub="none"):
    return f"((tbl {pid}) {kind} {tag} 0 {sub} 0)"


SHAPE_INFO = {}


def shape_info(drv):
    """{shape name: {"kind": "extended"|"factory", "asks", "regular", "doc_binds", "impl_binds"}} from the model
    (`SIGKIND`, Dispatch/Sig.lean) for the `inspect.signature` of every shape; asked once per process.  The documented
    rule is cross-checked three ways: declared per shape == read off the signature in Python (at import of
    dispatch_shapes) == the model's `Sig.asksConverter`."""
    if SHAPE_INFO:
        return SHAPE_INFO
    for name, sh in shapes.SHAPES.items():
        fn = sh.build(lambda t, c=NOCONV, extra=False: None)
        r = drv.ask("SIGKIND " + shapes.sig_sx(fn))
        if not r.startswith("(ok"):
            raise lean.InfraError(f"model driver (SIGKIND {name}): {r[:200]}")
        _, kind, asks, regular, docb, implb = parse_sx(r)[0]
        info = {"kind": kind, "asks": asks == "1", "regular": regular == "1", "doc_binds": docb == "1", "impl_binds": implb == "1"}
        if info["asks"] != sh.asks or info["regular"] == sh.f61 or not info["doc_binds"]:
            raise lean.InfraError(f"harness and model disagree on the documented rule for factory shape {name}: {info}")
        SHAPE_INFO[name] = info
    return SHAPE_INFO


def factory_kind(op):
    """the `Kind` under which the model files the factory of registration `op`"""
    if op.get("shape") is not None:
        return SHAPE_INFO[op["shape"]]["kind"]
    return "extended" if op["extended"] else "factory"


def model_ops(history, d, cfgs0):
    """Translate the ops of direction `d` into `sop`s; returns (sops, index list of ops that produce a reply we compare)."""
    sops = []
    idx = []
    cfgs = list(cfgs0)
    for n, op in enumerate(history):
        k = op["op"]
        if k == "copy":
            cfgs.append(ConvCfg.from_json(op["cfg"]))
            sops.append(("copy", op["src"], cfgs[-1]))
            continue
        if op.get("dir") != d:
            continue
        i = op["conv"]
        if k == "hook":
            sops.append(f"(on {i} (reghook {op['ty']} {op['tag']}))")
        elif k == "func":
            sops.append(f"(on {i} (regpred {entry_sx(op['pred'], 'plain', op['tag'])}))")
        elif k == "factory":
            kind = factory_kind(op)  # a factory that is handed the converter looks the component hooks up through it
            sops.append(f"(on {i} (regpred {entry_sx(op['pred'], kind, op['tag'], 'cached' if kind == 'extended' else 'none')}))")
        elif k == "get":
            if op.get("apply", True):
                # get + apply = dispatch, then the call of the returned hook: in the model `call` after an
                # (un)cached dispatch; the reply compared is that of `call`
                sops.append(f"(on {i} ({'dispatch' if op.get('cached', True) else 'dispatchnc'} {op['ty']}))")
                sops.append(f"(on {i} (call {op['ty']}))")
                idx.append((n, len(sops) - 1))
            else:
                sops.append(f"(on {i} ({'dispatch' if op.get('cached', True) else 'dispatchnc'} {op['ty']}))")
        elif k == "call":
            sops.append(f"(on {i} (call {op['ty']}))")
            idx.append((n, len(sops) - 1))
    return sops, idx


def run_model(drv, history, d, cfgs0, preds):
    """Run the direction-`d` part of `history` on the model.  Returns {op index: hook term}."""
    shape_info(drv)
    ctx0 = ModelCtx(cfgs0[0], d, preds)
    # all converters of one history share the facts that depend on (class, strategy) only through comps/late;
    # histories are generated so that every converter of a history has the same `gen()` and tuple_strat
    # per direction-relevant behaviour, except for copies with a strategy override (handled via their own Cfg)
    sops, idx = model_ops(history, d, cfgs0)
    parts = []
    for s in sops:
        if isinstance(s, tuple):
            parts.append(f"(copy {s[1]} {ctx0.cfg_sx(s[2])})")
        else:
            parts.append(s)
    store = " ".join(ctx0.cfg_sx(cc) for cc in cfgs0)
    others = [ModelCtx(cc, d, preds) for cc in list(cfgs0[1:]) + [s[2] for s in sops if isinstance(s, tuple)]]
    line = f"RUNHIST {ctx0.facts_sx(others)} ({store}) ({' '.join(parts)})"
    r = drv.ask(line)
    if not r.startswith("(ok"):
        raise lean.InfraError("model driver: " + r[:200] + " on " + line[:2000])
    reps = parse_sx(r)[0][1:]
    out = {}
    for n, j in idx:
        out[n] = parse_hook(reps[j])
    return out, ctx0


def run_spec(drv, history, d, cc, preds, keys):
    """`spec F cfg h t` (the theorem's right-hand side) for a single-converter history."""
    shape_info(drv)
    ctx = ModelCtx(cc, d, preds)
    sops, _ = model_ops(history, d, [cc])
    ops = " ".join(s[len("(on 0 "):-1] for s in sops)
    line = f"SPEC {ctx.facts_sx()} {ctx.cfg_sx()} ({ops}) ({' '.join(map(str, keys))})"
    r = drv.ask(line)
    if not r.startswith("(ok"):
        raise lean.InfraError("model driver: " + r[:200])
    return [parse_hook(x) for x in parse_sx(r)[0][1:]], ctx


# --------------------------------------------------------------------------------------------------
# store histories: the registration history and the construction of EVERY converter of a store (copies included)
# --------------------------------------------------------------------------------------------------
REG_OPS = ("hook", "func", "factory")


def store_view(history, cfgs0):
    """-> (cfgs, regs_of): for every converter of the store that `history` builds from converters constructed as `cfgs0`,
    its configuration and the registrations that make up ITS history, rewired to converter 0: a copy starts with the
    registrations its source had received when the copy was taken and is constructed with the source's options, the ones
    given to `copy()` replaced (the `cfg` entry of the copy op).  Written from the property statements (C07: "after any
    sequence of registrations"; C18: "every registered hook of every kind with its precedence"), independently of the
    model's `origins`."""
    cfgs = list(cfgs0)
    regs_of = {i: [] for i in range(len(cfgs))}
    for op in history:
        if op["op"] == "copy":
            regs_of[len(cfgs)] = list(regs_of[op["src"]])
            cfgs.append(ConvCfg.from_json(op["cfg"]))
        elif op["op"] in REG_OPS:
            regs_of[op["conv"]].append(dict(op, conv=0))
    return cfgs, regs_of


def apply_override(cc, kwargs):
    """configuration of `copy(**kwargs)` of a converter configured as `cc`: every given option replaces the source's,
    every other option is carried"""
    new = ConvCfg.from_json(cc.to_json())
    for k, v in kwargs.items():
        if k == "detailed_validation":
            new.detailed = v
        elif k == "unstruct_strat":
            new.tuple_strat = v == "astuple"
        else:
            new.extra[k] = v
    return new


def copy_op(src, cc, kwargs, how="copy"):
    return {"op": "copy", "src": src, "how": how, "kwargs": kwargs, "cfg": apply_override(cc, kwargs).to_json()}


def run_spec_store(drv, history, d, cfgs0, preds, rows):
    """`spec F o.cfg o.hist t` for `o = origins[i]` (right-hand side of theorem C07_precedence_store) for every
    (converter index i, [type keys]) of `rows` -> {(i, key): hook term}"""
    shape_info(drv)
    ctx0 = ModelCtx(cfgs0[0], d, preds)
    sops, _ = model_ops(history, d, cfgs0)
    parts = [f"(copy {s[1]} {ctx0.cfg_sx(s[2])})" if isinstance(s, tuple) else s for s in sops]
    store = " ".join(ctx0.cfg_sx(cc) for cc in cfgs0)
    others = [ModelCtx(cc, d, preds) for cc in list(cfgs0[1:]) + [s[2] for s in sops if isinstance(s, tuple)]]
    want = " ".join(f"({i} {' '.join(map(str, keys))})" for i, keys in rows)
    r = drv.ask(f"SPECSTORE {ctx0.facts_sx(others)} ({store}) ({' '.join(parts)}) ({want})")
    if not r.startswith("(ok"):
        raise lean.InfraError("model driver (SPECSTORE): " + r[:200])
    out = {}
    for (i, keys), terms in zip(rows, parse_sx(r)[0][1:]):
        for k, t in zip(keys, terms):
            out[(i, k)] = parse_hook(t)
    return out


def in_thread(fn, *args):
    """run `fn(*args)` on a thread of its own and return its result (exceptions are re-raised here).  cattrs keeps
    per-THREAD state while it generates hooks (`already_generating.working_set`); a run that is to serve as a reference for
    another run must not share it."""
    import threading
    box = {}

    def body():
        try:
            box["r"] = fn(*args)
        except BaseException as e:  # noqa: BLE001
            box["e"] = e
    th = threading.Thread(target=body)
    th.start()
    th.join()
    if "e" in box:
        raise box["e"]
    return box["r"]


# --------------------------------------------------------------------------------------------------
# reference implementation of the documented precedence rule (oracle of C07), independent of the model
# --------------------------------------------------------------------------------------------------
def ref_choose(history, d, cc: ConvCfg, preds, key, conv=0, _ctx=None, literal=False):
    """The hook the documented rule selects for type `key` on converter `conv` after `history`
    (registrations of direction `d` on that converter; no copies), as a hook term."""
    ctx = _ctx or ModelCtx(cc, d, preds)
    regs = [op for op in history if op.get("dir") == d and op.get("conv") == conv and op["op"] in ("hook", "func", "factory")]
    sub = lambda c: ref_choose(history, d, cc, preds, c, conv, ctx, literal)  # noqa: E731
    is_exact = lambda k: U.types[k].shape in ("union", "optional", "newtype")  # noqa: E731
    # 1. most specific class of the MRO with a registration; its latest hook (built-ins are the oldest)
    for c in U.mro[key]:
        for op in reversed(regs):
            if op["op"] == "hook" and op["ty"] == c and not is_exact(c):
                return ("user", op["tag"])
        for ck, bid in ctx.single:
            if ck == c:
                return ("builtin", bid)
    # 2. newest predicate hook / factory / exact-type registration accepting the type
    for op in reversed(regs):
        if op["op"] == "hook":
            # `literal`: the property statement read literally puts union structure hooks into this tier too;
            # the implementation (and the rule as documented in the brief) keeps them behind a built-in predicate
            union_st = U.types[op["ty"]].shape in ("union", "optional") and d == ST and not literal
            if is_exact(op["ty"]) and not union_st and op["ty"] == key:
                return ("user", op["tag"])
            continue
        if key in preds[op["pred"]][0]:
            if op["op"] == "func":
                return ("user", op["tag"])
            subs = [sub(c) for c in ctx.comps.get(key, [])] if op["extended"] else []
            return ("made", op["tag"], key, op["extended"], subs)
    # 3. built-in behaviour; union structure hooks sit behind a built-in predicate
    if d == ST and U.types[key].shape in ("union", "optional"):
        for op in reversed(regs):
            if op["op"] == "hook" and op["ty"] == key:
                return ("user", op["tag"])
    if key in ctx.bid:
        b = ctx.beh[ctx.bid[key]]
        if b.kind == "plain" and not b.late:
            return ("builtin", ctx.bid[key])
        return ("made", ctx.bid[key], key, b.kind == "extended", [sub(c) for c in b.comps])
    # 4. fallback factory
    return ("fallback", cc.fb(d), key)


def norm_term(ctx, h):
    """Hook terms modulo what a call cannot distinguish: late built-ins appear as `made` in call trees, and
    the withConv flag of built-in factories is not observable."""
    if h[0] == "made":
        wc = h[3] if h[1] not in ctx.beh else False
        return ("made", h[1], h[2], wc, [norm_term(ctx, s) for s in h[4]])
    return h


# --------------------------------------------------------------------------------------------------
# generation of histories
# --------------------------------------------------------------------------------------------------
REG_TARGETS = ["A", "B", "D", "P", "Q", "E", "Enum", "int", "str", "object", "NA", "NI", "NNI", "UAP", "UAD", "UIS", "OA", "W"]
PROBES = [t.name for t in U.types if t.name not in ("object", "Enum")]


def gen_preds(rng, n=4):
    """Overlapping predicates over the universe: {pid: (accepted keys, keys on which it raises)}; pid 0 is
    reserved (the union-registry entry of the model refers to no table)."""
    preds = {}
    names = [t.name for t in U.types]
    for pid in range(1, n + 1):
        style = rng.random()
        if style < 0.25:  # class-family predicate (issubclass-like)
            base = rng.choice(["A", "P", "int"])
            acc = {t.key for t in U.types if isinstance(t.obj, type) and issubclass(t.obj, U.by_name[base].obj)}
            rais = {t.key for t in U.types if not isinstance(t.obj, type)} if rng.random() < 0.5 else set()
        elif style < 0.45:  # shape predicate
            shp = rng.choice(["list", "union", "newtype", "attrs", "optional"])
            acc = {t.key for t in U.types if t.shape == shp or (shp == "union" and t.shape == "optional")}
            rais = set()
        else:
            acc = {U.k(nm) for nm in names if rng.random() < 0.3}
            rais = {U.k(nm) for nm in names if rng.random() < 0.08} - acc
        preds[pid] = (acc, rais)
    return preds


def gen_shape(rng, extended, f61=0.0):
    """signature shape of a generated factory: the two canonical spellings half of the time, any other shape of the
    same class otherwise; with probability `f61` (C07 only) one of the recorded-finding shapes for a plain factory"""
    if not extended and f61 and rng.random() < f61:
        return rng.choice(shapes.F61)
    if rng.random() < 0.4:
        return "t,c" if extended else "t"
    return rng.choice(shapes.EXTENDED if extended else shapes.PLAIN)


def gen_reg(rng, conv, d, preds, tagger, prev=None, f61=0.0, fraise=0.0):
    """a registration op; `prev` = the ops generated so far: with some probability an earlier registration target
    (same converter and direction; unions and NewTypes preferred) is registered AGAIN with a new hook"""
    if prev and rng.random() < 0.22:
        again = [o for o in prev if o.get("op") == "hook" and o.get("conv") == conv and o.get("dir") == d]
        if again:
            pick = [o for o in again if U.types[o["ty"]].name in ("UAP", "OA", "NA", "UID", "OptP") or "[" in U.types[o["ty"]].name] or again
            o = dict(rng.choice(pick))
            o["tag"] = tagger()
            return o
    r = rng.random()
    if r < 0.45:
        nm = rng.choice(REG_TARGETS)
        if nm == "object" and rng.random() < 0.6:
            nm = rng.choice(["A", "B", "int"])
        op = {"op": "hook", "conv": conv, "dir": d, "ty": U.k(nm), "tag": tagger(), "form": rng.choice(["call", "call", "deco"])}
        if U.by_name[nm].alt is not None and rng.random() < 0.4:
            op["alt"] = True
        return op
    pid = rng.choice(sorted(preds))
    if r < 0.65:
        return {"op": "func", "conv": conv, "dir": d, "pred": pid, "tag": tagger()}
    ext = rng.random() < 0.5
    op = {"op": "factory", "conv": conv, "dir": d, "pred": pid, "tag": tagger(), "extended": ext,
          "form": rng.choice(["call", "deco"]), "shape": gen_shape(rng, ext, f61)}
    if fraise and rng.random() < fraise and preds[pid][0]:
        acc = sorted(preds[pid][0])   # the factory raises on some of the types its predicate accepts
        op["fraise"] = sorted(rng.sample(acc, rng.randint(1, min(3, len(acc)))))
    return op


def gen_warm(rng, conv, d, cc):
    names = [n for n in PROBES if not excluded(cc, d, U.k(n))]
    nm = rng.choice(names)
    r = rng.random()
    op = {"conv": conv, "dir": d, "ty": U.k(nm)}
    if U.by_name[nm].alt is not None and rng.random() < 0.3:
        op["alt"] = True
    if r < 0.5:
        op.update(op="call")
    else:
        op.update(op="get", cached=rng.random() < 0.7, apply=rng.random() < 0.5)
    return op


def probe_ops(conv, d, cc, names=None):
    return [{"op": "call", "conv": conv, "dir": d, "ty": U.k(n), "probe": True}
            for n in (names or PROBES) if not excluded(cc, d, U.k(n))]


def describe(op):
    k = op["op"]
    if k == "copy":
        return f"copy({op['src']},{op.get('how','copy')},{op.get('kwargs',{})})"
    tn = U.types[op["ty"]].name if "ty" in op else ""
    if k == "hook":
        return f"c{op['conv']}.{op['dir']}.hook[{op.get('form','call')}]({tn}{'~' if op.get('alt') else ''})#{op['tag']}"
    if k == "func":
        return f"c{op['conv']}.{op['dir']}.func(p{op['pred']})#{op['tag']}"
    if k == "factory":
        sh = f"<def({op['shape']})>" if op.get("shape") else ""
        if op.get("fraise"):
            sh += f"<raises on {','.join(U.types[k].name for k in op['fraise'])}>"
        return f"c{op['conv']}.{op['dir']}.{'ext' if op['extended'] else ''}factory[{op.get('form','call')}]{sh}(p{op['pred']})#{op['tag']}"
    if k == "get":
        return f"c{op['conv']}.{op['dir']}.get({tn},cached={op.get('cached',True)},apply={op.get('apply',True)})"
    return f"c{op['conv']}.{op['dir']}.call({tn})"


def preds_to_json(preds):
    return {str(p): [sorted(a), sorted(r)] for p, (a, r) in preds.items()}


def preds_from_json(j):
    return {int(p): (set(a), set(r)) for p, (a, r) in j.items()}
