"""Realise an abstract program as real Python classes / typing objects / values, and map
Python results back to abstract objects (the canonicaliser)."""
from __future__ import annotations

import collections
import dataclasses
import enum
import types
import itertools
import typing
from typing import Annotated, Any, Final, Literal, NewType, Optional

import attrs

try:  # TypedDict with NotRequired
    from typing import NotRequired, Required, TypedDict
except ImportError:  # pragma: no cover
    from typing_extensions import NotRequired, Required, TypedDict

_uid = itertools.count()


class Unrepresentable(Exception):
    """A Python value outside the abstract object universe."""


class Opaque:
    """An instance of a class cattrs knows nothing about."""

    __slots__ = ("n",)

    def __init__(self, n):
        self.n = n

    def __repr__(self):
        return f"<Opaque {self.n}>"

    def __eq__(self, other):
        return isinstance(other, Opaque) and other.n == self.n

    def __hash__(self):
        return hash(("Opaque", self.n))


def leaf_val(o):
    t = o[0]
    if t == "N":
        return None
    if t == "b":
        return bool(o[1])
    if t == "i":
        return int(o[1])
    if t == "f":
        return o[1] / 2
    if t == "s":
        return o[1]
    if t == "y":
        return bytes.fromhex(o[1])
    raise ValueError(o)


_injected = []

# the dict subclasses of the abstract universe (exact classes): tag of ('D', tag, kvs)
_DICT_SUBCLASSES = {collections.OrderedDict: "od", collections.defaultdict: "dd", collections.Counter: "ctr"}


def _ident(v):
    return v


def _validate(vk, name, value):
    """the validators of the class-features stream (harness/gen.py: `passes`), on real values"""
    if ((vk == "mod3" and type(value) is int and value % 3 == 0)
            or (vk == "noz" and type(value) is str and value.startswith("z"))
            or (vk == "len2" and isinstance(value, (list, tuple, collections.deque)) and len(value) == 2)):
        raise ValueError(f"{name}: value {value!r} rejected by the validator {vk}")


def _mentions(t, ci):
    if isinstance(t, (list, tuple)):
        if len(t) == 2 and t[0] in ("cls", "td") and t[1] == ci:
            return True
        return any(_mentions(x, ci) for x in t)
    return False


def _td_level(name, part, total, bases=()):
    """one class of a TypedDict hierarchy: its OWN keys `part` under its own totality; a key whose requiredness differs
    from the class's totality carries the explicit marker (`total=` applies to a class's own keys only: inherited keys
    keep the requiredness their class gave them)"""
    anns = {n: (t if r == total else (Required[t] if r else NotRequired[t])) for n, t, r in part}
    kw = {} if total else {"total": False}
    return types.new_class(name, bases or (TypedDict,), kw, lambda ns: ns.update({"__annotations__": anns}))


def make_typeddict(name, fs, style):
    """The same abstract TypedDict (fs = [(key, type, required)]; the model sees this flat list) spelled in one of the
    ways Python offers:
    0: total + NotRequired[...];  1: total=False + Required[...];  2: a total=False subclass of a total base (only when
    the required keys come first, so that declaration order is kept);
    MIXED-TOTALITY INHERITANCE with markers (declaration order kept: the base takes a prefix of the keys):
    3: total base + total=False child;  4: total=False base + total child;  5: three levels, totality alternating
    (total, total=False, total).  Keys that disagree with their class's totality are spelled Required / NotRequired."""
    reqs = [r for _, _, r in fs]
    if style in (3, 4, 5) and len(fs) >= 2:
        if style == 5 and len(fs) >= 3:
            i, j = 1, max(2, (len(fs) + 1) // 2)
            b0 = _td_level(name + "B0", fs[:i], True)
            b1 = _td_level(name + "B1", fs[i:j], False, (b0,))
            return _td_level(name, fs[j:], True, (b1,))
        i = max(1, len(fs) // 2)
        base_total = style != 4
        base = _td_level(name + "B", fs[:i], base_total)
        return _td_level(name, fs[i:], not base_total, (base,))
    if style in (3, 4, 5):
        style = style % 2
    if style == 2 and (sorted(reqs, reverse=True) != reqs or all(reqs) or not any(reqs)):
        style = 0
    if style == 0:
        return TypedDict(name, {n: (t if r else NotRequired[t]) for n, t, r in fs})
    if style == 1:
        return TypedDict(name, {n: (Required[t] if r else t) for n, t, r in fs}, total=False)
    base = TypedDict(name + "B", {n: t for n, t, r in fs if r})
    return types.new_class(name, (base,), {"total": False},
                           lambda ns: ns.update({"__annotations__": {n: t for n, t, r in fs if not r}}))


class Realised:
    def __init__(self, world, kw_only_seed=None):
        self.world = world
        self.uid = next(_uid)
        self.enums = []
        self.classes = []
        self._cls_index = {}
        self._enum_index = {}
        self._ty_cache = {}
        self._building = None
        for ei, members in enumerate(world["enums"]):
            e = enum.Enum(f"E{ei}", {f"M{mi}": leaf_val(v) for mi, v in enumerate(members)})
            self.enums.append(e)
            self._enum_index[e] = ei
        for ci, c in enumerate(world["classes"]):
            cl = self._make_class(ci, c)
            self.classes.append(cl)
            self._cls_index[cl] = ci

    # ------------------------------------------------------------------ classes
    def _default(self, d, ty=None):
        """-> (is_factory, python default or factory)"""
        if d is None:
            return None
        kind, v = d
        if kind == "c":
            return ("c", self.val(v))
        return ("fac", (lambda v=v: self.fix_factories(ty, self.val(v))))

    def _make_class(self, ci, c):
        self._building = ci
        self._building_style = c.get("recursive")
        try:
            cl = self._make_class2(ci, c)
        finally:
            self._building = None
        if c.get("recursive") == "name" or c.get("strann"):
            # forward references by name / stringified annotations are resolved in the namespace of the defining module
            cl.__module__ = __name__
            self._inject(cl, cl.__name__)
        return cl

    def _inject(self, obj, name=None):
        """make obj available under a name in this module's namespace (where string annotations are evaluated)"""
        if name is None:
            name = f"_T{self.uid}_{next(_uid)}"
        if globals().get(name) is not obj:
            globals()[name] = obj
            _injected.append(name)
            while len(_injected) > 4000:
                globals().pop(_injected.pop(0), None)
        return name

    def _fty(self, c, f):
        """the annotation of a field: the type object, or (classes with stringified annotations) its source text"""
        if c.get("strann"):
            return self._ty_src(f["ty"]) if f["ty"] is not None else "typing.Any"
        return self.ty(f["ty"]) if f["ty"] is not None else Any

    def _make_class2(self, ci, c):
        name = f"K{self.uid}_{ci}"
        kind = c["kind"]
        if kind == "td":
            fs = [(f["name"], self.ty(f["ty"]) if f["ty"] is not None else Any, f.get("required", True)) for f in c["fields"]]
            # (a self-referential TypedDict stays one class: `Self` / a forward reference inside a BASE would name the base)
            return make_typeddict(name, fs, (self.uid + ci) % (3 if c.get("recursive") else 6))
        if kind == "nt":
            # `class K(NamedTuple): a: T1; b: T2 = d` (class syntax, so that defaults are possible); every other
            # class is spelled through the functional form `NamedTuple(name, [...])`
            anns = {f["name"]: self.ty(f["ty"]) if f["ty"] is not None else Any for f in c["fields"]}
            dfl = {f["name"]: self.val(f["dflt"][1]) for f in c["fields"] if f["dflt"] is not None}
            if not dfl and (self.uid + ci) % 2 == 0:
                return typing.NamedTuple(name, list(anns.items()))

            def body(ns):
                ns["__module__"] = __name__
                ns["__annotations__"] = anns
                ns.update(dfl)

            return types.new_class(name, (typing.NamedTuple,), {}, body)
        bases = (self.classes[c["base"]],) if c.get("base") is not None else None
        feats = c.get("features") or {}
        if feats.get("syntax") or any(f.get("validator") or f.get("explicit_alias") or f.get("takes_self")
                                      for f in c["fields"] if not f.get("inherited")) or feats.get("eq") is False:
            return self._make_class_src(ci, c, name, bases, feats)
        if kind == "attrs":
            flds = {}
            for f in c["fields"]:
                if f.get("inherited"):
                    continue
                kw = {}
                d = self._default(f["dflt"], f["ty"])
                if d is not None:
                    if d[0] == "c":
                        kw["default"] = d[1]
                    else:
                        kw["factory"] = d[1]
                if not f["init"]:
                    kw["init"] = False
                if f.get("kw_only"):
                    kw["kw_only"] = True
                if f["ty"] is not None:
                    kw["type"] = Final if f.get("bare_final") else self._fty(c, f)
                if f.get("idconv"):
                    kw["converter"] = _ident
                flds[f["name"]] = attrs.field(**kw)
            if bases:
                return attrs.make_class(name, flds, bases=bases, frozen=c["frozen"], slots=c.get("slots", True))
            return attrs.make_class(name, flds, frozen=c["frozen"], slots=c.get("slots", True))
        if kind == "dc":
            flds = []
            for f in c["fields"]:
                if f.get("inherited"):
                    continue
                kw = {}
                d = self._default(f["dflt"], f["ty"])
                if d is not None:
                    if d[0] == "c":
                        kw["default"] = d[1]
                    else:
                        kw["default_factory"] = d[1]
                if not f["init"]:
                    kw["init"] = False
                if f.get("kw_only"):
                    kw["kw_only"] = True
                t = self._fty(c, f)
                if f.get("bare_final"):
                    t = Final
                flds.append((f["name"], t, dataclasses.field(**kw)))
            if bases:
                return dataclasses.make_dataclass(name, flds, bases=bases, frozen=c["frozen"])
            return dataclasses.make_dataclass(name, flds, frozen=c["frozen"])
        raise ValueError(kind)

    def _make_class_src(self, ci, c, name, bases, feats):
        """the class written as SOURCE (class body + decorator, or make_class for the features that do not need a body):
        `@attrs.define`, `@attr.s(auto_attribs=True)`, `@dataclasses.dataclass`, with explicit aliases,
        `Factory(takes_self=True)`, validators, `__attrs_post_init__` / `__post_init__`, ClassVar / InitVar pseudo-fields,
        class-level kw_only / eq / slots, a hand-written `__init__` that forwards to `__attrs_init__`"""
        import attr
        kind = c["kind"]
        syntax = feats.get("syntax") or ("define" if kind == "attrs" else "dataclass")
        own = [f for f in c["fields"] if not f.get("inherited")]
        ns = {"attrs": attrs, "attr": attr, "dataclasses": dataclasses, "typing": typing, "_ident": _ident,
              "_Base": bases[0] if bases else object}
        lines = []
        dec = []
        if c["frozen"]:
            dec.append("frozen=True")
        if feats.get("eq") is False:
            dec.append("eq=False")
        if feats.get("kw_only_cls"):
            dec.append("kw_only=True")
        if kind == "attrs":
            dec.append("slots=%r" % bool(c.get("slots", True)))
            if feats.get("custom_init"):
                dec.append("init=False")
            lines.append(("@attrs.define(%s)" if syntax == "define" else "@attr.s(auto_attribs=True, %s)") % ", ".join(dec))
            fld = "attrs.field" if syntax == "define" else "attr.ib"
        else:
            if feats.get("dc_slots"):
                dec.append("slots=True")
            lines.append("@dataclasses.dataclass(%s)" % ", ".join(dec))
            fld = "dataclasses.field"
        lines.append(f"class {name}(_Base):" if bases else f"class {name}:")
        for i, (cv, v) in enumerate(feats.get("classvars", [])):
            ns[f"_CV{i}"] = self.val(v)
            lines.append(f"    {cv}: typing.ClassVar[typing.Any] = _CV{i}")
        for i, f in enumerate(own):
            kw = []
            d = self._default(f["dflt"], f["ty"])
            if d is not None:
                ns[f"_D{i}"] = d[1]
                if d[0] == "c":
                    kw.append(f"default=_D{i}")
                elif kind == "attrs" and f.get("takes_self"):
                    ns[f"_D{i}"] = attrs.Factory((lambda self, fac=d[1]: fac()), takes_self=True)
                    kw.append(f"default=_D{i}")
                else:
                    kw.append(("factory" if kind == "attrs" else "default_factory") + f"=_D{i}")
            if not f["init"]:
                kw.append("init=False")
            if f.get("kw_only") and not feats.get("kw_only_cls"):
                kw.append("kw_only=True")
            if kind == "attrs":
                if f.get("explicit_alias"):
                    kw.append("alias=%r" % f["alias"])
                if f.get("idconv"):
                    kw.append("converter=_ident")
                if f.get("validator") and f.get("validator_in") != "post_init":
                    ns[f"_V{i}"] = (lambda inst, attrib, value, vk=f["validator"]: _validate(vk, attrib.name, value))
                    kw.append(f"validator=_V{i}")
            ns[f"_T{i}"] = Final if f.get("bare_final") else self._fty(c, f)
            lines.append(f"    {f['name']}: _T{i}" + (f" = {fld}({', '.join(kw)})" if kw or kind == "attrs" else ""))
        ivs = feats.get("initvars", [])
        for i, (iv, v) in enumerate(ivs):
            ns[f"_IV{i}"] = self.val(v)
            lines.append(f"    {iv}: dataclasses.InitVar[int] = dataclasses.field(default=_IV{i}, kw_only=True)")
        post = [(f["name"], f["validator"]) for f in c["fields"] if f.get("validator") and f.get("validator_in") == "post_init"]
        if post or ivs:
            ns["_validate"] = _validate
            lines.append("    def %s(self%s):" % ("__attrs_post_init__" if kind == "attrs" else "__post_init__",
                                                  "".join(", " + iv for iv, _ in ivs)))
            for n, vk in post:
                lines.append(f"        _validate({vk!r}, {n!r}, self.{n})")
            lines.append("        pass")
        if feats.get("custom_init"):
            # hand-written __init__: the parameters attrs would generate (aliases, declaration order, keyword-only ones
            # after `*`), forwarded to `__attrs_init__`
            pos = [f for f in c["fields"] if f["init"] and not f.get("kw_only")]
            kwo = [f for f in c["fields"] if f["init"] and f.get("kw_only")]
            sig = ["self"] + [f["alias"] + ("=attrs.NOTHING" if f["dflt"] is not None else "") for f in pos]
            if kwo:
                sig += ["*"] + [f["alias"] + ("=attrs.NOTHING" if f["dflt"] is not None else "") for f in kwo]
            lines.append("    def __init__(%s):" % ", ".join(sig))
            lines.append("        kw = {k: v for k, v in (%s) if v is not attrs.NOTHING}" %
                         "".join("(%r, %s), " % (f["alias"], f["alias"]) for f in pos + kwo))
            lines.append("        self.__attrs_init__(**kw)")
        if not own and not feats.get("classvars") and not ivs and not post and not feats.get("custom_init"):
            lines.append("    pass")
        src = "\n".join(lines) + "\n"
        exec(compile(src, f"<realised {name}>", "exec", dont_inherit=True), ns)
        cl = ns[name]
        cl.__module__ = __name__
        cl._verif_src = src
        return cl

    # ------------------------------------------------------------------ types
    def ty(self, t):
        if self._building is not None and _mentions(t, self._building):
            if self._building_style == "name":
                return self._ty_src(t)  # the whole annotation as a string, as a user would write a forward reference
            return self._ty(t)  # contains typing.Self for the class under construction: never cached
        key = repr(t)
        if key in self._ty_cache:
            return self._ty_cache[key]
        r = self._ty(t)
        self._ty_cache[key] = r
        return r

    def _ty(self, t):
        if isinstance(t, str):
            return {"any": Any, "int": int, "float": float, "str": str, "bytes": bytes, "bool": bool}[t]
        k = t[0]
        if k == "enum":
            return self.enums[t[1]]
        if k == "lit":
            # (literal values are leaves or members of the world's enums)
            return Literal[tuple(self.val(v) if v[0] == "e" else leaf_val(v) for v in t[1])]
        if k == "list":
            return list[self.ty(t[1])]
        if k == "seq":
            return typing.Sequence[self.ty(t[1])]
        if k == "mseq":
            return typing.MutableSequence[self.ty(t[1])]
        if k == "tup*":
            return tuple[self.ty(t[1]), ...]
        if k == "deque":
            return collections.deque[self.ty(t[1])]
        if k == "set":
            return set[self.ty(t[1])]
        if k == "mset":
            return typing.MutableSet[self.ty(t[1])]
        if k == "fset":
            return frozenset[self.ty(t[1])]
        if k == "tup":
            if not t[1]:
                return tuple[()]
            return tuple[tuple(self.ty(x) for x in t[1])]
        if k == "dict":
            return dict[self.ty(t[1]), self.ty(t[2])]
        if k == "map":
            return typing.Mapping[self.ty(t[1]), self.ty(t[2])]
        if k == "mmap":
            return typing.MutableMapping[self.ty(t[1]), self.ty(t[2])]
        if k in ("odict", "ddict", "counter"):
            # collections.X[...] or the typing alias of the same class (per world and type)
            alt = (self.uid + len(repr(t))) % 2 == 0
            if k == "odict":
                return (typing.OrderedDict if alt else collections.OrderedDict)[self.ty(t[1]), self.ty(t[2])]
            if k == "ddict":
                return (typing.DefaultDict if alt else collections.defaultdict)[self.ty(t[1]), self.ty(t[2])]
            return (typing.Counter if alt else collections.Counter)[self.ty(t[1])]
        if k == "opt":
            inner = self.ty(t[1])
            style = (self.uid + len(repr(t))) % 3
            if style == 0:
                return typing.Union[None, inner]  # None-first spelling of the same Optional
            if style == 2 and not (self._building is not None and _mentions(t, self._building)):
                # (not around `typing.Self`: cattrs does not substitute `Self` inside a types.UnionType -- recorded
                # finding F52, reproduced by a dedicated probe in props/c01.py -- every recursive class would hit it)
                try:
                    return inner | None  # PEP 604 spelling: a types.UnionType object (no __name__, no __origin__)
                except TypeError:
                    pass  # e.g. a string forward reference
            return Optional[inner]
        if k == "new":
            return NewType(f"NT{self.uid}_{len(self._ty_cache)}", self.ty(t[1]))
        if k == "ann":
            return Annotated[self.ty(t[1]), "meta"]
        if k == "final":
            return Final[self.ty(t[1])]
        if k == "alias":
            return typing.TypeAliasType(f"TA{self.uid}_{len(self._ty_cache)}", self.ty(t[1]))
        if k == "cls" or k == "td" or k == "nt":
            if t[1] == self._building:
                return typing.Self
            return self.classes[t[1]]
        if k == "union":
            ms = [self.classes[c] for c in t[1]]
            style = (self.uid + len(repr(t))) % 4
            if style == 3:
                # PEP 604 spelling `A | B` / `A | B | None`: a types.UnionType object
                u = ms[0]
                for m in ms[1:]:
                    u = u | m
                return (u | None) if t[2] else u
            if t[2]:
                # Optional[Union[...]], None first, None in the middle: the same union
                if style == 0:
                    return Optional[typing.Union[tuple(ms)]]
                ms.insert(0 if style == 1 else 1, type(None))
            return typing.Union[tuple(ms)]
        raise ValueError(t)

    def _ty_src(self, t):
        """Python source of a (recursive) annotation; evaluated later in this module's namespace"""
        if isinstance(t, str):
            return {"any": "typing.Any"}.get(t, t)
        k = t[0]
        if k in ("cls", "td", "nt"):
            if t[1] != self._building and t[1] < len(self.classes):
                self._inject(self.classes[t[1]], self.classes[t[1]].__name__)
            return f"K{self.uid}_{t[1]}"
        one = {"list": "list[%s]", "seq": "typing.Sequence[%s]", "mseq": "typing.MutableSequence[%s]", "tup*": "tuple[%s, ...]",
               "opt": "typing.Optional[%s]", "deque": "collections.deque[%s]", "set": "set[%s]",
               "mset": "typing.MutableSet[%s]", "fset": "frozenset[%s]", "final": "typing.Final[%s]",
               "ann": "typing.Annotated[%s, 'meta']", "counter": "collections.Counter[%s]"}
        if k in one:
            return one[k] % self._ty_src(t[1])
        two = {"dict": "dict[%s, %s]", "map": "typing.Mapping[%s, %s]", "mmap": "typing.MutableMapping[%s, %s]",
               "odict": "collections.OrderedDict[%s, %s]", "ddict": "collections.defaultdict[%s, %s]"}
        if k in two:
            return two[k] % (self._ty_src(t[1]), self._ty_src(t[2]))
        if k == "tup":
            return "tuple[%s]" % (", ".join(self._ty_src(x) for x in t[1]) if t[1] else "()")
        if self._building is not None and _mentions(t, self._building):
            raise Unrepresentable(t)
        # enums, literals, NewTypes, type aliases, unions: the realised object under a module-level name (as user code
        # would refer to `Color`, `UserId`, ...)
        return self._inject(self.ty(t))

    # ------------------------------------------------------------------ values
    def val(self, o):
        t = o[0]
        if t in ("N", "b", "i", "f", "s", "y"):
            return leaf_val(o)
        if t == "e":
            return list(self.enums[o[1]])[o[2]]
        if t == "l":
            return [self.val(x) for x in o[1]]
        if t == "t":
            return tuple(self.val(x) for x in o[1])
        if t == "q":
            return collections.deque(self.val(x) for x in o[1])
        if t == "S":
            return {self.val(x) for x in o[1]}
        if t == "F":
            return frozenset(self.val(x) for x in o[1])
        if t == "d":
            return {self.val(k): self.val(v) for k, v in o[1]}
        if t == "D":
            d = {self.val(k): self.val(v) for k, v in o[2]}
            if o[1] == "od":
                return collections.OrderedDict(d)
            if o[1] == "dd":
                # (the default_factory of an INPUT is irrelevant to unstructuring; the oracles check the factory of results)
                return collections.defaultdict(None, d)
            return collections.Counter(d)
        if t == "I":
            cl = self.classes[o[1]]
            c = self.world["classes"][o[1]]
            kwargs = {}
            post = {}
            for f, (n, v) in zip(c["fields"], o[2]):
                if f["init"]:
                    kwargs[f["alias"]] = self.val(v)
                else:
                    post[f["name"]] = self.val(v)
            inst = cl(**kwargs)
            for n, v in post.items():
                if getattr(inst, n) != v:
                    object.__setattr__(inst, n, v)
            return inst
        if t == "o":
            return Opaque(o[1])
        raise ValueError(o)

    def _ddicts(self, t, v, _depth=0):
        """yield (type, value) for every `defaultdict[K, V]` position of t met in v (type-directed walk)"""
        if isinstance(t, str) or t is None or _depth > 12:
            return
        world = self.world
        k = t[0]
        if k == "ddict":
            yield (t, v)
        if k in ("list", "seq", "mseq", "tup*", "deque", "set", "mset", "fset"):
            items = [(t[1], e) for e in v] if isinstance(v, (list, tuple, set, frozenset, collections.deque)) else []
        elif k == "tup":
            items = list(zip(t[1], v)) if isinstance(v, tuple) else []
        elif k in ("dict", "map", "mmap", "odict", "ddict"):
            items = [(t[2], e) for e in v.values()] if isinstance(v, dict) else []
        elif k in ("opt", "new", "ann", "final", "alias"):
            items = [(t[1], v)] if v is not None else []
        elif k in ("cls", "nt"):
            items = [(f["ty"], getattr(v, f["name"], None)) for f in world["classes"][t[1]]["fields"]] \
                if type(v) is self.classes[t[1]] else []
        elif k == "td":
            items = [(f["ty"], v[f["name"]]) for f in world["classes"][t[1]]["fields"] if f["name"] in v] \
                if isinstance(v, dict) else []
        elif k == "union":
            items = [(("cls", m), v) for m in t[1] if type(v) is self.classes[m]]
        else:
            items = []
        for t2, e in items:
            yield from self._ddicts(t2, e, _depth + 1)

    def factories_ok(self, t, v):
        """the `default_factory` rule of defaultdict types: every defaultdict met in v at a `defaultdict[K, V]` position
        of t has `default_factory == V` (`defaultdict_structure_factory`: "the value type parameter will be used as the
        default factory").  Returns the first offending (type, value) or None."""
        for t2, e in self._ddicts(t, v):
            if isinstance(e, collections.defaultdict) and e.default_factory != self.ty(t2[2]):
                return (t2, e)
        return None

    def fix_factories(self, t, v):
        """make a realised value a genuine value of t: its defaultdicts get the declared value type as default_factory"""
        for t2, e in self._ddicts(t, v):
            if isinstance(e, collections.defaultdict):
                e.default_factory = self.ty(t2[2])
        return v

    def abs_un(self, v):
        """python value -> abstract object, for UNSTRUCTURED data: an instance of a NamedTuple class that passed
        through (nothing to convert) counts as the tuple it is"""
        return self.abs(v, nt_as_tuple=True)

    def abs(self, v, nt_as_tuple=False):
        """python value -> abstract object (exact classes)"""
        if v is None:
            return ("N",)
        cl = v.__class__
        if nt_as_tuple:
            if cl in self._cls_index and self.world["classes"][self._cls_index[cl]]["kind"] == "nt":
                return ("t", [self.abs(x, True) for x in v])
            if cl in (list, tuple, collections.deque, set, frozenset):
                tag = {list: "l", tuple: "t", collections.deque: "q", set: "S", frozenset: "F"}[cl]
                return (tag, [self.abs(x, True) for x in v])
            if cl is dict:
                return ("d", [(self.abs(k, True), self.abs(x, True)) for k, x in v.items()])
            if cl in _DICT_SUBCLASSES:
                return ("D", _DICT_SUBCLASSES[cl], [(self.abs(k, True), self.abs(x, True)) for k, x in v.items()])
            if cl in self._cls_index:
                ci = self._cls_index[cl]
                try:
                    return ("I", ci, [(f["name"], self.abs(getattr(v, f["name"]), True))
                                      for f in self.world["classes"][ci]["fields"]])
                except AttributeError:
                    raise Unrepresentable(v) from None
        if cl is bool:
            return ("b", v)
        if cl is int:
            return ("i", v)
        if cl is float:
            d = v * 2
            if d != d or d in (float("inf"), float("-inf")) or not d.is_integer():
                raise Unrepresentable(v)
            return ("f", int(d))
        if cl is str:
            return ("s", v)
        if cl is bytes:
            return ("y", v.hex())
        if cl in self._enum_index:
            return ("e", self._enum_index[cl], list(cl).index(v))
        if cl is list:
            return ("l", [self.abs(x) for x in v])
        if cl is tuple:
            return ("t", [self.abs(x) for x in v])
        if cl is collections.deque:
            return ("q", [self.abs(x) for x in v])
        if cl is set:
            return ("S", [self.abs(x) for x in v])
        if cl is frozenset:
            return ("F", [self.abs(x) for x in v])
        if cl is dict:
            return ("d", [(self.abs(k), self.abs(x)) for k, x in v.items()])
        if cl in _DICT_SUBCLASSES:
            return ("D", _DICT_SUBCLASSES[cl], [(self.abs(k), self.abs(x)) for k, x in v.items()])
        if cl in self._cls_index:
            ci = self._cls_index[cl]
            fs = []
            for f in self.world["classes"][ci]["fields"]:
                try:
                    fs.append((f["name"], self.abs(getattr(v, f["name"]))))
                except AttributeError:
                    raise Unrepresentable(v) from None
            return ("I", ci, fs)
        if cl is Opaque:
            return ("o", v.n)
        raise Unrepresentable(v)
