"""Ad-hoc exploration: compare UN / ST between the implementation and the model."""
import random, sys, collections
from harness import gen, terms, lean
from harness.datapath import *

def main(seed=0, n_worlds=100):
    rng = random.Random(seed)
    G = gen.Gen(rng)
    drv = lean.Driver()
    stats = collections.Counter()
    shown = 0
    for wi in range(n_worlds):
        w = G.world()
        try:
            S = Session(drv, w)
        except Exception as e:
            stats['world-fail'] += 1
            if shown < 10:
                shown += 1; print('WORLD FAIL', repr(e)[:300], terms.world_sx(w)[:400])
            continue
        for ti in range(6):
            ty = G.type(w, rng.randint(0, 3))
            for vi in range(2):
                x = G.value(w, ty, 3, any_stable=True)
                try:
                    xv, x = S.realise(x)
                except Exception as e:
                    stats['realise-fail'] += 1
                    continue
                for cfg in ALL_CFGS:
                    if not gen.supported(cfg, w, ty):
                        stats['unsupported'] += 1
                        continue
                    try:
                        ri = S.impl_un(cfg, ty, x)
                    except Exception as e:
                        stats['realise-fail'] += 1
                        if shown < 10:
                            shown += 1; print('REALISE FAIL', repr(e)[:200], terms.ty_sx(ty), terms.obj_sx(x))
                        break
                    rm = S.model_un(cfg, ty, x)
                    km = reply_kind(rm)
                    if km == 'unmodelled':
                        stats['un-unmodelled'] += 1; continue
                    if ri[0] != 'ok' or km != 'ok' or terms.canon_sx(ri[1]) != reply_canon(rm):
                        stats['UN-MISMATCH'] += 1
                        if shown < 15:
                            shown += 1
                            print('UN MISMATCH', cfg_name(cfg), terms.ty_sx(ty), terms.obj_sx(x), '\n   impl', ri[0], terms.canon_sx(ri[1]) if ri[0]=='ok' else repr(ri[1])[:200], '\n   model', rm[:300], '\n   world', terms.world_sx(w)[:600])
                        continue
                    stats['un-agree'] += 1
                    # structure back
                    payload = ri[1]
                    si = S.impl_st(cfg, ty, payload)
                    sm = S.model_st(cfg, ty, payload)
                    ks = reply_kind(sm)
                    if ks == 'unmodelled':
                        stats['st-unmodelled'] += 1; continue
                    if si[0] == 'unrep':
                        stats['st-unrep'] += 1; continue
                    same = (si[0] == ks) and (si[0] != 'ok' or terms.canon_sx(si[1]) == reply_canon(sm))
                    if not same:
                        stats['ST-MISMATCH'] += 1
                        if shown < 15:
                            shown += 1
                            print('ST MISMATCH', cfg_name(cfg), terms.ty_sx(ty), terms.obj_sx(payload), '\n   impl', si[0], terms.canon_sx(si[1]) if si[0]=='ok' else repr(si[1])[:300], '\n   model', sm[:300], '\n   world', terms.world_sx(w)[:600])
                        continue
                    stats['st-agree'] += 1
                    if si[0] == 'ok' and terms.canon_sx(si[1]) != terms.canon_sx(x):
                        stats['ROUNDTRIP-FAIL'] += 1
                        if shown < 15:
                            shown += 1
                            print('ROUNDTRIP FAIL', cfg_name(cfg), terms.ty_sx(ty), terms.obj_sx(x), '->', terms.canon_sx(si[1]))
                    elif si[0] != 'ok':
                        stats['ROUNDTRIP-ERR'] += 1
                        if shown < 15:
                            shown += 1
                            print('ROUNDTRIP ERR', cfg_name(cfg), terms.ty_sx(ty), terms.obj_sx(x), repr(si[1])[:300], '\n  world', terms.world_sx(w)[:600])
                    # mutated payloads
                    for mi in range(2):
                        p2 = G.mutate(w, payload, rng.randint(1, 2))
                        try:
                            p2v, p2 = S.realise(p2)
                            si = S.impl_st(cfg, ty, p2, payload=p2v)
                        except Exception as e:
                            stats['mut-realise-fail'] += 1; continue
                        sm = S.model_st(cfg, ty, p2)
                        ks = reply_kind(sm)
                        if ks == 'unmodelled':
                            stats['mut-unmodelled'] += 1; continue
                        if si[0] == 'unrep':
                            stats['mut-unrep'] += 1; continue
                        same = (si[0] == ks) and (si[0] != 'ok' or terms.canon_sx(si[1]) == reply_canon(sm))
                        if not same:
                            stats['MUT-MISMATCH'] += 1
                            if shown < 15:
                                shown += 1
                                print('MUT MISMATCH', cfg_name(cfg), terms.ty_sx(ty), terms.obj_sx(p2), '\n   impl', si[0], terms.canon_sx(si[1]) if si[0]=='ok' else repr(si[1])[:300], '\n   model', sm[:300], '\n   world', terms.world_sx(w)[:600])
                        else:
                            stats['mut-agree-' + si[0]] += 1
    print(dict(stats))
    drv.close()

if __name__ == '__main__':
    main(int(sys.argv[1]) if len(sys.argv) > 1 else 0, int(sys.argv[2]) if len(sys.argv) > 2 else 100)
