"""Signature SHAPES of hook factories (dispatch checks C07 / C08 / C18).

Property C07: "Factories receive T (and the converter when they ask for it)".  The documentation of
`register_*_hook_factory` pins what asking means: "The hook factory may expose an additional required parameter.  In
this case, the current converter will be provided to the hook factory as that parameter."  So a factory asks for the
converter iff `inspect.signature(factory)` has a SECOND parameter that can be filled positionally and has no default --
whatever else follows (optional parameters, `*args`, `**kwargs`, keyword-only parameters), and whatever kind of callable
it is (function, lambda, bound / class / static method, callable instance, class, `functools.partial`).

Every shape is a builder `build(core) -> factory` around one normalised body `core(t, converter=NOCONV, extra=False)`:
the body is told what the factory was actually called with (`NOCONV` = nothing arrived in the converter position,
`extra` = anything else arrived that the documented call does not pass).  `asks` is DECLARED per shape from the
documentation (and cross-checked against `doc_rule`, an independent reading of the signature, at import; the Lean
model's `Sig.asksConverter` is cross-checked against it by `dispatch_common.shape_info`).

`f61`: shapes whose second parameter is `*args` / `**kwargs` -- they do not ask, cattrs files them as converter-taking
(recorded finding F61); `callable_by_cattrs=False` marks the one that then cannot be called at all.
"""
import functools
import inspect

NOCONV = type("NOCONV", (), {"__repr__": lambda self: "NOCONV"})()
BOUND = "bound-by-partial"


class Shape:
    def __init__(self, name, asks, build, f61=False, callable_by_cattrs=True):
        self.name, self.asks, self.build, self.f61, self.callable_by_cattrs = name, asks, build, f61, callable_by_cattrs


SHAPES = {}


def _shape(name, asks, f61=False, callable_by_cattrs=True):
    def deco(build):
        SHAPES[name] = Shape(name, asks, build, f61, callable_by_cattrs)
        return build
    return deco


def _x(a=(), k=None):
    return bool(a) or bool(k)


# ---- plain factories: no additional REQUIRED parameter --------------------------------------------------------------
@_shape("t", False)
def _(core):
    def fac(t):
        return core(t)
    return fac


@_shape("t,/", False)
def _(core):
    def fac(t, /):
        return core(t)
    return fac


@_shape("t,c=None", False)
def _(core):
    def fac(t, c=NOCONV):
        return core(t, c)
    return fac


@_shape("t,c=None,**k", False)
def _(core):
    def fac(t, c=NOCONV, **k):
        return core(t, c, _x(k=k))
    return fac


@_shape("t,c=None,*a", False)
def _(core):
    def fac(t, c=NOCONV, *a):
        return core(t, c, _x(a))
    return fac


@_shape("t,c=None,*a,**k", False)
def _(core):
    def fac(t, c=NOCONV, *a, **k):
        return core(t, c, _x(a, k))
    return fac


@_shape("t,/,c=None,**k", False)
def _(core):
    def fac(t, /, c=NOCONV, **k):
        return core(t, c, _x(k=k))
    return fac


@_shape("t,*,flag=False", False)
def _(core):
    def fac(t, *, flag=False):
        return core(t, NOCONV, flag is not False)
    return fac


@_shape("t,*,flag=False,**k", False)
def _(core):
    def fac(t, *, flag=False, **k):
        return core(t, NOCONV, flag is not False or _x(k=k))
    return fac


@_shape("t,c=None,*,key=1,**k", False)
def _(core):
    def fac(t, c=NOCONV, *, key=1, **k):
        return core(t, c, key != 1 or _x(k=k))
    return fac


@_shape("*a", False)
def _(core):
    def fac(*a):
        return core(a[0], a[1] if len(a) > 1 else NOCONV, len(a) > 2)
    return fac


@_shape("lambda t", False)
def _(core):
    return lambda t: core(t)


@_shape("lambda t,c=None,**k", False)
def _(core):
    return lambda t, c=NOCONV, **k: core(t, c, _x(k=k))


@_shape("obj.__call__(t)", False)
def _(core):
    class Fac:
        def __call__(self, t):
            return core(t)
    return Fac()


@_shape("obj.__call__(t,c=None,**k)", False)
def _(core):
    class Fac:
        def __call__(self, t, c=NOCONV, **k):
            return core(t, c, _x(k=k))
    return Fac()


@_shape("obj.method(t)", False)
def _(core):
    class Holder:
        def make(self, t):
            return core(t)
    return Holder().make


@_shape("obj.method(t,c=None,*a)", False)
def _(core):
    class Holder:
        def make(self, t, c=NOCONV, *a):
            return core(t, c, _x(a))
    return Holder().make


@_shape("cls.classmethod(t)", False)
def _(core):
    class Holder:
        @classmethod
        def make(cls, t):
            return core(t)
    return Holder.make


@_shape("cls.staticmethod(t,c=None,**k)", False)
def _(core):
    class Holder:
        @staticmethod
        def make(t, c=NOCONV, **k):
            return core(t, c, _x(k=k))
    return Holder.make


@_shape("partial(g,'x')(t)", False)
def _(core):
    def g(x, t):
        return core(t, NOCONV, x != "x")
    return functools.partial(g, "x")


@_shape("partial(f,c=bound)(t)", False)
def _(core):
    def f(t, c):
        return core(t, NOCONV if c is BOUND else c)
    return functools.partial(f, c=BOUND)


@_shape("partial(f,key=1)(t,c=None)", False)
def _(core):
    def f(t, c=NOCONV, *, key):
        return core(t, c, key != 1)
    return functools.partial(f, key=1)


@_shape("t:'str-annotated',c:'..'=None,**k", False)
def _(core):
    def fac(t: "NoSuchName", c: "NoSuchName2" = NOCONV, **k: "NoSuchName3") -> "NoSuchName4":  # noqa: F821
        return core(t, c, _x(k=k))
    return fac


# ---- recorded finding F61: the second parameter is *args / **kwargs (does not ask; filed as converter-taking) --------
@_shape("t,*a", False, f61=True)
def _(core):
    def fac(t, *a):
        return core(t, a[0] if a else NOCONV, len(a) > 1)
    return fac


@_shape("*a,**k", False, f61=True)
def _(core):
    def fac(*a, **k):
        return core(a[0], a[1] if len(a) > 1 else NOCONV, len(a) > 2 or _x(k=k))
    return fac


@_shape("t,**k", False, f61=True, callable_by_cattrs=False)
def _(core):
    def fac(t, **k):
        return core(t, NOCONV, _x(k=k))
    return fac


# ---- extended factories: an additional required parameter ----------------------------------------------------------
@_shape("t,c", True)
def _(core):
    def fac(t, c):
        return core(t, c)
    return fac


@_shape("t,c,/", True)
def _(core):
    def fac(t, c, /):
        return core(t, c)
    return fac


@_shape("t,/,c", True)
def _(core):
    def fac(t, /, c):
        return core(t, c)
    return fac


@_shape("t,c,*,flag=False", True)
def _(core):
    def fac(t, c, *, flag=False):
        return core(t, c, flag is not False)
    return fac


@_shape("t,c,x=1", True)
def _(core):
    def fac(t, c, x=1):
        return core(t, c, x != 1)
    return fac


@_shape("t,c,*a", True)
def _(core):
    def fac(t, c, *a):
        return core(t, c, _x(a))
    return fac


@_shape("t,c,**k", True)
def _(core):
    def fac(t, c, **k):
        return core(t, c, _x(k=k))
    return fac


@_shape("t,c,x=1,*a,**k", True)
def _(core):
    def fac(t, c, x=1, *a, **k):
        return core(t, c, x != 1 or _x(a, k))
    return fac


@_shape("lambda t,c", True)
def _(core):
    return lambda t, c: core(t, c)


@_shape("obj.__call__(t,c)", True)
def _(core):
    class Fac:
        def __call__(self, t, c):
            return core(t, c)
    return Fac()


@_shape("obj.method(t,c)", True)
def _(core):
    class Holder:
        def make(self, t, c):
            return core(t, c)
    return Holder().make


@_shape("cls.classmethod(t,c,**k)", True)
def _(core):
    class Holder:
        @classmethod
        def make(cls, t, c, **k):
            return core(t, c, _x(k=k))
    return Holder.make


@_shape("cls.staticmethod(t,c)", True)
def _(core):
    class Holder:
        @staticmethod
        def make(t, c):
            return core(t, c)
    return Holder.make


@_shape("partial(g,'x')(t,c)", True)
def _(core):
    def g(x, t, c):
        return core(t, c, x != "x")
    return functools.partial(g, "x")


@_shape("partial(f,flag=True)(t,c)", True)
def _(core):
    def f(t, c, *, flag):
        return core(t, c, flag is not True)
    return functools.partial(f, flag=True)


@_shape("class(t,c)", True)
def _(core):
    class HookObject:
        """the class itself is the factory, its instances are the hooks"""

        def __init__(self, t, c):
            self.hook = core(t, c)

        def __call__(self, *a):
            return self.hook(*a)
    return HookObject


@_shape("t:'str-annotated',c:'..'", True)
def _(core):
    def fac(t: "NoSuchName", c: "NoSuchName2") -> "NoSuchName3":  # noqa: F821
        return core(t, c)
    return fac


# ---- the documented rule, read off a signature (independent of cattrs and of the Lean model) ------------------------
_POSITIONAL = (inspect.Parameter.POSITIONAL_ONLY, inspect.Parameter.POSITIONAL_OR_KEYWORD)
_CODE = {inspect.Parameter.POSITIONAL_ONLY: "po", inspect.Parameter.POSITIONAL_OR_KEYWORD: "pk",
         inspect.Parameter.VAR_POSITIONAL: "vp", inspect.Parameter.KEYWORD_ONLY: "ko", inspect.Parameter.VAR_KEYWORD: "vk"}


def doc_rule(fn):
    """does `fn` expose an additional required parameter?"""
    ps = list(inspect.signature(fn).parameters.values())
    return len(ps) >= 2 and ps[1].kind in _POSITIONAL and ps[1].default is inspect.Parameter.empty


def second_is_var(fn):
    ps = list(inspect.signature(fn).parameters.values())
    return len(ps) >= 2 and ps[1].kind in (inspect.Parameter.VAR_POSITIONAL, inspect.Parameter.VAR_KEYWORD)


def sig_sx(fn):
    """the signature as the model's `Sig` (wire form of SIGKIND)"""
    ps = inspect.signature(fn).parameters.values()
    return "(" + " ".join(f"({_CODE[p.kind]} {0 if p.default is inspect.Parameter.empty else 1})" for p in ps) + ")"


def _selfcheck():
    for s in SHAPES.values():
        f = s.build(lambda t, c=NOCONV, extra=False: None)
        assert doc_rule(f) == s.asks, ("declared `asks` contradicts the documented rule", s.name)
        assert second_is_var(f) == s.f61, ("declared `f61` contradicts the signature", s.name)


_selfcheck()

PLAIN = sorted(n for n, s in SHAPES.items() if not s.asks and not s.f61)
EXTENDED = sorted(n for n, s in SHAPES.items() if s.asks)
F61 = sorted(n for n, s in SHAPES.items() if s.f61)
