"""C12 — automatic union disambiguation never picks the wrong class; it refuses instead.

Structure of the check (hash-seed variation needs fresh interpreters):

  parent  : generates abstract *layouts* (2-5 attrs classes / dataclasses over a 6-name field alphabet, defaults,
            Literal fields with overlapping value sets, optional None member, a few with rename overrides; 30 % with
            derived attributes - init=False with a default, a factory or an attrs `takes_self` default - whose names
            coincide with (mostly required, discriminating) attributes of other members: BaseConverter's unstructure emits
            them, Converter's does not, and the model is fed the payload the converter really produced),
            30 % with value types beyond int (str, list[int], dict[str, int], small attrs classes / dataclasses) whose
            DEFAULT VALUES are plain objects of every kind - unhashable ones included ([] {} Pt(0, 0): legal attrs
            defaults) - 25 % with members written as PARAMETRISATIONS `K[arg]` of generic attrs classes / dataclasses
            (T- and list[T]-typed attributes, TypeVars plain or with a PEP 696 default; the disambiguator works on the
            origin and must hand back the member as written; the model sees the origin's attributes),
            member instances, payload variants and the member orders to try (all for n <= 4, sampled beyond);
  workers : one subprocess per PYTHONHASHSEED; each receives the whole batch as JSON on stdin, realises the classes,
            and for every (layout, order) — with a FRESH converter — reports whether the union hook can be created and
            what `structure(payload, Union[...])` returns for every payload (member index + equality, None, or raised);
  parent  : asks the Lean model (`DIS`) for every (layout, order), then evaluates
            P1  oracle "never wrong": the result for a payload of member k is an instance of member k (equal to the
                instance for a full unstructured form), or None for None, or a refusal — never another member;
            P2  oracle "independent of order and hash seed": one outcome per payload over all orders x seeds;
            P3  oracle "refuses only when the members cannot be told apart": when an independent reference (`told_apart`:
                pairwise disjoint values of a common Literal field, or a required attribute of its own for every member but
                one) says they can, the full unstructured form of a member that the member's own hook accepts must not
                be refused, neither at hook creation nor while structuring;
            C   correspondence: implementation outcome == model outcome, per (layout, order, seed, payload).

Layouts with rename overrides (10 %): the members' OWN hooks are made with make_dict_(un)structure_fn + override(rename=...)
and registered; the union hook is still the automatic one (the disambiguator reads the `overrides` of the members' hooks).
60 % of them (15 % of the others) have PRIVATE attributes (`_a`: attrs alias `a` != name; mostly renamed to the
underscore-free key, which another member may use for a public attribute) and explicit `alias=` attributes.  All oracles
apply to them (told-apart is judged on the payload KEYS).
"""
from __future__ import annotations

import itertools
import json
import os
import subprocess
import sys
import time

STR_POOL = ["p", "q", "r", "s"]
PT_TYPES = ("pt", "dpt", "fpt")
UNHASHABLE = ("list", "dict", "pt", "dpt", "listT")          # types whose values cannot be hashed
NAMES = ["a", "b", "c", "d", "e", "f"]
RENAME_EXTRA = ["g", "h"]


# =====================================================================================================
# worker (runs under a given PYTHONHASHSEED; imports cattrs from CATTRS_SRC)
# =====================================================================================================

_WT = {}


def _worker_types():
    """value types of non-Literal fields: `int`, `str`, containers, and small classes whose INSTANCES serve as default
    values (Pt / DPt: eq without hash - unhashable like a list or dict literal; FPt: frozen, hashable)"""
    if not _WT:
        import dataclasses

        import attr

        Pt = attr.make_class("C12Pt", {"x": attr.ib(type=int), "y": attr.ib(type=int)})
        DPt = dataclasses.make_dataclass("C12DPt", [("x", int), ("y", int)])
        FPt = attr.make_class("C12FPt", {"x": attr.ib(type=int), "y": attr.ib(type=int)}, frozen=True)
        _WT.update({"int": int, "str": str, "list": list[int], "dict": dict[str, int], "pt": Pt, "dpt": DPt, "fpt": FPt})
    return _WT


def _worker_val(ty, v):
    """the Python value a JSON value spec stands for"""
    if ty in PT_TYPES:
        return _worker_types()[ty](**v)
    if ty == "list":
        return list(v)
    if ty == "dict":
        return dict(v)
    return v


def _worker_realise(L, tag):
    """returns (classes, members): the realised classes and what is written in the Union for each of them (the class,
    or its parametrisation `K[arg]` for a generic class)"""
    import dataclasses
    from typing import Generic, Literal, TypeVar

    import attr

    WT = _worker_types()
    classes, members = [], []
    for ci, c in enumerate(L["classes"]):
        name = f"C12{tag}L{str(L['id']).replace('-', 'n')}K{ci}"
        g = c.get("generic")
        tv = None
        if g:
            if g["tv"] == "dflt":     # PEP 696: a bare generic class silently uses the default
                from typing_extensions import TypeVar as TypeVarD

                tv = TypeVarD("T", default=WT[g["dflt"]])
            else:
                tv = TypeVar("T")
        bases = (Generic[tv],) if g else ()

        def pyty(f):
            if f["lit"] is not None:
                return Literal[tuple(f["lit"])]
            t = f.get("ty", "int")
            if t == "T":
                return tv
            if t == "listT":
                return list[tv]
            return WT[t]

        def ety(f):
            """the type of the field's VALUE SPEC (T resolved to the argument of the parametrisation)"""
            t = f.get("ty", "int")
            return g["arg"] if t == "T" else t

        if c["kind"] == "attrs":
            attribs = {}
            for f in c["fields"]:
                ty = pyty(f)
                kw = {"init": False} if f.get("init") is False else {}
                if f.get("alias"):
                    kw["alias"] = f["alias"]        # explicit `alias=` (the __init__ parameter; dict keys stay the NAME)
                if f["dflt"] == "req":
                    attribs[f["name"]] = attr.ib(type=ty, **kw)
                elif f["dflt"] == "const":      # a plain object as default VALUE (possibly unhashable: [] {} Pt(0, 0))
                    attribs[f["name"]] = attr.ib(type=ty, default=_worker_val(ety(f), f["dv"]), **kw)
                elif f["dflt"] == "self":       # `@x.default def _(self): ...`
                    attribs[f["name"]] = attr.ib(
                        type=ty, default=attr.Factory(lambda self, t=ety(f), v=f["dv"]: _worker_val(t, v), takes_self=True), **kw)
                else:
                    attribs[f["name"]] = attr.ib(type=ty, default=attr.Factory(lambda t=ety(f), v=f["dv"]: _worker_val(t, v)), **kw)
            cl = attr.make_class(name, attribs, bases=bases or (object,))
        else:
            fs = []
            for f in c["fields"]:
                ty = pyty(f)
                kw = {"init": False} if f.get("init") is False else {}
                if f["dflt"] == "req":
                    fs.append((f["name"], ty))
                elif f["dflt"] == "const":
                    fs.append((f["name"], ty, dataclasses.field(default=_worker_val(ety(f), f["dv"]), **kw)))
                else:
                    fs.append((f["name"], ty, dataclasses.field(default_factory=lambda t=ety(f), v=f["dv"]: _worker_val(t, v), **kw)))
            cl = dataclasses.make_dataclass(name, fs, bases=bases)
        classes.append(cl)
        members.append(cl[WT[g["arg"]]] if g else cl)
    return classes, members


def _field(c, name):
    return next(f for f in c["fields"] if f["name"] == name)


def init_name(c, f):
    """the `__init__` parameter of an attribute: attrs strips the leading underscores of a private name (or takes the
    explicit `alias=`); a dataclass keeps the name"""
    if c["kind"] != "attrs":
        return f["name"]
    return f.get("alias") or f["name"].lstrip("_")


def _worker_converter(L, classes):
    from cattrs import BaseConverter, Converter
    from cattrs.gen import make_dict_structure_fn, make_dict_unstructure_fn, override

    conv = Converter() if L["conv"] == "gen" else BaseConverter()
    if L["renames"]:
        for cl, c in zip(classes, L["classes"]):
            ov = {f["name"]: override(rename=f["key"]) for f in c["fields"] if f["key"] != f["name"]}
            if ov:
                conv.register_structure_hook(cl, make_dict_structure_fn(cl, conv, **ov))
                conv.register_unstructure_hook(cl, make_dict_unstructure_fn(cl, conv, **ov))
    return conv


def _worker_layout(L, tag):
    import linecache
    from typing import Union

    classes, members_ty = _worker_realise(L, tag)
    cu = _worker_converter(L, classes)
    insts, payloads = [], []
    for pl in L["payloads"]:
        if pl["member"] is None:
            insts.append(None)
            payloads.append(None)
            continue
        cl = classes[pl["member"]]
        c = L["classes"][pl["member"]]
        tys = {f["name"]: (c["generic"]["arg"] if f.get("ty") in ("T", "listT") else f.get("ty", "int")) for f in c["fields"]}
        x = cl(**{init_name(c, _field(c, k)): ([_worker_val(tys[k], e) for e in v] if _field(c, k).get("ty") == "listT"
                                                 else _worker_val(tys[k], v))
                  for k, v in pl["args"].items()})
        # (a parametrised member is unstructured AS the member: a bare generic instance carries no type arguments)
        u = cu.unstructure(x, unstructure_as=members_ty[pl["member"]]) if c.get("generic") else cu.unstructure(x)
        if not isinstance(u, dict):
            raise RuntimeError("unstructure did not return a dict")
        u = {k: v for k, v in u.items() if k not in pl["omit"]}
        insts.append(x)
        payloads.append(u)
    # baseline for the told-apart oracle: does the member's OWN hook accept the form (no union involved)?
    direct = []
    cd = _worker_converter(L, classes)
    for pl, u in zip(L["payloads"], payloads):
        if u is None:
            direct.append(True)
            continue
        try:
            cd.structure(dict(u), members_ty[pl["member"]])
            direct.append(True)
        except Exception:  # noqa: BLE001 - e.g. a required key was omitted
            direct.append(False)
    res = {"payloads": payloads, "direct": direct, "orders": []}
    for order in L["orders"]:
        members = tuple(type(None) if m < 0 else members_ty[m] for m in order)
        U = Union[members]
        conv = _worker_converter(L, classes)
        exc = []
        try:
            conv.get_structure_hook(U)
            created = True
        except Exception as e:  # noqa: BLE001 - refusal at hook creation
            created = False
            exc.append(type(e).__name__)
        outs = []
        for pl, x, u in zip(L["payloads"], insts, payloads):
            try:
                r = conv.structure(None if u is None else dict(u), U)
            except Exception as e:  # noqa: BLE001 - refusal while structuring
                outs.append("rr" if created else "rc")
                exc.append(type(e).__name__)
                continue
            if r is None:
                outs.append("none")
            else:
                j = next((i for i, cl in enumerate(classes) if type(r) is cl), None)
                if j is None:
                    outs.append("other:" + type(r).__name__)
                else:
                    outs.append(f"ok:{j}:{1 if r == x else 0}")
        res["orders"].append({"create": created, "out": outs, "exc": sorted(set(exc))})
    for k in [k for k in linecache.cache if k.startswith("<cattrs generated")]:
        del linecache.cache[k]
    return res


def worker_main():
    sys.path.insert(0, os.environ.get("CATTRS_SRC", "/repo/src"))
    batch = json.load(sys.stdin)
    tag = batch["tag"]
    out = {}
    for L in batch["layouts"]:
        try:
            out[str(L["id"])] = _worker_layout(L, tag)
        except Exception as e:  # noqa: BLE001 - a layout python/attrs itself rejects
            out[str(L["id"])] = {"error": f"{type(e).__name__}: {e}"[:300]}
    import cattrs

    json.dump({"results": out, "cattrs": os.path.dirname(cattrs.__file__), "hashseed": os.environ.get("PYTHONHASHSEED")},
              sys.stdout)


# =====================================================================================================
# parent
# =====================================================================================================

def gen_layout(rng, lid, tier):
    nmax = 5 if tier == "quick" else 6
    r = rng.random()
    if r < 0.03:
        n, has_none = 1, True
    else:
        n = rng.choice([2, 2, 3, 3, 3, 4, 4, 5] if nmax == 5 else [2, 3, 3, 4, 4, 5, 5, 6])
        has_none = rng.random() < 0.25
    renames = rng.random() < 0.10
    # names that tend to be Literal-typed in this layout (so that common discriminators arise)
    lit_names = [nm for nm in NAMES if rng.random() < 0.3]
    lit_pool = rng.sample([1, 2, 3] + STR_POOL[:3], rng.randint(2, 4))
    p_field = rng.choice([0.2, 0.3, 0.45, 0.6])
    p_default = rng.choice([0.0, 0.25, 0.5])
    classes = []
    for ci in range(n):
        kind = rng.choice(["attrs", "dc"])
        req, dfl = [], []
        for nm in NAMES:
            if rng.random() >= (0.85 if nm in lit_names else p_field):
                continue
            f = {"name": nm, "key": nm, "lit": None, "dflt": "req", "dv": None}
            if nm in lit_names and rng.random() < 0.85:
                f["lit"] = rng.sample(lit_pool, rng.randint(1, min(3, len(lit_pool))))
            if rng.random() < p_default:
                if f["lit"] is not None:
                    f["dflt"], f["dv"] = "const", f["lit"][0]
                else:
                    f["dflt"], f["dv"] = rng.choice(["const", "const", "factory"]), 0
            (req if f["dflt"] == "req" else dfl).append(f)
        rng.shuffle(req)
        rng.shuffle(dfl)
        fields = req + dfl
        if renames:
            for f in fields:
                if f["lit"] is None and rng.random() < 0.4:
                    taken = {g["key"] for g in fields if g is not f} | {g["name"] for g in fields if g["lit"] is not None}
                    cand = [k for k in NAMES + RENAME_EXTRA if k not in taken]
                    if cand:
                        f["key"] = rng.choice(cand)
        classes.append({"kind": kind, "fields": fields})
    if rng.random() < 0.4 and not renames:
        # nudge towards acceptance: give most classes a required field of their own (others lose that name)
        names = rng.sample([nm for nm in NAMES if nm not in lit_names] or NAMES, min(n, len([nm for nm in NAMES if nm not in lit_names]) or n))
        for ci, nm in zip(rng.sample(range(n), n), names):
            if rng.random() < 0.2:
                continue
            for cj, c in enumerate(classes):
                c["fields"] = [f for f in c["fields"] if f["name"] != nm]
            classes[ci]["fields"].insert(0, {"name": nm, "key": nm, "lit": None, "dflt": "req", "dv": None})
    conv = None
    flavour = rng.random()
    if flavour < 0.30:
        # value types beyond int: containers and small classes, so that DEFAULT VALUES are plain objects of every kind
        # (unhashable: [] {} Pt(0, 0) - legal attrs defaults; a dataclass needs a default_factory for those)
        for c in classes:
            for f in c["fields"]:
                if f["lit"] is None and rng.random() < 0.6:
                    f["ty"] = rng.choice(["list", "dict", "pt", "dpt", "fpt", "str"])
                    if f["dflt"] != "req":
                        f["dflt"] = rng.choice(["const", "const", "const", "factory"] + (["self"] if c["kind"] == "attrs" else []))
                        if c["kind"] == "dc" and f["ty"] in UNHASHABLE and f["dflt"] == "const":
                            f["dflt"] = "factory"
                        f["dv"] = gen_val(rng, f["ty"], small=True)
    elif flavour < 0.55 and not renames:
        # members written as PARAMETRISATIONS K[arg] of generic classes (the disambiguator works on the origin and must hand
        # back the member as written); TypeVars plain or with a PEP 696 default (then a bare K is structurable - wrongly)
        conv = rng.choice(["gen", "gen", "base"])
        for c in classes:
            cand = [f for f in c["fields"] if f["lit"] is None]
            if cand and rng.random() < 0.7:
                arg = rng.choice(["int", "str", "list"] + (["pt", "pt"] if conv == "gen" else []))
                c["generic"] = {"tv": rng.choice(["plain", "dflt"]), "arg": arg,
                                "dflt": rng.choice([a for a in ("int", "str") if a != arg])}
                for f in rng.sample(cand, rng.choice([1, 1, 2]) if len(cand) > 1 else 1):
                    f["ty"] = "listT" if (conv == "gen" and rng.random() < 0.25) else "T"
                    if f["dflt"] != "req":
                        f["dflt"] = "factory"
                        f["dv"] = [] if f["ty"] == "listT" else gen_val(rng, arg, small=True)
    init_false = rng.random() < 0.3
    if init_false:
        # derived attributes (init=False, with a default): their NAMES coincide with attributes - preferably required,
        # discriminating ones - of other members.  BaseConverter's unstructure emits them, Converter's does not.
        for _ in range(rng.choice([1, 1, 2, 3])):
            b = rng.randrange(n)
            cand = [f for f in classes[b]["fields"] if f["lit"] is None and f["key"] == f["name"] and f.get("init") is not False]
            req_c = [f for f in cand if f["dflt"] == "req"]
            if not cand:
                continue
            g = rng.choice(req_c if req_c and rng.random() < 0.8 else cand)
            others = [a for a in range(n) if a != b and all(h["name"] != g["name"] and h["key"] != g["name"]
                                                          for h in classes[a]["fields"])]
            if not others:
                continue
            a = rng.choice(others)
            kind = classes[a]["kind"]
            classes[a]["fields"].append({"name": g["name"], "key": g["name"], "lit": None,
                                         "dflt": rng.choice(["const", "factory", "self"] if kind == "attrs" else ["const", "factory"]),
                                         "dv": rng.choice([0, 1, 2]), "init": False})
    # PRIVATE attributes (`_a`: attrs derives the alias `a`, so alias != name; a dataclass keeps `_a`) and explicit
    # `alias=` on attrs attributes.  The dict key is the NAME unless renamed; in rename layouts a private attribute is
    # mostly renamed to its underscore-free spelling (the usual reason for the rename), i.e. onto the key another member
    # may use for its public attribute of that name.
    if rng.random() < (0.6 if renames else 0.15):
        for c in classes:
            names_c = {f["name"] for f in c["fields"]}
            for f in c["fields"]:
                if f["lit"] is not None:
                    continue
                old = f["name"]
                if rng.random() < 0.5 and "_" + old not in names_c:
                    f["name"] = "_" + old
                    if f["key"] == old and not (renames and rng.random() < 0.7):
                        f["key"] = f["name"]
                elif c["kind"] == "attrs" and rng.random() < 0.15:
                    f["alias"] = "al_" + old
    conv0 = rng.choice(["gen", "base"] if init_false else ["gen", "gen", "base"])
    L = {"id": lid, "conv": conv or conv0, "has_none": has_none,
         "renames": renames, "classes": classes}
    # payloads: per member one instance with every field given, one with the defaults taken, plus omission variants
    payloads = []
    if has_none:
        payloads.append({"member": None, "args": {}, "omit": [], "variant": "none"})
    for ci, c in enumerate(classes):
        for mode in ("all", "defaults"):
            args = {}
            for f in c["fields"]:
                if (mode == "defaults" and f["dflt"] != "req") or f.get("init") is False:
                    continue
                args[f["name"]] = rng.choice(f["lit"]) if f["lit"] is not None else field_val(rng, c, f)
            payloads.append({"member": ci, "args": args, "omit": [], "variant": "full"})
            omittable = [f["key"] for f in c["fields"] if f["dflt"] != "req" and not dreq(c, f)]
            if omittable and rng.random() < 0.7:
                om = [k for k in omittable if rng.random() < 0.6] or [rng.choice(omittable)]
                payloads.append({"member": ci, "args": args, "omit": sorted(om), "variant": "omit"})
    L["payloads"] = payloads
    # orders: all permutations of the members for n <= 4, sampled beyond; None at a pseudo-random position
    idx = list(range(n))
    if n <= 4:
        perms = [list(p) for p in itertools.permutations(idx)]
    else:
        want = 24 if tier == "quick" else 60
        seen = {tuple(idx), tuple(reversed(idx))}
        while len(seen) < want:
            p = idx[:]
            rng.shuffle(p)
            seen.add(tuple(p))
        perms = [list(p) for p in sorted(seen)]
    if has_none:
        for p in perms:
            p.insert(rng.randint(0, len(p)), -1)
    L["orders"] = perms
    return L


def gen_val(rng, ty, small=False):
    """JSON value spec of a value of type `ty`"""
    if ty == "int":
        return rng.choice([0, 1, 2])
    if ty == "str":
        return rng.choice(STR_POOL)
    if ty in ("list", "listT"):
        return [] if small and rng.random() < 0.6 else [rng.choice([0, 1, 2]) for _ in range(rng.randint(1, 2))]
    if ty == "dict":
        return {} if small and rng.random() < 0.6 else {rng.choice(STR_POOL): rng.choice([0, 1, 2])}
    return {"x": rng.choice([0, 1, 2]), "y": rng.choice([0, 1])}


def field_val(rng, c, f):
    ty = f.get("ty", "int")
    if ty == "T":
        return gen_val(rng, c["generic"]["arg"])
    if ty == "listT":
        return [gen_val(rng, c["generic"]["arg"]) for _ in range(rng.randint(0, 2))]
    return gen_val(rng, ty)


def dreq(c, f):
    """what the disambiguator takes for 'no default': `cl_fields[name].default in (NOTHING, MISSING)` — true for a
    dataclass field that only has a default_factory (observation recorded in the report)"""
    # (until fix F49 a dataclass field with only a default_factory also counted: `default in (NOTHING, MISSING)`)
    return f["dflt"] == "req"


def esc(s):
    return json.dumps(s)


def vcode(v):
    """injective coding of the Python values that occur (ints >= 0, strings of the pool) as naturals"""
    if isinstance(v, bool) or v is None:
        raise ValueError(v)
    if isinstance(v, int):
        return v
    return 1000 + STR_POOL.index(v)


def table_sx(L):
    out = []
    for c in L["classes"]:
        fs = []
        for f in c["fields"]:
            lit = "N" if f["lit"] is None else "(" + " ".join(str(vcode(v)) for v in f["lit"]) + ")"
            fs.append(f"({esc(f['name'])} {esc(f['key'])} {1 if dreq(c, f) else 0} {lit})")
        out.append("(" + " ".join(fs) + ")")
    return "(" + " ".join(out) + ")"


def payload_sx(u):
    if u is None:
        return "N"
    # the model looks at keys, and at VALUES only under Literal-typed keys: containers / nested forms are coded 0
    return "(" + " ".join(f"({esc(k)} {vcode(v) if isinstance(v, (int, str)) and not isinstance(v, bool) else 0})"
                          for k, v in u.items()) + ")"


def model_query(drv, L, order, payloads):
    from harness import terms

    ms = [m for m in order if m >= 0]
    hn = 1 if any(m < 0 for m in order) else 0
    line = f"DIS {table_sx(L)} ({' '.join(map(str, ms))}) {hn} ({' '.join(payload_sx(u) for u in payloads)})"
    r = drv.ask(line)
    if not r.startswith("(("):
        from harness import lean
        raise lean.InfraError(f"model driver answered {r!r} to {line[:300]}")
    p = terms.parse_sx(r)
    info = {e[0]: e[1:] for e in p}
    outs = []
    for o in info["out"]:
        if isinstance(o, list):
            outs.append(f"ok:{o[1]}")
        else:
            outs.append({"none": "none", "refuse-create": "rc", "refuse-resolve": "rr"}[o])
    lit = info["lit"][0]
    return {"wf": info["wf"][0] == "1", "create": info["create"][0] == "1", "deep": info["deep"][0] == "1",
            "sub": info["sub"][0] == "1", "passes": int(info["passes"][0]),
            "lit": None if lit == "N" else lit[1], "out": outs}


def run_workers(layouts, seeds, tag):
    """one subprocess per hash seed, all in parallel; returns {seed: results}"""
    env0 = dict(os.environ)
    root = os.path.dirname(os.path.dirname(os.path.dirname(os.path.abspath(__file__))))     # the tree this check runs from
    env0["PYTHONPATH"] = root + ":" + os.environ.get("CATTRS_SRC", "/repo/src")
    env0["PYTHONDONTWRITEBYTECODE"] = "1"
    data = json.dumps({"tag": tag, "layouts": layouts})
    procs = []
    for s in seeds:
        env = dict(env0)
        env["PYTHONHASHSEED"] = str(s)
        p = subprocess.Popen([sys.executable, "-m", "harness.props.c12", "--worker"], cwd="/tmp", env=env,
                             stdin=subprocess.PIPE, stdout=subprocess.PIPE, stderr=subprocess.PIPE, text=True)
        procs.append((s, p))
    import threading

    outs = {}

    def pump(s, p):
        outs[s] = p.communicate(data)

    ths = [threading.Thread(target=pump, args=sp) for sp in procs]
    for t in ths:
        t.start()
    for t in ths:
        t.join()
    res = {}
    for s, p in procs:
        so, se = outs[s]
        if p.returncode != 0:
            from harness import lean
            raise lean.InfraError(f"C12 worker (PYTHONHASHSEED={s}) failed: {se[-1500:]}")
        res[s] = json.loads(so)
    return res


def canon(code):
    """outcome without the equality flag"""
    return ":".join(code.split(":")[:2]) if code.startswith("ok:") else code


def told_apart(L):
    """Independent reference, written from the statement, for "the members CAN be told apart by a unique required field
    or a literal-valued field" (a sufficient condition; None = no claim):
      literal : some attribute is Literal-typed in EVERY member and the members' value sets are pairwise disjoint;
      unique  : every member but at most one (the single fallback) has a required attribute whose name no other member
                uses at all."""
    cs = L["classes"]
    n = len(cs)
    names = [{f["name"] for f in c["fields"]} for c in cs]
    keys = [{f["key"] for f in c["fields"]} for c in cs]         # what the payloads carry (= the names unless renamed)
    for nm in sorted(set.intersection(*names)) if n >= 2 else []:
        lits = [_field(c, nm)["lit"] for c in cs]
        if all(l is not None for l in lits) and all(not (set(a) & set(b)) for a, b in itertools.combinations(lits, 2)):
            return f"the literal-valued field {nm!r}"
    without = 0
    for i, c in enumerate(cs):
        others = set().union(*[keys[j] for j in range(n) if j != i]) if n > 1 else set()
        if not any(f["dflt"] == "req" and f.get("init") is not False and f["key"] not in others for f in c["fields"]):
            without += 1
    return "unique required fields (single fallback)" if without <= 1 else None


def judge(L, wres, seeds):
    """Oracles P1 and P2 on the implementation results of one layout.  Returns list of (what, detail)."""
    bad = []
    lid = str(L["id"])
    apart = told_apart(L)
    per_payload = [dict() for _ in L["payloads"]]
    for s in seeds:
        R = wres[s]["results"][lid]
        for oi, order in enumerate(L["orders"]):
            O = R["orders"][oi]
            for pi, pl in enumerate(L["payloads"]):
                code = O["out"][pi]
                per_payload[pi].setdefault(canon(code), (s, order))
                k = pl["member"]
                if k is None:
                    if code not in ("none", "rc"):
                        bad.append(("never-wrong", f"None structured as {code} (order {order}, PYTHONHASHSEED={s})"))
                elif code.startswith("ok:"):
                    _, j, eq = code.split(":")
                    if int(j) != k:
                        bad.append(("never-wrong", f"payload #{pi} of member {k} structured as member {j} "
                                                   f"(order {order}, PYTHONHASHSEED={s})"))
                    elif eq != "1" and pl["variant"] == "full":
                        bad.append(("never-wrong", f"payload #{pi} of member {k}: result differs from the instance "
                                                   f"(order {order}, PYTHONHASHSEED={s})"))
                elif code in ("rr", "rc"):
                    # P3: a refusal is what the statement asks for only "when the members cannot be told apart"
                    if apart and pl["variant"] == "full" and R["direct"][pi]:
                        bad.append(("refused-although-told-apart",
                                    f"payload #{pi} (full unstructured form of member {k}) was refused "
                                    f"({'while structuring' if code == 'rr' else 'at hook creation'}: {O['exc']}) although the "
                                    f"members are told apart by {apart} (order {order}, PYTHONHASHSEED={s})"))
                else:
                    bad.append(("never-wrong", f"payload #{pi} of member {k} gave {code} (order {order}, PYTHONHASHSEED={s})"))
    dep = []
    for pi, seen in enumerate(per_payload):
        if len(seen) > 1:
            desc = "; ".join(f"{c} at order {o} PYTHONHASHSEED={s}" for c, (s, o) in sorted(seen.items()))
            dep.append(("order/seed-dependence", f"payload #{pi} (member {L['payloads'][pi]['member']}): {desc}"))
    return dep[:1] + bad[:2] + dep[1:] + bad[2:]


_TY_SRC = {"int": "int", "str": "str", "list": "list[int]", "dict": "dict[str, int]", "pt": "Pt", "dpt": "DPt", "fpt": "FPt",
           "T": "T", "listT": "list[T]"}


def val_source(ty, v):
    if ty in PT_TYPES:
        return f"{_TY_SRC[ty]}({v['x']}, {v['y']})"
    return repr(v)


def layout_source(L):
    """Python source of the realised classes (for replays / reports)"""
    lines = []
    used = {f.get("ty") for c in L["classes"] for f in c["fields"]} | {(c.get("generic") or {}).get("arg") for c in L["classes"]}
    if used & set(PT_TYPES):
        lines.append("# Pt: @attrs.define (x: int, y: int; eq, unhashable)   DPt: @dataclass (same; unhashable)   "
                     "FPt: @attrs.frozen (hashable)")
    for ci, c in enumerate(L["classes"]):
        deco = "@attrs.define" if c["kind"] == "attrs" else "@dataclasses.dataclass"
        g = c.get("generic")
        if g:
            lines.append(f"T = TypeVar('T'" + (f", default={g['dflt']})   # typing_extensions, PEP 696" if g["tv"] == "dflt" else ")"))
        lines.append(f"{deco}\nclass K{ci}{'(Generic[T])' if g else ''}:" + (f"      # union member: K{ci}[{_TY_SRC[g['arg']]}]" if g else ""))
        if not c["fields"]:
            lines.append("    pass")
        for f in c["fields"]:
            fty = f.get("ty", "int")
            ety = g["arg"] if fty == "T" else fty
            ty = "Literal[" + ", ".join(repr(v) for v in f["lit"]) + "]" if f["lit"] is not None else _TY_SRC[fty]
            dv = val_source(ety, f["dv"]) if f["dflt"] != "req" else None
            d = ""
            if f["dflt"] == "const":
                d = f" = {dv}"
            elif f["dflt"] == "factory":
                d = (f" = attrs.Factory(lambda: {dv})" if c["kind"] == "attrs"
                     else f" = dataclasses.field(default_factory=lambda: {dv})")
            elif f["dflt"] == "self":
                d = f" = attrs.Factory(lambda self: {dv}, takes_self=True)"
            if f.get("init") is False:
                mod = "attrs.field" if c["kind"] == "attrs" else "dataclasses.field"
                d = (f" = {mod}(init=False, default={dv})" if f["dflt"] == "const" else
                     f" = attrs.field(init=False, default=attrs.Factory(lambda self: {dv}, takes_self=True))"
                     if f["dflt"] == "self" else
                     f" = attrs.field(init=False, factory=lambda: {dv})" if c["kind"] == "attrs" else
                     f" = dataclasses.field(init=False, default_factory=lambda: {dv})")
            rn = f"   # renamed to {f['key']!r}" if f["key"] != f["name"] else ""
            if f.get("alias"):
                rn += f"   # attrs.field(alias={f['alias']!r})"
            lines.append(f"    {f['name']}: {ty}{d}{rn}")
    lines.append(f"# converter: {'Converter' if L['conv'] == 'gen' else 'BaseConverter'}(); None member: {L['has_none']}")
    return "\n".join(lines)


def fixed_layouts():
    """regression layouts, always run first"""
    def fld(name, lit=None, dflt="req", dv=None, key=None):
        return {"name": name, "key": key or name, "lit": lit, "dflt": dflt, "dv": dv}

    def mk(lid, classes, payloads, has_none=False, conv="gen", renames=False):
        n = len(classes)
        perms = [list(p) for p in itertools.permutations(range(n))]
        if has_none:
            for i, p in enumerate(perms):
                p.insert(i % (n + 1), -1)
        return {"id": lid, "conv": conv, "has_none": has_none, "renames": renames, "classes": classes,
                "payloads": payloads, "orders": perms}

    def full(m, **args):
        return {"member": m, "args": args, "omit": [], "variant": "full"}

    out = []
    # F3 (repaired by cd8e653): A{x,a} | B{x,y} | C{y}
    out.append(mk(-1, [{"kind": "attrs", "fields": [fld("x"), fld("a")]},
                       {"kind": "attrs", "fields": [fld("x"), fld("y")]},
                       {"kind": "dc", "fields": [fld("y")]}],
                  [full(0, x=1, a=2), full(1, x=1, y=2), full(2, y=0)]))
    # F22 (repaired by 5a629cf): tie between the literal discriminators t1/t2
    for lid, names in ((-2, ("e", "f")), (-3, ("f", "e"))):
        t1, t2 = names
        out.append(mk(lid, [{"kind": "attrs", "fields": [fld(t1, [1]), fld(t2, ["p"])]},
                            {"kind": "attrs", "fields": [fld(t1, [1, 2]), fld(t2, ["p"])]},
                            {"kind": "attrs", "fields": [fld(t1, [2]), fld(t2, ["q"])]}],
                      [full(0, **{t1: 1, t2: "p"}), full(1, **{t1: 1, t2: "p"}), full(1, **{t1: 2, t2: "p"}),
                       full(2, **{t1: 2, t2: "q"})]))
    # dataclass default_factory is taken for a required field by the unique-field path (model follows the code)
    out.append(mk(-4, [{"kind": "dc", "fields": [fld("a", dflt="factory", dv=0)]},
                       {"kind": "dc", "fields": [fld("b", dflt="const", dv=0)]}],
                  [full(0, a=1), full(0), full(1, b=1), full(1)]))
    out.append(mk(-5, [{"kind": "attrs", "fields": [fld("a", dflt="factory", dv=0)]},
                       {"kind": "attrs", "fields": [fld("b", dflt="const", dv=0)]}],
                  [full(0, a=1), full(1, b=1)]))
    # Optional[A] and Union[A, B, None]
    out.append(mk(-6, [{"kind": "attrs", "fields": [fld("a")]}],
                  [{"member": None, "args": {}, "omit": [], "variant": "none"}, full(0, a=1)], has_none=True))
    out.append(mk(-7, [{"kind": "attrs", "fields": [fld("a")]}, {"kind": "dc", "fields": [fld("a"), fld("b")]}],
                  [{"member": None, "args": {}, "omit": [], "variant": "none"}, full(0, a=1), full(1, a=1, b=1)],
                  has_none=True, conv="base"))
    # derived (init=False) attribute whose name is the other member's discriminating attribute: Square{side, area=…(init=False)}
    # | Blob{area} (seeded change "init=False attributes are not usable names"); BaseConverter emits `area`, Converter does not
    for lid, conv, kind in ((-8, "base", "attrs"), (-9, "gen", "attrs"), (-10, "base", "dc")):
        sq = {"kind": kind, "fields": [fld("a"), dict(fld("b", dflt="const", dv=2), init=False)]}
        out.append(mk(lid, [sq, {"kind": kind, "fields": [fld("b")]}, {"kind": "attrs", "fields": [fld("c")]}],
                      [full(0, a=2), full(1, b=4), full(2, c=1)], conv=conv))
    # members written as parametrisations of generic classes, told apart by a common Literal tag (Created[Pt] | Deleted[int] |
    # Ping) or by unique fields; TypeVar plain / with a PEP 696 default; attrs and dataclass
    def gfld(name, ty="T", **kw):
        return dict(fld(name, **kw), ty=ty)

    for lid, tv, kind in ((-11, "plain", "attrs"), (-12, "dflt", "attrs"), (-13, "dflt", "dc")):
        out.append(mk(lid, [{"kind": kind, "generic": {"tv": tv, "arg": "pt", "dflt": "str"},
                             "fields": [gfld("a"), fld("e", ["p"], dflt="const", dv="p")]},
                            {"kind": kind, "generic": {"tv": tv, "arg": "int", "dflt": "str"},
                             "fields": [gfld("a"), fld("e", ["q"], dflt="const", dv="q")]},
                            {"kind": "attrs", "fields": [fld("e", ["r"], dflt="const", dv="r")]}],
                      [full(0, a={"x": 1, "y": 2}), full(1, a=2), full(2)], has_none=lid == -12))
    out.append(mk(-14, [{"kind": "attrs", "generic": {"tv": "dflt", "arg": "int", "dflt": "str"}, "fields": [gfld("a")]},
                        {"kind": "dc", "generic": {"tv": "plain", "arg": "str", "dflt": "int"}, "fields": [gfld("b", ty="listT")]}],
                  [full(0, a=2), full(1, b=["p", "q"])]))
    # default VALUES that are plain unhashable objects, next to a required attribute of the member's own
    # (Sprite{name, anchor=Pt(0, 0), frames=[]} | Sound{path, tags={}} | Marker{})
    out.append(mk(-15, [{"kind": "attrs", "fields": [fld("a"), gfld("b", ty="pt", dflt="const", dv={"x": 0, "y": 0}),
                                                     gfld("c", ty="list", dflt="const", dv=[])]},
                        {"kind": "attrs", "fields": [fld("d"), gfld("e", ty="dict", dflt="const", dv={})]},
                        {"kind": "dc", "fields": [gfld("f", ty="dpt", dflt="factory", dv={"x": 1, "y": 1})]}],
                  [full(0, a=1), full(0, a=1, b={"x": 1, "y": 2}, c=[1]), full(1, d=2), full(1, d=2, e={"p": 1}), full(2)],
                  has_none=True))
    # theorem C12_private_rename_witness on the real code: a PRIVATE attribute renamed (through the member's own hooks) onto
    # the key another member uses -- Account{_a -> "a"} | Token{a, b=0}: nothing tells them apart, refused (never Token for
    # an Account); Session{_a -> "a"} | User{a, c}: User has `c` of its own, Session is the fallback, both come back
    for lid, conv, kind in ((-16, "gen", "attrs"), (-17, "base", "dc")):
        out.append(mk(lid, [{"kind": "attrs", "fields": [fld("_a", key="a")]},
                            {"kind": kind, "fields": [fld("a"), fld("b", dflt="const", dv=0)]}],
                      [full(0, _a=2), full(1, a=1), full(1, a=1, b=2)], conv=conv, renames=True, has_none=lid == -17))
    out.append(mk(-18, [{"kind": "attrs", "fields": [fld("_a", key="a")]},
                        {"kind": "dc", "fields": [fld("a"), fld("c")]}],
                  [full(0, _a=2), full(1, a=1, c=2)], renames=True))
    return out


def evaluate(chk, drv, layouts, wres, seeds, count=True):
    """oracles + correspondence over a batch; returns (oracle_failures, corr_failures)"""
    oracle_fail, corr_fail = [], []
    s0 = seeds[0]
    for L in layouts:
        lid = str(L["id"])
        Rs = {s: wres[s]["results"][lid] for s in seeds}
        if any("error" in R for R in Rs.values()):
            if L["id"] < 0:
                from harness import lean
                raise lean.InfraError("regression layout could not be realised: " + str([R.get("error") for R in Rs.values()]))
            chk.note("layout-rejected-by-python")
            continue
        payloads = Rs[s0]["payloads"]
        if any(Rs[s]["payloads"] != payloads for s in seeds):
            oracle_fail.append((L, "order/seed-dependence", "unstructured forms differ between hash seeds"))
            continue
        n = len(L["classes"])
        # ---- oracle on the implementation.  Rename layouts too: the quantifier of C12 names "renames" -- the MEMBERS'
        # hooks carry the renames (make_dict_(un)structure_fn + override(rename=...), read by the disambiguator from the
        # hooks' `overrides`), the UNION hook is still obtained without custom configuration.
        for what, detail in judge(L, wres, seeds)[:3]:
            oracle_fail.append((L, what, detail))
        # ---- correspondence
        shared = len({json.dumps(u, sort_keys=True) for u in payloads if u is not None}) < sum(u is not None for u in payloads)
        for oi, order in enumerate(L["orders"]):
            M = model_query(drv, L, order, payloads)
            if not M["wf"]:
                from harness import lean
                raise lean.InfraError("generator produced a layout outside the theorems' scope (wf=0)")
            for s in seeds:
                O = Rs[s]["orders"][oi]
                impl = [canon(c) for c in O["out"]]
                if impl != M["out"] or O["create"] != (M["create"] or len([m for m in order if m >= 0]) == 1):
                    corr_fail.append((L, order, s, impl, M))
                if count:
                    for pi, pl in enumerate(L["payloads"]):
                        chk.count((lid, tuple(order), pi) if s == s0 else None, nontrivial=n >= 2)
            if count:
                chk.note("members:%d" % n, "path:" + ("literal" if M["lit"] else "unique"),
                         "create:" + ("ok" if M["create"] else "refused"), "deep:" + str(int(M["deep"])))
                if M["lit"]:
                    chk.note("literal-sub-union:" + ("yes" if M["sub"] else "no"))
                else:
                    chk.note("fixpoint-passes:%d" % M["passes"])
                for o in M["out"]:
                    chk.note("outcome:" + o.split(":")[0])
        if count:
            chk.note("conv:" + L["conv"], "none-member" if L["has_none"] else "no-none",
                     "renames" if L["renames"] else "default-config",
                     "init-false-attr:" + ("yes" if any(f.get("init") is False for c in L["classes"] for f in c["fields"])
                                           else "no"),
                     "shared-payload" if shared else "distinct-payloads",
                     "generic-members:" + str(min(3, sum(1 for c in L["classes"] if c.get("generic")))),
                     "unhashable-default-values:" + ("yes" if any(
                         f["dflt"] == "const" and f.get("ty", "int") in UNHASHABLE for c in L["classes"] for f in c["fields"]) else "no"),
                     "told-apart:" + str(told_apart(L)).split(" ")[0],
                     "private-attrs:" + ("renamed" if any(f["name"].startswith("_") and f["key"] != f["name"] for c in L["classes"]
                                                          for f in c["fields"])
                                         else "yes" if any(f["name"].startswith("_") for c in L["classes"] for f in c["fields"]) else "no"),
                     "explicit-alias:" + ("yes" if any(f.get("alias") for c in L["classes"] for f in c["fields"]) else "no"))
            for c in L["classes"]:
                chk.note("kind:" + c["kind"])
            if len(chk.samples) < 5:
                chk.samples.append({"classes": layout_source(L), "orders": len(L["orders"]), "payloads": payloads[:4],
                                    "impl": Rs[s0]["orders"][0]["out"][:4]})
    return oracle_fail, corr_fail


def neighbours(L, rng, base_id):
    """one-edit variants of a layout (drop a class, drop a field, flip a default), with all-defaults payloads"""
    out = []
    n = len(L["classes"])
    variants = []
    if n > 2:
        for ci in range(n):
            variants.append([c for i, c in enumerate(L["classes"]) if i != ci])
    for ci, c in enumerate(L["classes"]):
        for fi, f in enumerate(c["fields"]):
            cs = json.loads(json.dumps(L["classes"]))
            del cs[ci]["fields"][fi]
            variants.append(cs)
            if f["lit"] is None and f.get("init") is not False:
                cs = json.loads(json.dumps(L["classes"]))
                g = cs[ci]["fields"][fi]
                if g["dflt"] == "req":
                    gty = g.get("ty", "int")
                    ety = cs[ci]["generic"]["arg"] if gty == "T" else gty
                    g["dflt"] = "factory" if (gty in ("T", "listT") or (cs[ci]["kind"] == "dc" and gty in UNHASHABLE)) else "const"
                    g["dv"] = [] if gty == "listT" else gen_val(rng, ety, small=True)
                    cs[ci]["fields"].sort(key=lambda h: h["dflt"] != "req")
                else:
                    g["dflt"], g["dv"] = "req", None
                    cs[ci]["fields"].sort(key=lambda h: h["dflt"] != "req")
                variants.append(cs)
    rng.shuffle(variants)
    for vi, cs in enumerate(variants[:40]):
        m = len(cs)
        payloads = []
        for ci, c in enumerate(cs):
            for mode in ("all", "defaults"):
                args = {f["name"]: (f["lit"][0] if f["lit"] is not None else field_val(rng, c, f)) for f in c["fields"]
                        if not (mode == "defaults" and f["dflt"] != "req") and f.get("init") is not False}
                payloads.append({"member": ci, "args": args, "omit": [], "variant": "full"})
                om = [f["key"] for f in c["fields"] if f["dflt"] != "req" and not dreq(c, f)]
                if om and mode == "all":
                    payloads.append({"member": ci, "args": args, "omit": sorted(om), "variant": "omit"})
        perms = [list(p) for p in itertools.permutations(range(m))][:24]
        out.append({"id": base_id + vi, "conv": L["conv"], "has_none": False, "renames": L["renames"], "classes": cs,
                    "payloads": payloads, "orders": perms})
    return out


def generic_stream(chk, n_cases):
    """Implementation-only oracle for unions that contain PARAMETRISATIONS of generic classes (outside the Lean model):
    `Box[int] | Box[str]` (two members with the same fields) must be refused, never guessed; a parametrised member next
    to distinguishable plain members must come back equal and of its class; one outcome over all member orders.
    Shape `literal-tagged`: parametrised generic members told apart by a common Literal tag must come back equal (field
    values included) and must not be refused when the member's own hook round-trips the form."""
    import dataclasses
    import itertools as it
    from typing import Generic, TypeVar, Union

    import attrs

    sys.path.insert(0, os.environ.get("CATTRS_SRC", "/repo/src"))
    from cattrs import BaseConverter, Converter

    rng = chk.rng
    T = TypeVar("T")
    for ci in range(n_cases):
        tag = f"C12G{chk.seed}_{ci}"
        own = rng.choice(["v", "val"])
        Box = attrs.make_class(tag + "Box", {own: attrs.field(type=T), **({"n": attrs.field(type=int, default=0)} if rng.random() < 0.5 else {})},
                               bases=(Generic[T],))
        others = []
        for k in range(rng.randint(0, 2)):
            others.append(attrs.make_class(f"{tag}O{k}", {f"u{k}": attrs.field(type=int)}))
        shape = rng.choice(["two-params", "one-param", "param-and-origin-twin", "literal-tagged", "literal-tagged"])
        args = rng.sample([int, str, float, bool], 2)
        tagged = None
        if shape == "literal-tagged":
            # events told apart by a common Literal tag, written as parametrisations (Created[Pt] | Moved[int] | Ping):
            # attrs / dataclass generics, payload: T or list[T], TypeVar plain or with a PEP 696 default
            from typing import Literal

            from typing_extensions import TypeVar as TypeVarD

            Pt = attrs.make_class(tag + "Pt", {"x": attrs.field(type=int), "y": attrs.field(type=int)})
            vals = {int: [1, 2], str: ["a", "b"], float: [1.5], Pt: [Pt(1, 2), Pt(0, 0)]}
            tname = rng.choice(["kind", "t"])
            tagged, members = [], []
            for k in range(rng.randint(2, 3)):
                tvk = TypeVarD("T", default=rng.choice([str, int])) if rng.random() < 0.5 else TypeVar("T")
                arg = rng.choice([int, str, float, Pt])
                lst = rng.random() < 0.3
                lit = Literal[f"k{k}"] if rng.random() < 0.7 else Literal[f"k{k}", f"kk{k}"]
                if rng.random() < 0.5:
                    cl = attrs.make_class(f"{tag}E{k}", {"payload": attrs.field(type=list[tvk] if lst else tvk),
                                                         tname: attrs.field(type=lit, default=f"k{k}")}, bases=(Generic[tvk],))
                else:
                    cl = dataclasses.make_dataclass(f"{tag}E{k}", [("payload", list[tvk] if lst else tvk),
                                                                   (tname, lit, dataclasses.field(default=f"k{k}"))],
                                                    bases=(Generic[tvk],))
                v = rng.choice(vals[arg])
                members.append(cl[arg])
                tagged.append((cl[arg], cl([v, rng.choice(vals[arg])] if lst else v)))
            if rng.random() < 0.5:
                Ping = attrs.make_class(tag + "Ping", {tname: attrs.field(type=Literal["ping"], default="ping")})
                members.append(Ping)
                tagged.append((Ping, Ping()))
        elif shape == "two-params":
            members = [Box[args[0]], Box[args[1]]] + others
        elif shape == "one-param":
            members = [Box[args[0]]] + others
            if len(members) < 2:
                members.append(attrs.make_class(tag + "P", {"w": attrs.field(type=int)}))
        else:
            Twin = attrs.make_class(tag + "Twin", {own: attrs.field(type=args[1])})
            members = [Box[args[0]], Twin] + others
        probe = {int: 1, str: "a", float: 1.5, bool: True}
        insts = list(tagged or [])
        for m in ([] if tagged else members):
            origin = getattr(m, "__origin__", None)
            if origin is not None:
                insts.append((m, origin(probe[m.__args__[0]])))
            else:
                f0 = attrs.fields(m)[0]
                insts.append((m, m(probe.get(f0.type, 1))))
        outcomes = {}
        for order in list(it.permutations(range(len(members))))[:24]:
            U = Union[tuple(members[i] for i in order)]
            for conv_cls in (Converter, BaseConverter):
                conv = conv_cls()
                row = []
                for m, x in insts:
                    try:
                        u = conv.unstructure(x, unstructure_as=m)
                        r = conv.structure(u, U)
                        row.append("ok" if (type(r) is type(x) and r == x) else f"WRONG:{r!r}")
                    except Exception as e:  # noqa: BLE001 - refusal
                        row.append("refused")
                        if tagged:
                            # told apart by the tag (disjoint Literal values by construction): a refusal is legitimate
                            # only if the member's own hook does not round-trip the form either
                            try:
                                c2 = conv_cls()
                                own = c2.structure(c2.unstructure(x, unstructure_as=m), m) == x
                            except Exception:  # noqa: BLE001
                                own = False
                            if own:
                                row[-1] = f"WRONG:refused ({type(e).__name__}) although told apart by the Literal tag"
                outcomes[(order, conv_cls.__name__)] = row
                chk.count(("generic", tag, order, conv_cls.__name__))
                chk.note("generic-stream:" + shape)
        desc = f"union of {[getattr(m, '__name__', None) or str(m) for m in members]} ({shape})"
        for key, row in outcomes.items():
            bad = [r for r in row if r.startswith("WRONG")]
            if bad:
                chk.violation(f"C12 oracle (generic stream, never-wrong): {desc}, order {key[0]} on {key[1]}: {row}",
                              {"ext": True, "members": desc, "order": list(key[0]), "converter": key[1], "row": row})
                break
        else:
            for cn in ("Converter", "BaseConverter"):
                rows = {tuple(r) for (o, c), r in outcomes.items() if c == cn}
                if len(rows) > 1:
                    chk.violation(f"C12 oracle (generic stream, order-independence): {desc} on {cn}: outcomes differ by member order: {sorted(rows)}",
                                  {"ext": True, "members": desc, "converter": cn, "rows": sorted(map(list, rows))})
                    break


def run(chk):
    from harness import lean

    rng = chk.rng
    quick = chk.tier == "quick"
    n_layouts = 700 if quick else 3000
    seeds = [0, 1, 2] if quick else [0, 1, 2, 3, 4, 5, 6, 7]
    # hash seeds: fixed small ones plus seed-dependent ones
    seeds = seeds[:-1] + [100 + (chk.seed * 7919 + 13) % 4000]
    drv = lean.Driver()
    layouts = fixed_layouts() + [gen_layout(rng, i, chk.tier) for i in range(n_layouts)]
    t0 = time.time()
    wres = run_workers(layouts, seeds, "M")
    chk.extra["worker_wall_s"] = round(time.time() - t0, 1)
    src = {wres[s]["cattrs"] for s in seeds}
    chk.extra["cattrs_under_test"] = sorted(src)
    chk.extra["hash_seeds"] = seeds
    oracle_fail, corr_fail = evaluate(chk, drv, layouts, wres, seeds)

    def case_of(L, **kw):
        d = {"layout": L, "seeds": seeds, "classes_source": layout_source(L)}
        d.update(kw)
        return d

    shown = set()
    for L, what, detail in oracle_fail:
        if (L["id"], what) in shown:
            continue
        shown.add((L["id"], what))
        chk.violation(f"C12 oracle ({what}): {detail}\n" + layout_source(L), case_of(L, what=what, detail=detail))
    if corr_fail and not oracle_fail:
        # the model no longer describes the code although the property held on every generated input:
        # look for a failing input around the disagreeing layouts and in a fresh sample
        extra = []
        for i, (L, *_r) in enumerate(corr_fail[:3]):
            extra += neighbours(L, rng, 100000 + 1000 * i)
        extra += [gen_layout(rng, 200000 + i, chk.tier) for i in range(n_layouts)]
        wres2 = run_workers(extra, seeds, "X")
        found, _ = evaluate(chk, drv, extra, wres2, seeds, count=False)
        if found:
            L, what, detail = found[0]
            chk.violation(f"C12 oracle ({what}): {detail}\n" + layout_source(L), case_of(L, what=what, detail=detail))
        else:
            seen = set()
            for L, order, s, impl, M in corr_fail:
                if L["id"] in seen or len(seen) >= 5:
                    continue
                seen.add(L["id"])
                chk.violation(
                    "correspondence corr:C12:DIS broken (theorems C12_* no longer tied to the code): "
                    f"order {order} PYTHONHASHSEED={s}: impl={impl} model={M['out']} "
                    f"(model: create={M['create']} discriminator={M['lit']})\n" + layout_source(L),
                    case_of(L, order=order, impl=impl, model=M["out"]), found_input=False)
    chk.extra["rule"] = ("random overlapping layouts (2-6 attrs classes/dataclasses over 6 field names, defaults, Literal "
                         "fields with overlapping values, optional None, 10% with renames, 30% with container / class-typed attributes whose "
                         "default values are plain (also unhashable) objects, 25% with parametrised generic members) x all member orders (n<=4; "
                         "sampled beyond) x payloads of every member (full, defaults taken, defaulted keys omitted) x "
                         "PYTHONHASHSEED subprocesses; distinct by (layout, order, payload)")
    chk.extra["corr_disagreements"] = len(corr_fail)
    generic_stream(chk, 40 if quick else 400)
    drv.close()


def replay(case):
    from harness import lean

    L = case["layout"]
    seeds = case.get("seeds", [0, 1, 2])
    print(layout_source(L))
    drv = lean.Driver()
    wres = run_workers([L], seeds, "R")
    R0 = wres[seeds[0]]["results"][str(L["id"])]
    if "error" in R0:
        print("layout rejected:", R0["error"])
        return 2
    print("payloads:", R0["payloads"])
    rc = 0
    for oi, order in enumerate(L["orders"]):
        M = model_query(drv, L, order, R0["payloads"])
        row = {s: wres[s]["results"][str(L["id"])]["orders"][oi]["out"] for s in seeds}
        print(f"order {order}: model={M['out']} " + " ".join(f"seed{s}={[canon(c) for c in r]}" for s, r in row.items()))
    bad = judge(L, wres, seeds)
    for what, detail in bad[:10]:
        print("oracle FAILS:", what, detail)
        rc = 1
    if not bad:
        print("oracle: holds")
    drv.close()
    return rc


if __name__ == "__main__":
    if "--worker" in sys.argv:
        worker_main()
    else:
        from harness import framework

        framework.main(run, "C12")
