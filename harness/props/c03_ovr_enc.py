"""Helper of c03_overrides.py: keys / declared types / targets of the override lattice, type terms, realisation,
value generation, and the encoder shared by the documentation oracle and the model-side prediction (the two differ only
in the `choose` function that picks the container of a collection node and in the container of class nodes).

Type terms (JSON-able):  ["leaf", "int"|"str"|"enum"] | ["coll", decl, spelling#, elem] | ["bare", decl, spelling#]
  | ["het", spelling#, [t, t]] | ["map", decl, spelling#, keyleaf, val] | ["cls", i] | ["any", t]
"""
from __future__ import annotations

import collections
import collections.abc as abc
import dataclasses
import enum
import itertools
import typing
from collections import Counter, OrderedDict, defaultdict, deque

import attrs


class Col(enum.Enum):
    RED = 1
    GREEN = 2
    BLUE = 3


# ---- keys of the override dict: name -> (normalised class, spellings a user may write)
KEYS = {
    "absSet": (abc.Set, [abc.Set, typing.AbstractSet, abc.Set[int], typing.AbstractSet[str]]),
    "mutSet": (abc.MutableSet, [abc.MutableSet, typing.MutableSet, abc.MutableSet[int]]),
    "set": (set, [set, typing.Set, set[int], typing.Set[str]]),
    "frozenset": (frozenset, [frozenset, typing.FrozenSet, frozenset[int]]),
    "sequence": (abc.Sequence, [abc.Sequence, typing.Sequence, abc.Sequence[int], typing.Sequence[str]]),
    "mutSequence": (abc.MutableSequence, [abc.MutableSequence, typing.MutableSequence, abc.MutableSequence[int]]),
    "list": (list, [list, typing.List, list[int], typing.List[str]]),
    "tuple": (tuple, [tuple, typing.Tuple, tuple[int, ...], typing.Tuple[int, str]]),
    "deque": (deque, [deque, typing.Deque, deque[int]]),
    "mapping": (abc.Mapping, [abc.Mapping, typing.Mapping, abc.Mapping[str, int]]),
    "mutMapping": (abc.MutableMapping, [abc.MutableMapping, typing.MutableMapping, typing.MutableMapping[str, int]]),
    "dict": (dict, [dict, typing.Dict, dict[str, int]]),
    "counter": (Counter, [Counter, typing.Counter, Counter[str]]),
    "orderedDict": (OrderedDict, [OrderedDict, typing.OrderedDict, OrderedDict[str, int]]),
    "defaultDict": (defaultdict, [defaultdict, typing.DefaultDict, defaultdict[str, int]]),
}
KEY_OF_CLASS = {v[0]: k for k, v in KEYS.items()}
FAMILIES = [["absSet", "mutSet", "set", "frozenset"], ["sequence", "mutSequence", "list", "tuple", "deque"],
            ["mapping", "mutMapping", "dict", "counter", "orderedDict", "defaultDict"]]

# ---- declared collection types: name -> (origin class, kind, parametrised spellings, bare spellings)
E = "{E}"  # placeholder for the element type


def _p(*fs):
    return list(fs)


DECLS = {
    "set": (set, "set", _p(lambda e: set[e], lambda e: typing.Set[e]), [set, typing.Set]),
    "mutSet": (abc.MutableSet, "set", _p(lambda e: typing.MutableSet[e], lambda e: abc.MutableSet[e]), [typing.MutableSet]),
    "absSet": (abc.Set, "set", _p(lambda e: typing.AbstractSet[e], lambda e: abc.Set[e]), [typing.AbstractSet]),
    "frozenset": (frozenset, "fset", _p(lambda e: frozenset[e], lambda e: typing.FrozenSet[e]), [frozenset, typing.FrozenSet]),
    "list": (list, "seq", _p(lambda e: list[e], lambda e: typing.List[e]), [list, typing.List]),
    "sequence": (abc.Sequence, "seq", _p(lambda e: typing.Sequence[e], lambda e: abc.Sequence[e]), [typing.Sequence]),
    "mutSequence": (abc.MutableSequence, "seq", _p(lambda e: typing.MutableSequence[e], lambda e: abc.MutableSequence[e]),
                    [typing.MutableSequence, abc.MutableSequence]),
    "homTuple": (tuple, "seq", _p(lambda e: tuple[e, ...], lambda e: typing.Tuple[e, ...]), [tuple, typing.Tuple]),
    "deque": (deque, "seq", _p(lambda e: deque[e], lambda e: typing.Deque[e]), [deque, typing.Deque]),
    "dict": (dict, "map", _p(lambda k, v: dict[k, v], lambda k, v: typing.Dict[k, v]), [dict, typing.Dict]),
    "mapping": (abc.Mapping, "map", _p(lambda k, v: typing.Mapping[k, v], lambda k, v: abc.Mapping[k, v]),
                [typing.Mapping, abc.Mapping]),
    "mutMapping": (abc.MutableMapping, "map", _p(lambda k, v: typing.MutableMapping[k, v], lambda k, v: abc.MutableMapping[k, v]),
                   [typing.MutableMapping, abc.MutableMapping]),
    "counter": (Counter, "map", _p(lambda k, v: Counter[k], lambda k, v: typing.Counter[k]), [Counter, typing.Counter]),
    "orderedDict": (OrderedDict, "map", _p(lambda k, v: OrderedDict[k, v], lambda k, v: typing.OrderedDict[k, v]),
                    [OrderedDict, typing.OrderedDict]),
    "defaultDict": (defaultdict, "map", _p(lambda k, v: defaultdict[k, v], lambda k, v: typing.DefaultDict[k, v]),
                    [defaultdict, typing.DefaultDict]),
    # unparametrised collections.abc classes (matched by is_sequence / is_mutable_set since the repair of F45)
    "bareAbcSequence": (abc.Sequence, "seq", [], [abc.Sequence]),
    "bareAbcSet": (abc.Set, "set", [], [abc.Set]),
    "bareAbcMutSet": (abc.MutableSet, "set", [], [abc.MutableSet]),
}
SET_DECLS = ["set", "mutSet", "absSet", "frozenset"]
SEQ_DECLS = ["list", "sequence", "mutSequence", "homTuple", "deque"]
MAP_DECLS = ["dict", "mapping", "mutMapping", "counter", "orderedDict", "defaultDict"]
BARE_ABC = ["bareAbcSequence", "bareAbcSet", "bareAbcMutSet"]
HET_SPELL = [lambda a, b: tuple[a, b], lambda a, b: typing.Tuple[a, b]]

# the statement's defaults: "sequences lists, heterogeneous and named tuples tuples, sets sets, mappings dicts"
DOC_DEFAULT = {"seq": list, "set": set, "fset": frozenset, "map": dict, "het": tuple}


# ---- targets
class Tagged:
    """what a tagging callable returns: remembers who built it and from what"""

    def __init__(self, n, items):
        self.n, self.items = n, items

    def __repr__(self):  # deterministic: SortedList orders by repr
        return f"Tagged({self.n}, {self.items!r})"


class Tag:
    def __init__(self, n):
        self.n = n

    def __call__(self, it):
        return Tagged(self.n, list(it))

    def __repr__(self):
        return f"Tag({self.n})"


class SortedList:
    """a `sorted`-like wrapper (total order on anything: by canonical form, so that equal sets compare equal whatever
    their iteration order)"""

    def __init__(self, n):
        self.n = n

    def __call__(self, it):
        return sorted(it, key=lambda x: repr(canon(x)))

    def __repr__(self):
        return f"SortedList({self.n})"


class TagDict(dict):
    """a dict_factory that tags what it builds"""


BUILTIN_TARGETS = {0: list, 1: tuple, 2: set, 3: frozenset, 4: dict}
KEEP = object()      # rebuild the class of the value from the unstructured elements (BaseConverter)


def target_of_id(n, pool):
    return BUILTIN_TARGETS[n] if n in BUILTIN_TARGETS else pool[n]


# ---- realisation of type terms
LEAVES = {"int": int, "str": str, "enum": Col}


def py_type(t, classes):
    k = t[0]
    if k == "leaf":
        return LEAVES[t[1]]
    if k == "any":
        return typing.Any
    if k == "cls":
        return classes[t[1]]["cls"]
    if k == "bare":
        return DECLS[t[1]][3][t[2] % len(DECLS[t[1]][3])]
    if k == "coll":
        sp = DECLS[t[1]][2]
        return sp[t[2] % len(sp)](py_type(t[3], classes))
    if k == "het":
        return HET_SPELL[t[1] % 2](py_type(t[2][0], classes), py_type(t[2][1], classes))
    if k == "map":
        sp = DECLS[t[1]][2]
        return sp[t[2] % len(sp)](py_type(t[3], classes), py_type(t[4], classes))
    raise ValueError(t)


_uid = itertools.count()


def make_classes(specs):
    """specs: [{"kind": "attrs"|"dc", "fields": [[name, type term]]}] (a field may refer to an earlier class)"""
    out = []
    for s in specs:
        name = f"OvC{next(_uid)}"
        ann = [(fn, py_type(ft, out)) for fn, ft in s["fields"]]
        if s["kind"] == "attrs":
            cls = attrs.make_class(name, {fn: attrs.field(type=ty) for fn, ty in ann})
        else:
            cls = dataclasses.make_dataclass(name, ann)
        out.append({"cls": cls, "fields": s["fields"], "kind": s["kind"]})
    return out


# ---- values
def gen_value(rng, t, classes):
    k = t[0]
    if k == "leaf":
        return {"int": lambda: rng.randint(-3, 9), "str": lambda: rng.choice(["a", "b", "cc", ""]),
                "enum": lambda: rng.choice(list(Col))}[t[1]]()
    if k == "any":
        return gen_value(rng, t[1], classes)
    if k == "cls":
        c = classes[t[1]]
        return c["cls"](**{fn: gen_value(rng, ft, classes) for fn, ft in c["fields"]})
    if k in ("coll", "bare"):
        decl = t[1]
        elem = t[3] if k == "coll" else ["leaf", rng.choice(["int", "int", "enum"])]
        xs = [gen_value(rng, elem, classes) for _ in range(rng.randint(0, 3))]
        kind = DECLS[decl][1]
        if decl == "deque":
            return deque(xs)
        if decl == "homTuple":
            return tuple(xs)
        if decl in ("sequence", "bareAbcSequence"):
            return rng.choice([list, tuple])(xs)
        if decl in ("absSet", "bareAbcSet"):
            return rng.choice([set, frozenset])(xs)
        return {"seq": list, "set": set, "fset": frozenset}[kind](xs)
    if k == "het":
        return tuple(gen_value(rng, x, classes) for x in t[2])
    if k == "map":
        decl = t[1]
        if decl == "counter":
            return Counter({gen_value(rng, t[3], classes): rng.randint(1, 4) for _ in range(rng.randint(0, 3))})
        d = {gen_value(rng, t[3], classes): gen_value(rng, t[4], classes) for _ in range(rng.randint(0, 3))}
        if decl == "orderedDict":
            return OrderedDict(d)
        if decl == "defaultDict":
            return defaultdict(None, d)
        return d
    raise ValueError(t)


RUNTIME_DECL = {list: "list", tuple: "homTuple", deque: "deque", set: "set", frozenset: "frozenset", dict: "dict",
                Counter: "counter", OrderedDict: "orderedDict", defaultdict: "defaultDict"}


# ---- the documented encoding with pluggable container choice
def encode(t, v, classes, choose, class_container):
    """`choose(decl, het, value) -> callable | KEEP`; `class_container(pairs) -> object` (pairs = [(field name, child)])"""
    k = t[0]
    if k == "leaf":
        return v.value if isinstance(v, enum.Enum) else v
    if k == "any":
        return encode_rt(v, classes, choose, class_container)
    if k == "cls":
        c = classes[t[1]]
        return class_container([(fn, encode(ft, getattr(v, fn), classes, choose, class_container)) for fn, ft in c["fields"]])
    if k in ("coll", "bare"):
        if k == "coll":
            xs = [encode(t[3], e, classes, choose, class_container) for e in v]
        else:
            xs = [encode_rt(e, classes, choose, class_container) for e in v]
        tgt = choose(t[1], False, v)
        return (type(v) if tgt is KEEP else tgt)(xs)
    if k == "het":
        xs = tuple(encode(tt, e, classes, choose, class_container) for tt, e in zip(t[2], v))
        tgt = choose("hetTuple", True, v)
        return xs if tgt is KEEP or tgt is tuple else tgt(xs)
    if k == "map":
        if t[1] == "counter":  # Counter[K]: values are counts, met by run-time class
            pairs = [(encode(t[3], a, classes, choose, class_container), b) for a, b in v.items()]
        else:
            pairs = [(encode(t[3], a, classes, choose, class_container), encode(t[4], b, classes, choose, class_container))
                     for a, b in v.items()]
        tgt = choose(t[1], False, v)
        if tgt is KEEP:
            tgt = dict if isinstance(v, (Counter, defaultdict)) else type(v)
        return tgt(iter(pairs)) if tgt is not dict else dict(pairs)
    raise ValueError(t)


def encode_rt(v, classes, choose, class_container):
    """a position met by run-time class (Any, elements of bare collections)"""
    if isinstance(v, (int, str)):
        return v
    if isinstance(v, enum.Enum):
        return v.value
    for i, c in enumerate(classes):
        if type(v) is c["cls"]:
            return encode(["cls", i], v, classes, choose, class_container)
    decl = RUNTIME_DECL[type(v)]
    if DECLS[decl][1] == "map":
        pairs = [(encode_rt(a, classes, choose, class_container), encode_rt(b, classes, choose, class_container)) for a, b in v.items()]
        tgt = choose(decl, False, v)
        if tgt is KEEP:
            tgt = dict
        return tgt(iter(pairs)) if tgt is not dict else dict(pairs)
    return encode(["bare", decl, 0], v, classes, choose, class_container)


# ---- canonical form of an output (what is compared)
def canon(o):
    if isinstance(o, Tagged):
        return ["T", o.n, [canon(x) for x in o.items]]
    if isinstance(o, bool) or o is None or isinstance(o, (int, float, str, bytes)):
        return [type(o).__name__, repr(o)]
    if isinstance(o, enum.Enum):
        return ["ENUM-MEMBER", o.name]
    if isinstance(o, dict):
        return [type(o).__name__, sorted(([canon(a), canon(b)] for a, b in o.items()), key=repr)]
    if isinstance(o, (set, frozenset)):
        return [type(o).__name__, sorted((canon(x) for x in o), key=repr)]
    if isinstance(o, (list, tuple, deque)):
        return [type(o).__name__, [canon(x) for x in o]]
    return ["OBJECT", type(o).__name__]


def guarded(fn):
    try:
        return ["ok", canon(fn())]
    except Exception as e:  # noqa: BLE001
        return ["err", type(e).__name__]
