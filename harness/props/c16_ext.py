"""C16 — EXTENDED STREAM: an implementation-only oracle.  NOTHING in this file is covered by the Lean model
(`lean/CattrsModel/Preconf`) or by the C16 theorems; it only widens the search for failing inputs of the property
`loads(dumps(x, unstructure_as=T), T) == x` on the preconfigured converters, as configured by `make_converter`.

What it adds to the main stream of `c16.py` (whose type language is the model's):
  * spill-over unions: unions mixing members the format's union passthrough handles natively (int/str/float/bool/None,
    NewTypes of them, str literals) with members it has to hand back to the converter — one class, two classes the
    default disambiguator can tell apart, or a collection — at any position a type may occur (top level, class fields,
    inside collections), with values of EVERY member;
  * unions whose ONLY natively handled members are `Literal[…]`s (str and/or int values, one or two Literal members,
    with or without None): next to a class / two classes / a collection / a date or datetime, or on their own
    (`Union[Literal["never"], Literal[1, 2, 3]]`) — the passthrough strategy must take such unions too (histogram keys
    `ext:union-natives:*`);
  * classes with defaulted fields (so that `omit_if_default=True` omits something) and attrs fields with a converter
    on int/str-typed fields (so that `prefer_attrib_converters=True` selects something);
  * the same user options as the main stream (validation mode, forbid_extra_keys, omit_if_default,
    prefer_attrib_converters, unstruct_collection_overrides absent / {} / user entries, float hook pair).
Evidence histogram keys of this stream start with `ext:`.

The main module is passed in (`m`) instead of imported: `c16.py` runs as `__main__`, importing it again by name would
create a second copy of its counters and class registries.
"""
from __future__ import annotations

NATIVE_ALL = ["int", "str", "float", "bool"]      # native to the union passthrough of json, pyyaml and msgspec alike


def make_gen(m, rng):
    class GX(m.G16):
        def world(self):
            r = self.rng
            w = {"enums": [], "classes": []}
            for _ in range(r.randint(1, 2)):
                kind = r.choice(["plain", "int", "str"])
                n = r.randint(1, 3)
                if kind == "int" or (kind == "plain" and r.random() < 0.5):
                    vals = [("i", v) for v in r.sample(range(-3, 9), n)]
                else:
                    vals = [("s", v) for v in r.sample(["b", "c", "x", "zz", "7", "-1", "b7", ""], n)]
                w["enums"].append({"kind": kind, "vals": vals})
            for ci in range(r.randint(2, 4)):
                kind = r.choice(["attrs", "dc", "attrs", "dc", "td"])
                names = r.sample(["a", "b", "c", "d", "_p", "xy", "e", "f"], r.randint(1, 4))
                fields = []
                for n in names:
                    fields.append({"name": n, "ty": self.type(w, r.randint(0, 2), max_cls=ci),
                                   "required": kind != "td" or r.random() < 0.7})
                c = {"kind": kind, "fields": fields}
                w["classes"].append(c)
                if kind == "td":
                    continue
                if r.random() < 0.25:
                    c["strann"] = True
                if r.random() < 0.5:      # a suffix of the fields gets defaults (factories producing a conforming value)
                    for f in fields[r.randrange(len(fields)):]:
                        f["dflt"] = self.value(w, f["ty"], 1)
                if kind == "attrs":
                    for f in fields:
                        if f["ty"] in ("int", "str") and r.random() < 0.3:
                            f["conv"] = f["ty"]
                        if r.random() < 0.3:
                            f["alias"] = m.attrs_alias(r, f["name"])
            return w

        def leaf_type(self, w, max_cls, fmt_hint=None):
            c = self.rng.random()
            if c < 0.27:
                return self.sunion(w, max_cls)
            if c < 0.4:
                return self.elit(w)
            return super().leaf_type(w, max_cls, fmt_hint)

        def elit(self, w):
            """a Literal mixing enum members (of one or two classes: plain / int / str mix-in) with primitive
            alternatives; no two alternatives share a value (the literal hook maps values back to alternatives)"""
            r = self.rng
            alts, seen = [], []

            def add(alt, v):
                if not any(m.gen.py_eq(v, u) for u in seen):
                    alts.append(alt)
                    seen.append(v)

            for ei in r.sample(range(len(w["enums"])), min(len(w["enums"]), r.choice([1, 1, 2]))):
                vals = w["enums"][ei]["vals"]
                for mi in r.sample(range(len(vals)), r.randint(1, len(vals))):
                    add(("e", ei, mi), vals[mi])
            for v in r.sample([("s", "auto"), ("s", "b"), ("s", ""), ("i", 0), ("i", 10), ("i", 1), ("b", True), ("s", "7")],
                              r.choice([0, 1, 1, 2, 3])):
                add(v, v)
            r.shuffle(alts)
            return ("elit", alts)

        def literal_members(self):
            """one or two Literal members with pairwise distinct values (str and int values; typing merges equal ones)"""
            r = self.rng
            strs = r.sample([("s", "auto"), ("s", "b"), ("s", "x7"), ("s", ""), ("s", "never"), ("s", "1")], r.randint(1, 3))
            ints = r.sample([("i", 1), ("i", 2), ("i", 3), ("i", 0), ("i", -1)], r.randint(1, 3))
            c = r.random()
            if c < 0.4:
                ks = [("lit", strs)]
            elif c < 0.55:
                ks = [("lit", ints)]
            elif c < 0.7:
                mixed = strs[:2] + ints[:1]
                r.shuffle(mixed)
                ks = [("lit", mixed)]
            elif c < 0.85:
                ks = [("lit", strs), ("lit", ints)]
            else:
                ks = [("lit", strs[:1]), ("lit", strs[1:])] if len(strs) > 1 else [("lit", strs), ("lit", ints[:1])]
            return ks

        def native_members(self):
            r = self.rng
            if r.random() < 0.3:      # the only natively handled members are literals
                ks = self.literal_members()
                if r.random() < 0.25:
                    ks.append("none")
                return ks
            ks = r.sample(NATIVE_ALL, r.randint(1, 2))
            ks = [("nt", k) if r.random() < 0.55 else k for k in ks]
            if r.random() < 0.15:
                ks.append(("lit", r.sample([("s", "b"), ("s", "x7"), ("s", "")], r.randint(1, 2))))
            if r.random() < 0.3:
                ks.append("none")
            return ks

        def sunion(self, w, max_cls):
            """native members (plain / NewType / literal / None) + spill-over: what the passthrough cannot validate"""
            r = self.rng
            data = [i for i in range(max_cls) if w["classes"][i]["kind"] != "td"]
            c = r.random()
            spill = None
            if c < 0.25 and len(data) >= 2:
                a, b = r.sample(data, 2)
                if disambiguable(w["classes"][a], w["classes"][b]):
                    spill = [("cls", a), ("cls", b)]
            if spill is None and c < 0.7 and data:
                spill = [("cls", r.choice(data))]
            if spill is None:
                el = ("cls", r.choice(data)) if data and r.random() < 0.5 else r.choice(["int", "str", "bytes", "date", "float"])
                spill = [r.choice([("list", el), ("dict", "str", el), ("tup", [el, "int"]), ("tup*", el),
                                   ("set", r.choice(["int", "str", "bytes"])), ("fset", r.choice(["int", "str"]))])]
            natives = self.native_members()
            if not any(isinstance(k, str) or k[0] == "nt" for k in natives if k != "none"):
                # literal-only natives: also next to a leaf the format may or may not handle natively, or with no
                # other member at all (two Literal members at least: a one-member Union is no Union)
                c = r.random()
                if c < 0.15:
                    spill = [r.choice(["date", "datetime"])]
                elif c < 0.4 and len([k for k in natives if k != "none"]) >= 2:
                    spill = []
            ms = natives + spill
            r.shuffle(ms)
            return ("sunion", ms)

        def value(self, w, t, depth):
            r = self.rng
            if not isinstance(t, str) and t[0] == "sunion":
                mem = r.choice(t[1])       # every member gets values
                if mem == "none":
                    return ("N",)
                return self.value(w, mem, depth)
            if not isinstance(t, str) and t[0] == "elit":
                return r.choice(t[1])      # every alternative gets values
            if not isinstance(t, str) and t[0] == "cls":
                c = w["classes"][t[1]]
                return ("I", t[1], [(f["name"], f["dflt"] if "dflt" in f and r.random() < 0.5
                                     else self.value(w, f["ty"], depth - 1)) for f in c["fields"]])
            v = super().value(w, t, depth)
            if not isinstance(t, str) and t[0] == "counter":
                # Counter equality ignores zero counts: with omit_if_default a Counter "equal" to its default is
                # legitimately replaced by it; zero counts are kept out so that the strict comparison stays meaningful
                v = ("d", [(k, c if c[1] != 0 else ("i", 1)) for k, c in v[1]])
            return v

    return GX(rng)


def disambiguable(ca, cb):
    """each class has a field without default that the other does not have (unique required fields)"""
    na = {f["name"] for f in ca["fields"] if "dflt" not in f}
    nb = {f["name"] for f in cb["fields"] if "dflt" not in f}
    alla = {f["name"] for f in ca["fields"]}
    allb = {f["name"] for f in cb["fields"]}
    if not (na - allb and nb - alla):
        return False
    # A field common to both classes and of a Literal type in both is taken as the discriminator by
    # create_default_dis_func; with enum members among the alternatives its table is keyed by the members while the
    # payload holds their values (KeyError: candidate finding F62, a disambiguation defect - property C12's
    # territory, reproduced at start-up by `literal_enum_discriminator_defect`): such pairs are not put in a union
    ta = {f["name"]: f["ty"] for f in ca["fields"]}
    for f in cb["fields"]:
        tb, t0 = f["ty"], ta.get(f["name"])
        if t0 is not None and not isinstance(tb, str) and not isinstance(t0, str) and {tb[0], t0[0]} <= {"lit", "elit"}:
            if any(a[0] == "e" for t in (tb, t0) if t[0] == "elit" for a in t[1]):
                return False
    return True


def literal_enum_discriminator_defect():
    """Union[A, B], A.kind: Literal[Kind.A], B.kind: Literal[Kind.B]: does structuring the unstructured A fail?"""
    import enum
    from typing import Literal, Union
    import attrs
    import cattrs
    K = enum.Enum("K16F62", {"A": "a", "B": "b"})
    A = attrs.make_class("A16F62", {"kind": attrs.field(type=Literal[K.A]), "x": attrs.field(type=int)})
    B = attrs.make_class("B16F62", {"kind": attrs.field(type=Literal[K.B]), "y": attrs.field(type=int)})
    c = cattrs.Converter()
    try:
        return c.structure(c.unstructure(A(K.A, 1)), Union[A, B]) != A(K.A, 1)
    except Exception:  # noqa: BLE001
        return True


def elit_alts(m, w, t, seen=None):
    """the alternatives of every enum literal the type reaches"""
    if isinstance(t, str) or t is None:
        return []
    k = t[0]
    if k == "elit":
        return list(t[1])
    if k in ("enum", "lit", "nt", "union"):
        return []
    if k in ("tup", "sunion"):
        return [a for x in t[1] for a in elit_alts(m, w, x)]
    if k in m.MAP_KINDS:
        return elit_alts(m, w, t[1]) + elit_alts(m, w, t[2])
    if k in ("cls", "td", "ntc"):
        return [a for f in w["classes"][t[1]]["fields"] for a in elit_alts(m, w, f["ty"])]
    return elit_alts(m, w, t[1])


def has_sunion(m, w, t):
    if isinstance(t, str) or t is None:
        return False
    k = t[0]
    if k == "sunion":
        return True
    if k in ("enum", "lit", "nt", "union", "elit"):
        return False
    if k == "tup":
        return any(has_sunion(m, w, x) for x in t[1])
    if k in m.MAP_KINDS:
        return has_sunion(m, w, t[1]) or has_sunion(m, w, t[2])
    if k in ("cls", "td"):
        return any(has_sunion(m, w, f["ty"]) for f in w["classes"][t[1]]["fields"])
    return has_sunion(m, w, t[1])


def union_natives(m, w, t, out=None, seen=None):
    """for every spill-over union the type reaches: are its natively handled members plain classes / NewTypes, literals only, …"""
    out = [] if out is None else out
    seen = set() if seen is None else seen
    if isinstance(t, str) or t is None:
        return out
    k = t[0]
    if k == "sunion":
        plain = [x for x in t[1] if x != "none" and (x in NATIVE_ALL or (not isinstance(x, str) and x[0] == "nt"))]
        lits = [x for x in t[1] if not isinstance(x, str) and x[0] == "lit"]
        rest = [x for x in t[1] if x != "none" and x not in plain and x not in lits]
        out.append(("literals-only" if lits and not plain else "plain+literals" if lits else "plain")
                   + (":no-other-member" if not rest else ""))
        for x in rest:
            union_natives(m, w, x, out, seen)
        return out
    if k in ("enum", "lit", "nt", "union", "elit"):
        return out
    if k == "tup":
        for x in t[1]:
            union_natives(m, w, x, out, seen)
        return out
    if k in m.MAP_KINDS:
        union_natives(m, w, t[1], out, seen)
        return union_natives(m, w, t[2], out, seen)
    if k in ("cls", "td", "ntc"):
        if t[1] in seen:
            return out
        seen.add(t[1])
        for f in w["classes"][t[1]]["fields"]:
            union_natives(m, w, f["ty"], out, seen)
        return out
    return union_natives(m, w, t[1], out, seen)


def run_ext(chk, m, ran, fmts, skip_strann_msgspec):
    rng = chk.rng
    G = make_gen(m, rng)
    chk.note("ext:literal-enum-discriminator-defect:" + ("present" if literal_enum_discriminator_defect() else "absent"))
    n_worlds = 130 if chk.tier == "quick" else 1300
    for _ in range(n_worlds):
        w = G.world()
        try:
            R = m.R16(w)
        except Exception as e:  # noqa: BLE001
            chk.note("ext:world-rejected-by-python:" + type(e).__name__)
            continue
        for ti in range(5):
            if ti == 4:
                t = G.elit(w)
                if rng.random() < 0.4:
                    t = (rng.choice(["list", "opt", "tup*"]), t) if rng.random() < 0.7 else ("dict", "str", t)
            elif ti < 2:
                t = G.sunion(w, len(w["classes"]))
                if rng.random() < 0.3:
                    t = (rng.choice(["list", "opt", "tup*"]), t) if rng.random() < 0.7 else ("dict", "str", t)
                    if t[0] == "opt" and "none" in t[1][1]:
                        t = t[1]
            elif ti == 2:
                ci = rng.randrange(len(w["classes"]))
                t = ("td" if w["classes"][ci]["kind"] == "td" else "cls", ci)
            else:
                t = G.type(w, rng.randint(1, 3))
            x0 = G.value(w, t, 3)
            for fmt in fmts:
                cfg = {"detailed": rng.random() < 0.6, "forbid": rng.random() < 0.3,
                       "uhook": (rng.choice([2000, 1, -3, 7]) if rng.random() < 0.3 else None), **m.gen_options(rng)}
                if cfg["uhook"] is not None and m.has_union_float(w, t):
                    cfg["uhook"] = None
                if rng.random() < 0.35:      # a user unstructure hook (member -> value) on one enum class
                    in_lit = sorted({a[1] for a in elit_alts(m, w, t) if a[0] == "e"})
                    cfg["ehook"] = rng.choice(in_lit) if in_lit and rng.random() < 0.8 else rng.randrange(len(w["enums"]))
                if m.uses_nonnative_union(w, t, fmt):
                    chk.note("ext:skipped:non-native-union:" + fmt)
                    continue
                if fmt == "msgspec" and skip_strann_msgspec and m.reaches_strann_dc(w, t):
                    chk.note("ext:skipped:string-annotated-dataclass:msgspec")
                    continue
                one(chk, m, R, w, fmt, ran[fmt], cfg, t, x0)


def one(chk, m, R, w, fmt, mod, cfg, t, x):
    try:
        xv = R.val(x, t)
        x = R.abs(xv)
    except Exception:  # noqa: BLE001
        chk.note("ext:value-not-realisable")
        return
    res = m.run_impl(R, fmt, mod, cfg, t, x, xv)
    bad = m.check_oracle(w, cfg, t, x, res)
    key = "ext" + fmt + m.uh_sx(cfg) + m.eh_sx(cfg) + m.opts_sx(cfg) + repr(t) + m.terms.canon_sx(x)
    chk.count(key, nontrivial=True)
    ovr = cfg.get("ovr")
    chk.note("ext:cases", "ext:fmt:" + fmt, "ext:outcome:" + (bad[0] if bad else "ok"),
             "ext:overrides:" + ("absent" if ovr is None else "{}" if not ovr else "user"),
             "ext:top:" + (t if isinstance(t, str) else t[0]))
    if has_sunion(m, w, t):
        chk.note("ext:reaches-spill-over-union")
        for kind in sorted(set(union_natives(m, w, t))):
            chk.note("ext:union-natives:" + kind)
    alts = elit_alts(m, w, t)
    if alts:
        mixed = any(a[0] == "e" for a in alts) and any(a[0] != "e" for a in alts)
        chk.note("ext:reaches-enum-literal" + (":mixed-with-primitives" if mixed else ""))
        if cfg.get("ehook") is not None and any(a[0] == "e" and a[1] == cfg["ehook"] for a in alts):
            chk.note("ext:enum-literal-with-user-hook-on-its-enum")
    if not isinstance(t, str) and t[0] == "elit":
        chk.note("ext:enum-literal-value:" + ("member" if x[0] == "e" else "primitive"))
    if m.reaches_alias(w, t):
        chk.note("ext:reaches-attrs-field-with-explicit-alias")
    top = t[1] if (not isinstance(t, str) and t[0] == "opt" and x[0] != "N") else t
    if not isinstance(top, str) and top[0] == "sunion":
        mem = m.member_of(w, top, x) if x[0] in ("I", "l", "t", "S", "F", "d", "q") else None
        chk.note("ext:union-value:" + ("non-native-member" if mem is not None else "native-member"))
        if any(not isinstance(k, str) and k[0] == "nt" for k in top[1]):
            chk.note("ext:union-with-newtype:" + ("non-native-value" if mem is not None else "native-value"))
    if bad:
        m.report(chk, R, w, fmt, mod, cfg, t, x, bad, stream="ext")
