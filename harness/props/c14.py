"""C14 — include_subclasses preserves the exact subclass through a base-typed round trip.

Structure of the check (the reduced unions are built from Python sets of classes, so every batch runs in fresh
interpreters under several PYTHONHASHSEED values):

  parent  : generates abstract class TREES (depth <= 4, branching <= 3, <= 8 classes; all attrs or all dataclasses;
            own fields from a small alphabet, so that siblings are told apart or not; field redefinitions; defaults;
            some trees with a Literal discriminator field redefined by the subclasses; UNDECORATED classes - plain
            `class P(Base): ...` without @define / @dataclass, behaviour only - as intermediate layers between decorated
            classes and as leaves, and behaviour-only mixins from outside the hierarchy: such a class is an attrs class /
            dataclass by inheritance, a class of the hierarchy like any other, and everything below it must be reached
            THROUGH it; the model sees a node without own fields), one or two instances per class,
            and per tree four CONFIGURATIONS: {automatic, union strategy} x {forbid_extra_keys off, on}, each with random
            detailed_validation / omit_if_default / `overrides` (rename, omit_if_default) / tag name / tag generator;
            Further flavours: STAGED trees (the strategy is applied while only a prefix of the classes exists, the rest -
            new leaves, former leaves that become inner nodes, new inner nodes - is defined, then the strategy is applied to a
            fresh converter, to a copy of the first one, to the first one again, and twice to the same converter; all
            round trips after every application; the model is fed the tree as it is at application time and, for a
            repeated application, the trees the earlier applications saw - op `SUBCLSN`), and trees with CLASS-TYPED
            fields (a field of a tree class typed as another class of the tree, holding instances of its descendants;
            implementation-side oracle only: the per-class hooks are abstract in the model), and LISTED trees: the classes
            are given explicitly with `subclasses=` - depth-first, level by level, leaves first, random permutations; with
            omitted intermediate classes and omitted leaves; with a class listed twice.  Oracle there: every listed
            descendant through every listed ancestor comes back as exactly itself; a K that is not listed behaves exactly
            like a converter without the strategy; an omitted class never comes back as itself through a listed K.  The
            model is fed the tree RESTRICTED to the listed classes (`restrict`: re-parented to the nearest listed
            ancestor, plus which classes lost their direct base and the class tuple as given);
  workers : one subprocess per PYTHONHASHSEED; each realises the trees as REAL subclasses, and per configuration — on a
            fresh Converter — applies `include_subclasses(root, conv, union_strategy=…, overrides=…)` and evaluates
            `conv.structure(conv.unstructure(x, unstructure_as=K), K)` for every class K and every instance x of K or of
            a descendant of K;
  parent  : asks the Lean model (`SUBCLS`, both enumeration orders) for every (tree, configuration), then evaluates
            P   oracle (the property statement): the round trip returns an instance equal to x of exactly x's class;
                a raise is a permitted refusal only (i) at application of the automatic strategy when an independent
                reference (the documented unique-attribute rule) says some reduced union is not distinguishable,
                (ii) while structuring with the automatic strategy when the unstructured form of x is also a valid
                form of another member of K's reduced union; one outcome per case over all hash seeds;
            C   correspondence: implementation outcome == model outcome per (tree, configuration, K, x, hash seed).
"""
from __future__ import annotations

import json
import os
import subprocess
import sys
import time

STR_POOL = ["p", "q", "r", "s"]
NAMES = ["a", "b", "c", "d", "e", "f", "g"]
LIT_NAME = "k"
RENAME_TARGETS = ["ra", "rb", "rc"]
TAG_NAMES = ["_type", "_type", "_type", "kind_", "t"]


# =====================================================================================================
# shared: abstract trees
# =====================================================================================================

def eff_fields(T, c):
    """effective fields of class c: inherited ones not redefined, then the own ones"""
    node = T["classes"][c]
    if node["parent"] < 0:
        return list(node["own"])
    own_names = {f["name"] for f in node["own"]}
    return [f for f in eff_fields(T, node["parent"]) if f["name"] not in own_names] + list(node["own"])


def is_sub(T, c, k):
    while c >= 0:
        if c == k:
            return True
        c = T["classes"][c]["parent"]
    return False


def subtree(T, k):
    return [c for c in range(len(T["classes"])) if is_sub(T, c, k)]


def children(T, k):
    return [c for c in range(len(T["classes"])) if T["classes"][c]["parent"] == k]


def key_of(cfg, name):
    ov = (cfg.get("overrides") or {}).get(name) or {}
    return ov.get("rename") or name


def vcode(v):
    """injective coding of the Python values that occur (ints >= 0, strings of the pool) as naturals"""
    if isinstance(v, bool) or v is None:
        raise ValueError(v)
    if isinstance(v, int):
        if v < 0 or v >= 1000:
            raise ValueError(v)
        return v
    return 1000 + STR_POOL.index(v)


def class_name(tag, T, ci):
    return f"C14{tag}T{str(T['id']).replace('-', 'n')}K{ci}"


# =====================================================================================================
# worker (runs under a given PYTHONHASHSEED; imports cattrs from CATTRS_SRC)
# =====================================================================================================

def _field_type(f, classes):
    from typing import Literal

    if f.get("ref") is not None:
        return classes[f["ref"]]          # a field typed as another class of the tree (always an earlier class)
    return Literal[tuple(f["lit"])] if f["lit"] is not None else int


def _worker_realise(T, tag, classes=None, upto=None):
    """realise classes len(classes)..upto-1 of the tree as REAL subclasses (appends to `classes`)"""
    import dataclasses

    import attr

    classes = [] if classes is None else classes
    upto = len(T["classes"]) if upto is None else upto
    kw = T["kw_only"]
    for ci in range(len(classes), upto):
        node = T["classes"][ci]
        name = class_name(tag, T, ci)
        bases = (classes[node["parent"]],) if node["parent"] >= 0 else ()
        if node.get("mixin"):
            # a behaviour-only mixin from OUTSIDE the hierarchy (a fresh one per class: no MRO conflicts)
            mx = type(name + "Mx", (), {"describe": lambda self: type(self).__name__})
            bases = (mx, *bases) if node["mixin"] == "before" else (*bases, mx)
        if node.get("plain"):
            # an UNDECORATED class (no @define / @dataclass of its own): behaviour only, no fields - an attrs class /
            # dataclass by inheritance (attrs.has / dataclasses.is_dataclass are true of it, fields = the base's)
            cl = type(name, bases, {"area": lambda self: 0, "__doc__": "behaviour-only layer"})
            got = [a.name for a in (attr.fields(cl) if T["kind"] == "attrs" else dataclasses.fields(cl))]
            if sorted(got) != sorted(f["name"] for f in eff_fields(T, ci)):
                raise RuntimeError(f"undecorated class: fields {got}")
            classes.append(cl)
            continue
        if T["kind"] == "attrs":
            attribs = {}
            for f in node["own"]:
                ty = _field_type(f, classes)
                if f["dflt"] == "req":
                    attribs[f["name"]] = attr.ib(type=ty)
                elif f["dflt"] == "const":
                    attribs[f["name"]] = attr.ib(type=ty, default=f["dv"])
                else:
                    attribs[f["name"]] = attr.ib(type=ty, default=attr.Factory(lambda v=f["dv"]: v))
            cl = attr.make_class(name, attribs, bases=bases or (object,), kw_only=kw)
            got = [a.name for a in attr.fields(cl)]
        else:
            fs = []
            for f in node["own"]:
                ty = _field_type(f, classes)
                if f["dflt"] == "req":
                    fs.append((f["name"], ty))
                elif f["dflt"] == "const":
                    fs.append((f["name"], ty, dataclasses.field(default=f["dv"])))
                else:
                    fs.append((f["name"], ty, dataclasses.field(default_factory=lambda v=f["dv"]: v)))
            cl = dataclasses.make_dataclass(name, fs, bases=bases, kw_only=kw)
            got = [a.name for a in dataclasses.fields(cl)]
        want = [f["name"] for f in eff_fields(T, ci)]
        if sorted(got) != sorted(want):
            raise RuntimeError(f"realised fields {got} != abstract fields {want}")
        classes.append(cl)
    return classes


def _worker_instance(spec, classes):
    """{"cls": c, "args": {name: value | {"inst": <spec>}}} -> a real instance (nested for class-typed fields)"""
    args = {n: (_worker_instance(v["inst"], classes) if isinstance(v, dict) else v) for n, v in spec["args"].items()}
    return classes[spec["cls"]](**args)


def _exc_detail(e):
    """class names only (plus the key names a ForbiddenExtraKeysError carries): what the finding predicates look at"""
    d = {"exc": type(e).__name__}
    subs = getattr(e, "exceptions", None)
    if subs is not None:
        d["subs"] = [_exc_detail(s) for s in list(subs)[:6]]
    extra = getattr(e, "extra_fields", None)
    if extra is not None:
        d["extra"] = sorted(map(str, extra))
    return d


def _worker_converter(cfg):
    from cattrs import Converter

    return Converter(forbid_extra_keys=cfg["forbid"], detailed_validation=cfg["detailed"], omit_if_default=cfg["omit"])


def _worker_apply(cfg, classes, conv, listing=None):
    """include_subclasses(root, conv, ...) for the classes that exist NOW; returns the step record (no pairs yet)"""
    import functools

    from cattrs.gen import override
    from cattrs.strategies import configure_tagged_union, include_subclasses

    ov = None
    if cfg["overrides"] is not None:
        ov = {n: override(**spec) for n, spec in cfg["overrides"].items()}
    us = None
    if cfg["strategy"] == "union":
        kw = {}
        if cfg["tag_name"] != "_type":
            kw["tag_name"] = cfg["tag_name"]
        if cfg["tags"] is not None:
            table = {cl: t for cl, t in zip(classes, cfg["tags"])}
            kw["tag_generator"] = lambda cl, _t=table: _t[cl]
        us = functools.partial(configure_tagged_union, **kw) if kw else configure_tagged_union
    res = {"apply": "ok", "pairs": []}
    try:
        if listing is None:
            include_subclasses(classes[0], conv, union_strategy=us, overrides=ov)
        else:       # explicit `subclasses=`: any order, possibly with omitted classes and duplicates
            include_subclasses(classes[0], conv, subclasses=tuple(classes[i] for i in listing), union_strategy=us,
                               overrides=ov)
    except Exception as e:  # noqa: BLE001 - refusal (or crash) at application
        res["apply"] = "raise"
        res["detail"] = _exc_detail(e)
    return res


def _worker_pairs(res, pairs, classes, insts, conv):
    """structure(unstructure(x, unstructure_as=K), K) for every pair; fills res["pairs"]"""
    if res["apply"] != "ok":
        return res
    for K, ii in pairs:
        x = insts[ii]
        rec = {"un": None}
        try:
            u = conv.unstructure(x, unstructure_as=classes[K])
        except Exception as e:  # noqa: BLE001
            rec["out"] = "err-un"
            rec["detail"] = _exc_detail(e)
            res["pairs"].append(rec)
            continue
        try:
            json.dumps(u)
            rec["un"] = u
        except Exception:  # noqa: BLE001 - not a plain dict of ints/strings
            rec["un"] = {"<unprintable>": repr(u)[:100]}
        try:
            r = conv.structure(dict(u) if isinstance(u, dict) else u, classes[K])
        except Exception as e:  # noqa: BLE001 - includes RecursionError
            rec["out"] = "err-st"
            rec["detail"] = _exc_detail(e)
            res["pairs"].append(rec)
            continue
        j = next((i for i, cl in enumerate(classes) if type(r) is cl), None)
        if j is None:
            rec["out"] = "other:" + type(r).__name__
        else:
            rec["out"] = f"ok:{j}:{1 if r == x else 0}"
        res["pairs"].append(rec)
    return res


def stage_pairs(T, n0):
    """the (K, instance) pairs that exist when only the first n0 classes do"""
    return [[K, ii] for K, ii in T["pairs"] if T["instances"][ii]["cls"] < n0]


def _worker_tree(T, tag):
    """Steps per configuration (every step ends with all (K, x) round trips of the tree as it is THEN):
      single-stage tree :  "b"  fresh converter, apply
      staged tree       :  "a"  converter c1, apply while only the first `stage0` classes exist
                           -- the remaining classes (new leaves, new inner nodes) are defined --
                           "b"  fresh converter c2, apply
                           "c"  copy of c1 (taken before anything else happens to c1), apply
                           "d"  c1 itself, apply again
                           "e"  c2, apply a second time (same hierarchy)"""
    import linecache

    n0 = T.get("stage0")
    n = len(T["classes"])
    out = {"configs": [{"steps": {}} for _ in T["configs"]]}
    classes, insts, c1s = [], {}, []
    if n0:
        classes = _worker_realise(T, tag, classes, n0)
        for ii, spec in enumerate(T["instances"]):
            if spec["cls"] < n0:
                insts[ii] = _worker_instance(spec, classes)
        p0 = stage_pairs(T, n0)
        for ci, cfg in enumerate(T["configs"]):
            c1 = _worker_converter(cfg)
            out["configs"][ci]["steps"]["a"] = _worker_pairs(_worker_apply(cfg, classes, c1), p0, classes, insts, c1)
            c1s.append(c1)
    classes = _worker_realise(T, tag, classes, n)
    for ii, spec in enumerate(T["instances"]):
        if ii not in insts:
            insts[ii] = _worker_instance(spec, classes)
    out["names"] = [cl.__name__ for cl in classes]
    for ci, cfg in enumerate(T["configs"]):
        steps = out["configs"][ci]["steps"]
        c2 = _worker_converter(cfg)
        steps["b"] = _worker_pairs(_worker_apply(cfg, classes, c2, T.get("listing")), T["pairs"], classes, insts, c2)
        if T.get("listing") is not None:
            # "p": the same converter options WITHOUT the strategy (what an unlisted class has to behave like)
            c0 = _worker_converter(cfg)
            steps["p"] = _worker_pairs({"apply": "ok", "pairs": []}, T["pairs"], classes, insts, c0)
        if n0:
            if steps["a"]["apply"] == "ok":
                c3 = c1s[ci].copy()
                steps["c"] = _worker_pairs(_worker_apply(cfg, classes, c3), T["pairs"], classes, insts, c3)
                steps["d"] = _worker_pairs(_worker_apply(cfg, classes, c1s[ci]), T["pairs"], classes, insts, c1s[ci])
            if steps["b"]["apply"] == "ok":
                steps["e"] = _worker_pairs(_worker_apply(cfg, classes, c2), T["pairs"], classes, insts, c2)
    for k in [k for k in linecache.cache if k.startswith("<cattrs generated")]:
        del linecache.cache[k]
    return out


def worker_main():
    sys.path.insert(0, os.environ.get("CATTRS_SRC", "/repo/src"))
    sys.setrecursionlimit(400)   # the self-referential literal union (finding F47) recurses until the limit
    batch = json.load(sys.stdin)
    tag = batch["tag"]
    out = {}
    for T in batch["trees"]:
        try:
            out[str(T["id"])] = _worker_tree(T, tag)
        except Exception as e:  # noqa: BLE001 - a tree python/attrs itself rejects
            out[str(T["id"])] = {"error": f"{type(e).__name__}: {e}"[:300]}
    import cattrs

    json.dump({"results": out, "cattrs": os.path.dirname(cattrs.__file__),
               "hashseed": os.environ.get("PYTHONHASHSEED")}, sys.stdout)


# =====================================================================================================
# parent: generation
# =====================================================================================================

LIT_POOL = [1, 2, 3, "p", "q", "r"]


def _fld(name, lit=None, dflt="req", dv=None, ref=None):
    f = {"name": name, "lit": lit, "dflt": dflt, "dv": dv}
    if ref is not None:
        f["ref"] = ref               # the field is typed as class #ref of the same tree
    return f


def gen_args(T, c, rng, depth=0):
    """constructor arguments of an instance of class c; a class-typed field holds an instance of that class or of one of
    its descendants (at depth: of the class itself, which keeps the nesting finite)"""
    args = {}
    for f in eff_fields(T, c):
        if f.get("ref") is not None:
            cands = subtree(T, f["ref"]) if depth == 0 else [f["ref"]]
            v = rng.choice(cands)
            args[f["name"]] = {"inst": {"cls": v, "args": gen_args(T, v, rng, depth + 1)}}
            continue
        if f["dflt"] != "req" and rng.random() < 0.4:
            continue                 # take the default
        args[f["name"]] = rng.choice(f["lit"]) if f["lit"] is not None else rng.choice([0, 1, 2, 3])
    return args


def gen_tree(rng, tid, tier, flavour="plain"):
    """flavour: "plain" (one application on the finished tree), "staged" (the strategy is applied, the hierarchy grows,
    the strategy is applied again - see `_worker_tree`), "ref" (some class has a field typed as another class of the
    tree; implementation-side oracle only)"""
    n = rng.choice([1, 2, 2, 3, 3, 3, 4, 4, 5, 5, 6, 7, 8] if flavour == "plain" else
                   [3, 4, 4, 5, 5, 6, 6, 7, 8] if flavour == "listed" else [3, 3, 4, 4, 5, 5, 6, 7, 8])
    shape = rng.choice(["random", "random", "chain", "star", "bushy"])
    if flavour == "listed" and shape in ("star", "bushy") and rng.random() < 0.7:
        shape = rng.choice(["chain", "random"])        # depth >= 3 matters here
    parents, depth, nch = [-1], [1], [0]
    for ci in range(1, n):
        cand = [p for p in range(ci) if depth[p] < 4 and nch[p] < 3]
        if shape == "chain":
            p = max(cand, key=lambda q: (depth[q], q))
        elif shape == "star":
            p = min(cand, key=lambda q: (depth[q], q))
        elif shape == "bushy":
            p = min(cand, key=lambda q: (nch[q], -q))
        else:
            p = rng.choice(cand)
        parents.append(p)
        depth.append(depth[p] + 1)
        nch.append(0)
        nch[p] += 1
    literal = n >= 2 and rng.random() < 0.22 and flavour != "ref"
    mode = rng.choice(["distinct", "distinct", "distinct", "random", "random"])
    if flavour == "ref" or (flavour in ("staged", "listed") and rng.random() < 0.6):
        mode = "distinct"
    p_default = rng.choice([0.0, 0.0, 0.25, 0.5])
    classes = []
    T = {"id": tid, "kind": rng.choice(["attrs", "dc"]), "classes": classes}
    lit_vals = rng.sample(LIT_POOL, rng.randint(3, 6))
    lit_default = literal and rng.random() < 0.3
    # undecorated (behaviour-only) classes: intermediate layers between decorated classes, leaves; mixins from outside
    p_plain = rng.choice([0.0, 0.0, 0.25, 0.45]) if n >= 2 else 0.0
    p_mixin = rng.choice([0.0, 0.0, 0.2])
    for ci in range(n):
        if ci > 0 and rng.random() < p_plain:
            classes.append({"parent": parents[ci], "own": [], "plain": True,
                            **({"mixin": rng.choice(["before", "after"])} if rng.random() < p_mixin else {})})
            continue
        own = []
        inherited = eff_fields(T, parents[ci]) if ci > 0 else []
        inh_names = [f["name"] for f in inherited]
        # own fields from the shared alphabet
        k = rng.choice([0, 1, 1, 2] if ci > 0 else [1, 1, 2, 3])
        for nm in rng.sample(NAMES, k):
            if nm in inh_names and rng.random() < 0.7:
                continue                     # mostly no redefinition
            own.append(_fld(nm))
        if mode == "distinct" and ci > 0 and rng.random() < 0.9:
            own.append(_fld(f"u{ci}"))       # a required attribute no other class has
        elif mode == "random" and ci > 0 and rng.random() < 0.35:
            own.append(_fld(f"u{ci}"))
        for f in own:
            if rng.random() < p_default and not (mode == "distinct" and f["name"].startswith("u") and rng.random() < 0.8):
                f["dflt"], f["dv"] = rng.choice(["const", "const", "factory"]), rng.choice([0, 1])
        for f in own:
            # a dataclass that re-declares an inherited attribute WITHOUT a value keeps the ancestor's plain default (the
            # class attribute is found by getattr), so "required" would misdescribe the class: re-declare with the default
            inh = next((g for g in inherited if g["name"] == f["name"]), None)
            if inh is not None and f["dflt"] == "req" and inh["dflt"] == "const":
                f["dflt"], f["dv"] = "const", inh["dv"]
        if literal:
            if ci == 0:
                own.append(_fld(LIT_NAME, lit=rng.sample(lit_vals, rng.choice([1, 1, 2]))))
            elif rng.random() < 0.75:
                r = rng.random()
                if r < 0.7:
                    vals = [lit_vals[ci % len(lit_vals)]]
                elif r < 0.85:
                    vals = rng.sample(lit_vals, 2)
                else:
                    vals = [rng.choice(lit_vals)]
                own.append(_fld(LIT_NAME, lit=vals))
            for f in own:
                if f["lit"] is not None and lit_default:
                    f["dflt"], f["dv"] = "const", f["lit"][0]
        rng.shuffle(own)
        classes.append({"parent": parents[ci], "own": own,
                        **({"mixin": rng.choice(["before", "after"])} if rng.random() < p_mixin else {})})
    has_default = any(f["dflt"] != "req" for c in classes for f in c["own"])
    redefines = any(f["name"] in [g["name"] for g in eff_fields(T, c["parent"])] for c in classes if c["parent"] >= 0
                    for f in c["own"])
    T["kw_only"] = True if (has_default or redefines) else rng.random() < 0.3
    T["literal"] = literal
    T["stage0"] = None
    if flavour == "staged":
        T["stage0"] = rng.choice([1, 2, 2, 3, 3, 4][:max(1, n - 1)] if n > 2 else [1])
        T["stage0"] = min(T["stage0"], n - 1)
    if flavour == "listed":
        # explicit `subclasses=`: most classes listed (omitted intermediates = gaps, omitted leaves), in some order,
        # sometimes with a class listed twice
        # (an undecorated class has no attribute of its own to be recognised by: mostly left out of the listing)
        listed = [c for c in range(1, n) if rng.random() < (0.15 if classes[c].get("plain") else 0.8)] or [rng.choice(range(1, n))]
        dep = {c: len([k for k in range(n) if is_sub(T, c, k)]) for c in range(n)}
        order = rng.choice(["dfs", "bfs", "bfs", "random", "random", "index", "leaves-first"])
        if order == "dfs":
            listed = [c for c in preorder(T) if c in listed]
        elif order == "bfs":
            listed.sort(key=lambda c: (dep[c], c))
        elif order == "leaves-first":
            listed.sort(key=lambda c: (-dep[c], c))
        elif order == "random":
            rng.shuffle(listed)
        if rng.random() < 0.2:
            listed.insert(rng.randint(0, len(listed)), rng.choice(listed))
        T["listing"] = listed
        T["listing_order"] = order
    if flavour == "ref":
        inner = [c for c in range(n) if children(T, c)]
        pos = {c: i for i, c in enumerate(preorder(T))}
        for _ in range(rng.choice([1, 1, 2])):
            pairs = [(A, R) for A in range(1, n) for R in inner if R < A
                     and not any(f.get("ref") is not None for f in classes[A]["own"])]
            late = [(A, R) for A, R in pairs if pos[R] > pos[A]]      # R is processed after A (region of the repaired finding F57)
            if not pairs:
                break
            A, R = rng.choice(late if late and rng.random() < 0.6 else pairs)
            classes[A]["own"].append(_fld(f"r{A}", ref=R))
        T["refs"] = True
    # instances: one or two per class
    insts = []
    for ci in range(n):
        for rep in range(1 if rng.random() < 0.6 else 2):
            insts.append({"cls": ci, "args": gen_args(T, ci, rng)})
    T["instances"] = insts
    T["pairs"] = [[K, ii] for ii, inst in enumerate(insts) for K in range(n) if is_sub(T, inst["cls"], K)]
    # configurations: {auto, union} x {forbid off, on}
    all_names = sorted({f["name"] for ci in range(n) for f in eff_fields(T, ci)})
    cfgs = []
    for strategy in ("auto", "union"):
        for forbid in (False, True):
            cfg = {"strategy": strategy, "forbid": forbid, "detailed": rng.random() < 0.5,
                   "omit": rng.random() < 0.2, "overrides": None, "tag_name": "_type", "tags": None}
            r = rng.random()
            if r < 0.25 and not literal:
                ov = {}
                for nm, tgt in zip(rng.sample(all_names, min(len(all_names), rng.randint(1, 2))), RENAME_TARGETS):
                    ov[nm] = {"rename": tgt}
                cfg["overrides"] = ov
            elif r < 0.35:
                ov = {}
                for nm in rng.sample(all_names, 1):
                    if nm != LIT_NAME or rng.random() < 0.3:
                        ov[nm] = {"omit_if_default": True}
                cfg["overrides"] = ov
            elif r < 0.40:
                cfg["overrides"] = {}
            if literal and cfg["omit"] and rng.random() < 0.7:
                cfg["omit"] = False          # keep most literal trees inside the theorem's scope (finding F48 otherwise)
            if strategy == "union":
                cfg["tag_name"] = rng.choice(TAG_NAMES)
                r = rng.random()
                if r < 0.15:
                    cfg["tags"] = [f"tag{ci}" for ci in range(n)]
                elif r < 0.25:
                    cfg["tags"] = [10 + ci for ci in range(n)]
                elif r < 0.31 and n >= 2 and flavour != "listed":
                    tags = [f"tag{ci}" for ci in range(n)]
                    a, b = rng.sample(range(n), 2)
                    tags[a] = tags[b]        # NOT injective: outside the property, correspondence only
                    cfg["tags"] = tags
            cfgs.append(cfg)
    T["configs"] = cfgs
    return T


def fixed_trees():
    """regression trees, always run first"""
    def node(parent, *own):
        return {"parent": parent, "own": list(own)}

    def mk(tid, kind, classes, insts, cfgs, literal=False, kw_only=False, stage0=None, refs=False):
        T = {"id": tid, "kind": kind, "classes": classes, "kw_only": kw_only, "literal": literal, "instances": insts,
             "stage0": stage0}
        if refs:
            T["refs"] = True
        T["pairs"] = [[K, ii] for ii, inst in enumerate(insts) for K in range(len(classes))
                      if is_sub(T, inst["cls"], K)]
        T["configs"] = cfgs
        return T

    def cfg(strategy, forbid, **kw):
        d = {"strategy": strategy, "forbid": forbid, "detailed": True, "omit": False, "overrides": None,
             "tag_name": "_type", "tags": None}
        d.update(kw)
        return d

    out = []
    # the fixture of tests/strategies/test_include_subclasses.py: Parent{p} / Child1{c1} / GrandChild{g} / Child2{c2}
    # (F15 shows on the three leaves of the forbid_extra_keys configuration)
    out.append(mk(-1, "attrs",
                  [node(-1, _fld("a")), node(0, _fld("b")), node(1, _fld("c")), node(0, _fld("d"))],
                  [{"cls": 0, "args": {"a": 1}}, {"cls": 1, "args": {"a": 1, "b": 2}},
                   {"cls": 2, "args": {"a": 1, "b": 2, "c": 3}}, {"cls": 3, "args": {"a": 1, "d": 3}}],
                  [cfg("auto", False), cfg("auto", True), cfg("union", False), cfg("union", True),
                   cfg("union", True, detailed=False)]))
    # F47: the parent's own literal value is shared with a subclass that does not redefine the discriminator
    out.append(mk(-2, "attrs",
                  [node(-1, _fld(LIT_NAME, lit=["p"])), node(0, _fld("x")), node(0, _fld(LIT_NAME, lit=["q"]))],
                  [{"cls": 0, "args": {LIT_NAME: "p"}}, {"cls": 1, "args": {LIT_NAME: "p", "x": 1}},
                   {"cls": 2, "args": {LIT_NAME: "q"}}],
                  [cfg("auto", False), cfg("union", False)], literal=True, kw_only=True))
    # a proper literal hierarchy: every class its own value
    out.append(mk(-3, "dc",
                  [node(-1, _fld(LIT_NAME, lit=[1])), node(0, _fld(LIT_NAME, lit=[2]), _fld("x")),
                   node(0, _fld(LIT_NAME, lit=[3])), node(1, _fld(LIT_NAME, lit=["p"]))],
                  [{"cls": 0, "args": {LIT_NAME: 1}}, {"cls": 1, "args": {LIT_NAME: 2, "x": 0}},
                   {"cls": 2, "args": {LIT_NAME: 3}}, {"cls": 3, "args": {LIT_NAME: "p", "x": 2}}],
                  [cfg("auto", True), cfg("union", True)], literal=True, kw_only=True))
    # indistinguishable: the child adds only a defaulted field -> the automatic strategy must refuse
    out.append(mk(-4, "attrs",
                  [node(-1, _fld("a")), node(0, _fld("b", dflt="const", dv=0))],
                  [{"cls": 0, "args": {"a": 1}}, {"cls": 1, "args": {"a": 1, "b": 2}}],
                  [cfg("auto", False), cfg("union", False)], kw_only=True))
    # F48: defaulted literal discriminator omitted by omit_if_default
    out.append(mk(-5, "attrs",
                  [node(-1, _fld(LIT_NAME, lit=["p"], dflt="const", dv="p")),
                   node(0, _fld(LIT_NAME, lit=["q"], dflt="const", dv="q"), _fld("x"))],
                  [{"cls": 0, "args": {}}, {"cls": 1, "args": {"x": 1}}],
                  [cfg("auto", False, omit=True), cfg("auto", False)], literal=True, kw_only=True))
    # chain with renames through `overrides`
    out.append(mk(-6, "dc",
                  [node(-1, _fld("a")), node(0, _fld("b")), node(1, _fld("c"))],
                  [{"cls": 0, "args": {"a": 1}}, {"cls": 1, "args": {"a": 1, "b": 2}},
                   {"cls": 2, "args": {"a": 1, "b": 2, "c": 3}}],
                  [cfg("auto", True, overrides={"b": {"rename": "rb"}}),
                   cfg("union", False, overrides={"a": {"rename": "ra"}}, tag_name="t", tags=["x", "y", "z"])]))
    # the hierarchy grows between applications (Shape / Circle / Polygon, then Square(Polygon) and Ellipse(Shape)):
    # a tree discovered once must not be reused (seeded change "memoised _make_subclasses_tree")
    out.append(mk(-8, "attrs",
                  [node(-1, _fld("a")), node(0, _fld("b")), node(0, _fld("c")), node(2, _fld("d")),
                   node(0, _fld("e"), _fld("f"))],
                  [{"cls": 0, "args": {"a": 1}}, {"cls": 1, "args": {"a": 1, "b": 2}}, {"cls": 2, "args": {"a": 1, "c": 5}},
                   {"cls": 3, "args": {"a": 1, "c": 4, "d": 7}}, {"cls": 4, "args": {"a": 1, "e": 3, "f": 1}}],
                  [cfg("auto", False), cfg("auto", True), cfg("union", False), cfg("union", True),
                   cfg("union", False, tag_name="kind_")], stage0=3))
    # ... also when the new class turns a former leaf into a class with subclasses, and with `overrides`
    out.append(mk(-9, "dc",
                  [node(-1, _fld("a")), node(0, _fld("b")), node(1, _fld("c")), node(2, _fld("d"))],
                  [{"cls": 0, "args": {"a": 1}}, {"cls": 1, "args": {"a": 1, "b": 2}},
                   {"cls": 2, "args": {"a": 1, "b": 2, "c": 3}}, {"cls": 3, "args": {"a": 1, "b": 2, "c": 3, "d": 4}}],
                  [cfg("auto", False), cfg("union", False), cfg("auto", True, overrides={"b": {"rename": "rb"}}),
                   cfg("union", True)], stage0=2))
    # (was F57, repaired) Base{a} / X(Base){b} / B(Base){c} / B1(B){d} / A(X){r4: B}: depth-first, A is processed before B;
    # A's own hooks must not bind B's plain hooks - a B1 inside an A has to come back as a B1
    out.append(mk(-10, "attrs",
                  [node(-1, _fld("a")), node(0, _fld("b")), node(0, _fld("c")), node(2, _fld("d")),
                   node(1, _fld("r4", ref=2))],
                  [{"cls": 4, "args": {"a": 1, "b": 0, "r4": {"inst": {"cls": 3, "args": {"a": 2, "c": 3, "d": 4}}}}},
                   {"cls": 4, "args": {"a": 1, "b": 0, "r4": {"inst": {"cls": 2, "args": {"a": 2, "c": 3}}}}},
                   {"cls": 3, "args": {"a": 2, "c": 3, "d": 4}}],
                  [cfg("auto", False), cfg("union", False), cfg("union", True)], refs=True))
    # ... whereas a field typed as an EARLIER-processed class (here the root) keeps the subclass
    out.append(mk(-11, "attrs",
                  [node(-1, _fld("a")), node(0, _fld("b")), node(0, _fld("c"), _fld("r2", ref=0))],
                  [{"cls": 2, "args": {"a": 1, "c": 4, "r2": {"inst": {"cls": 1, "args": {"a": 2, "b": 3}}}}}],
                  [cfg("auto", False), cfg("auto", True), cfg("union", False)], refs=True))
    # explicit `subclasses=`: Event > UserEvent > _Audited > {Login, Logout}; Event > SystemEvent > Reboot, the helper
    # _Audited left out, listed level by level (seeded changes "contiguous run" / "parent_classes gate")
    evt = [node(-1, _fld("a")), node(0, _fld("b")), node(1, _fld("c")), node(2, _fld("d")), node(2, _fld("e")),
           node(0, _fld("f")), node(5, _fld("g"))]
    evi = [{"cls": 0, "args": {"a": 1}}, {"cls": 1, "args": {"a": 1, "b": 2}},
           {"cls": 3, "args": {"a": 1, "b": 2, "c": 3, "d": 4}}, {"cls": 4, "args": {"a": 1, "b": 2, "c": 3, "e": 5}},
           {"cls": 5, "args": {"a": 1, "f": 6}}, {"cls": 6, "args": {"a": 1, "f": 6, "g": 7}},
           {"cls": 2, "args": {"a": 1, "b": 2, "c": 3}}]
    T = mk(-12, "attrs", evt, evi, [cfg("auto", False), cfg("auto", True), cfg("union", False), cfg("union", True),
                                    cfg("union", False, tag_name="kind_")])
    T["listing"] = [1, 5, 3, 4, 6]
    out.append(T)
    # ... everything listed, breadth-first (depth 4)
    T = mk(-13, "dc", json.loads(json.dumps(evt)), evi, [cfg("auto", False), cfg("union", False), cfg("union", True)])
    T["listing"] = [1, 5, 2, 6, 3, 4]
    out.append(T)
    # F65: K > _Helper > Leaf listed as (Leaf,): nothing is configured by the union strategy
    T = mk(-14, "attrs", [node(-1, _fld("a")), node(0, _fld("b")), node(1, _fld("c"))],
           [{"cls": 0, "args": {"a": 1}}, {"cls": 2, "args": {"a": 1, "b": 2, "c": 3}}, {"cls": 1, "args": {"a": 1, "b": 2}}],
           [cfg("union", False), cfg("union", True), cfg("auto", False)])
    T["listing"] = [2]
    out.append(T)
    # F64: a leaf listed twice makes the union strategy raise at application (the diamond crash)
    T = mk(-15, "attrs", [node(-1, _fld("a")), node(0, _fld("b")), node(0, _fld("c")), node(2, _fld("d"))],
           [{"cls": 0, "args": {"a": 1}}, {"cls": 1, "args": {"a": 1, "b": 2}}, {"cls": 3, "args": {"a": 1, "c": 2, "d": 3}}],
           [cfg("union", False), cfg("auto", False), cfg("auto", True)])
    T["listing"] = [1, 2, 3, 1]
    out.append(T)
    # UNDECORATED classes: Shape{a} > Polygon (plain, behaviour only) > {Triangle{b}, Rect{c} > Square{d}}; Shape > Circle{e}.
    # Polygon is an attrs class / dataclass by inheritance and a class of the hierarchy like any other: found by the
    # discovery, a member of the unions, a legitimate K; everything below it must be reached THROUGH it.
    def plain(parent, **kw):
        return dict({"parent": parent, "own": [], "plain": True}, **kw)

    shp = [node(-1, _fld("a")), plain(0), node(1, _fld("b")), node(1, _fld("c")), node(3, _fld("d")), node(0, _fld("e"))]
    shi = [{"cls": 0, "args": {"a": 1}}, {"cls": 1, "args": {"a": 2}}, {"cls": 2, "args": {"a": 1, "b": 2}},
           {"cls": 3, "args": {"a": 1, "c": 3}}, {"cls": 4, "args": {"a": 1, "c": 3, "d": 4}}, {"cls": 5, "args": {"a": 1, "e": 5}}]
    out.append(mk(-16, "attrs", shp, shi, [cfg("union", False), cfg("union", True), cfg("union", False, tag_name="kind_"),
                                           cfg("auto", False)]))
    # ... the automatic strategy with a listing that skips the undecorated layer (it has no attribute to be recognised by)
    T = mk(-17, "dc", json.loads(json.dumps(shp)), shi, [cfg("auto", False), cfg("auto", True), cfg("union", False)])
    T["listing"] = [2, 3, 4, 5]
    out.append(T)
    # ... undecorated leaves, and behaviour-only mixins from outside the hierarchy (before / after the base)
    out.append(mk(-18, "attrs", [node(-1, _fld("a")), dict(node(0, _fld("b")), mixin="before"), plain(1),
                                 plain(0, mixin="after"), dict(node(3, _fld("c")), mixin="after")],
                  [{"cls": 0, "args": {"a": 1}}, {"cls": 1, "args": {"a": 1, "b": 2}}, {"cls": 2, "args": {"a": 1, "b": 3}},
                   {"cls": 3, "args": {"a": 4}}, {"cls": 4, "args": {"a": 4, "c": 5}}],
                  [cfg("union", False), cfg("union", True, detailed=False), cfg("auto", False)]))
    # F47 once more, three levels down and through the root: C1{k: 'p'} > G{x} (inherits 'p') > GG{k: 'q'} below a root with
    # its own value - structure(form of C1, C1) and structure(form of C1, Root) recurse without end (reduced union >= 3)
    out.append(mk(-19, "attrs",
                  [node(-1, _fld(LIT_NAME, lit=["r"])), node(0, _fld(LIT_NAME, lit=["p"])), node(1, _fld("x")),
                   node(2, _fld(LIT_NAME, lit=["q"]))],
                  [{"cls": 1, "args": {LIT_NAME: "p"}}, {"cls": 2, "args": {LIT_NAME: "p", "x": 1}},
                   {"cls": 3, "args": {LIT_NAME: "q", "x": 2}}, {"cls": 0, "args": {LIT_NAME: "r"}}],
                  [cfg("auto", False), cfg("auto", True)], literal=True, kw_only=True))
    # F66 / F15 once more: A > B > C listed descendants first, union strategy, forbid_extra_keys
    T = mk(-20, "attrs", [node(-1, _fld("a")), node(0, _fld("b")), node(1, _fld("c")), node(2, _fld("d"))],
           [{"cls": 0, "args": {"a": 1}}, {"cls": 1, "args": {"a": 1, "b": 2}}, {"cls": 2, "args": {"a": 1, "b": 2, "c": 3}},
            {"cls": 3, "args": {"a": 1, "b": 2, "c": 3, "d": 4}}],
           [cfg("union", True), cfg("union", False)])
    T["listing"] = [3, 2, 1]
    out.append(T)
    # (was F49, repaired by 63cd579) a dataclass field with only a default_factory is not a key to recognise a class by:
    # P{a} / C(P){e = field(default_factory=...)} cannot be told apart, the automatic strategy refuses
    out.append(mk(-7, "dc",
                  [node(-1, _fld("a")), node(0, _fld("e", dflt="factory", dv=1))],
                  [{"cls": 0, "args": {"a": 1}}, {"cls": 1, "args": {"a": 1}}, {"cls": 1, "args": {"a": 1, "e": 2}}],
                  [cfg("auto", False, omit=True), cfg("auto", True, omit=True), cfg("auto", False)], kw_only=True))
    return out


# =====================================================================================================
# parent: model queries
# =====================================================================================================

def esc(s):
    return json.dumps(s)


def dreq(T, f):
    """what the disambiguator takes for 'no default' (see harness/props/c12.py)"""
    # (until fix F49 a dataclass field with only a default_factory also counted)
    return f["dflt"] == "req"


def omit_in_effect(cfg, f):
    """does the class's own unstructure hook drop the field when it equals its default?  With `overrides` (even {}) the
    strategy generates the hooks itself (omit_if_default off unless overridden per attribute); without, the converter's."""
    if f["dflt"] == "req":
        return False
    if cfg["overrides"] is None:
        return bool(cfg["omit"])
    return bool((cfg["overrides"].get(f["name"]) or {}).get("omit_if_default"))


def tree_sx(T, cfg, upto=None):
    out = []
    for node in T["classes"][:upto]:
        fs = []
        for f in node["own"]:
            lit = "N" if f["lit"] is None else "(" + " ".join(str(vcode(v)) for v in f["lit"]) + ")"
            dv = "N" if f["dflt"] == "req" else str(vcode(f["dv"]))
            fs.append(f"({esc(f['name'])} {esc(key_of(cfg, f['name']))} {1 if dreq(T, f) else 0} {lit} {dv} "
                      f"{1 if omit_in_effect(cfg, f) else 0})")
        p = "-" if node["parent"] < 0 else str(node["parent"])
        out.append(f"({p} ({' '.join(fs)}))")
    nodes = "(" + " ".join(out) + ")"
    if T.get("labels"):      # explicit listing: which classes hang below an omitted base; the class tuple as given
        return f"(listed {nodes} ({' '.join(map(str, T['indirect']))}) ({' '.join(map(str, T['order']))}))"
    return nodes


def tag_sx(t):
    return f"(i {t})" if isinstance(t, int) else f"(s {esc(t)})"


def full_values(T, inst):
    vals = {}
    for f in eff_fields(T, inst["cls"]):
        vals[f["name"]] = inst["args"].get(f["name"], f["dv"])
    return vals


def inst_sx(T, inst):
    items = " ".join(f"({esc(n)} (i {vcode(v)}))" for n, v in full_values(T, inst).items())
    return f"(I {inst['cls']} {items})"


STEP_DOC = {"a": "first application, before the hierarchy grows", "b": "fresh converter, finished hierarchy",
            "c": "copy of the first converter, applied again after the hierarchy grew",
            "d": "the first converter itself, applied again after the hierarchy grew",
            "e": "second application to the same converter, same hierarchy"}


def step_pairs(T, step):
    return stage_pairs(T, T["stage0"]) if step == "a" else T["pairs"]


def model_query(drv, T, cfg, names, rev, step="b"):
    """the model's answer for one step of one configuration (the model is fed the tree as it is at application time; for
    a repeated application it is told which trees the earlier applications to that converter saw)"""
    from harness import lean, terms

    if cfg["strategy"] == "auto":
        st = "auto"
    else:
        tags = cfg["tags"] if cfg["tags"] is not None else names
        st = f"(union {esc(cfg['tag_name'])} ({' '.join(tag_sx(t) for t in tags)}))"
    pairs = step_pairs(T, step)
    cases = " ".join(f"({K} {inst_sx(T, T['instances'][ii])})" for K, ii in pairs)
    fb, rv = (1 if cfg["forbid"] else 0), (1 if rev else 0)
    if step == "a":
        line = f"SUBCLS {tree_sx(T, cfg, T['stage0'])} {st} {fb} {rv} ({cases})"
    elif step == "b":
        line = f"SUBCLS {tree_sx(T, cfg)} {st} {fb} {rv} ({cases})"
    else:
        first = tree_sx(T, cfg, T["stage0"]) if step in ("c", "d") else tree_sx(T, cfg)
        inherit = 1 if cfg["overrides"] is None else 0
        line = f"SUBCLSN ({first} {tree_sx(T, cfg)}) {st} {fb} {rv} {inherit} ({cases})"
    r = drv.ask(line)
    if not r.startswith("(("):
        raise lean.InfraError(f"model driver answered {r!r} to {line[:400]}")
    p = terms.parse_sx(r)
    M = {"scope": {}, "out": [], "inscope": [], "un": [], "applies": [True]}
    for e in p:
        if e[0] == "apply":
            M["apply"] = e[1] == "1"
        elif e[0] == "applies":
            M["applies"] = [b == "1" for b in e[1:]]
        elif e[0] == "scope":
            M["scope"][e[1]] = e[2] == "1"
        elif e[0] == "cases":
            for (K, ii), c in zip(pairs, e[1:]):
                un, rt, sc = c
                M["inscope"].append(sc == "1")
                M["un"].append(un)
                if rt[0] == "err":
                    M["out"].append("err")
                    continue
                o = rt[1]
                cls = int(o[1])
                got = {f[0][1]: int(f[1][1]) for f in o[2:]}
                want = {n: vcode(v) for n, v in full_values(T, T["instances"][ii]).items()}
                M["out"].append(f"ok:{cls}:{1 if (cls == T['instances'][ii]['cls'] and got == want) else 0}")
    if len(M["out"]) != len(pairs):
        raise lean.InfraError("model driver answered a different number of cases")
    M["apply"] = M["apply"] and all(M["applies"])
    if M["scope"].get("hierarchy") is False:
        raise lean.InfraError("generator produced a tree outside the theorems' scope (a class before its base, or a class "
                              "statement the model's discovery does not reach): " + line[:300])
    return M


# =====================================================================================================
# parent: the independent references the oracle uses (nothing here looks at cattrs or at the model)
# =====================================================================================================

def ref_fields(T, cfg, c):
    """key -> (truly required?, literal values or None)"""
    return {key_of(cfg, f["name"]): (f["dflt"] == "req", "ref" if f.get("ref") is not None else f["lit"])
            for f in eff_fields(T, c)}


def ref_union_distinguishable(T, cfg, members, by_attributes_only=False):
    """The documented rule ("every class of the union must have an attribute name no other class has", one class may be
    the fallback; a class that has been told apart no longer stands in the way of the others).
    True / False; None when all members share a Literal-typed attribute (value-based discrimination: no verdict) unless
    `by_attributes_only`."""
    fs = {c: ref_fields(T, cfg, c) for c in members}
    common_lit = set.intersection(*[{k for k, (_, lit) in fs[c].items() if isinstance(lit, list)} for c in members])
    if common_lit and not by_attributes_only:
        return None
    rest = set(members)
    while True:
        told = {c for c in rest
                if any(req and all(k not in fs[o] for o in rest if o != c) for k, (req, _) in fs[c].items())}
        if not told:
            break
        rest -= told
    return len(rest) <= 1


def ref_literal_peers(T, cfg, members, u):
    """the members whose Literal-typed attributes accept the values the dict u carries (the literal values do not
    separate them from the class u came from)"""
    out = []
    for c in members:
        ok = True
        for k, (_, lit) in ref_fields(T, cfg, c).items():
            if isinstance(lit, list) and k in u and not any(type(u[k]) is type(x) and u[k] == x for x in lit):
                ok = False
        if ok:
            out.append(c)
    return out


def ref_refusal_permitted(T, cfg, K, D, u):
    """May structuring the unstructured form u of an instance of D as K raise?  Only when u does not determine D:
    u is also a form of another class of K's reduced union, or the classes its literal values leave over cannot be told
    apart by attributes of their own."""
    members = subtree(T, K)
    if not isinstance(u, dict):
        return False
    if any(ref_payload_fits(T, cfg, B, u) for B in members if B != D):
        return True
    peers = ref_literal_peers(T, cfg, members, u)
    return len(peers) >= 2 and D in peers and ref_union_distinguishable(T, cfg, peers, by_attributes_only=True) is False


def ref_payload_fits(T, cfg, c, u):
    """is the dict u an unstructured form of SOME instance of class c?"""
    fs = ref_fields(T, cfg, c)
    if not isinstance(u, dict) or any(k not in fs for k in u):
        return False
    for k, (req, lit) in fs.items():
        if k not in u:
            if req:
                return False
            continue
        v = u[k]
        if lit == "ref":
            if not isinstance(v, dict):
                return False
        elif lit is not None:
            if not any(type(v) is type(x) and v == x for x in lit):
                return False
        elif not isinstance(v, int):
            return False
    return True


def preorder(T, c=0):
    """`_make_subclasses_tree`: the order in which the strategy processes the classes"""
    out = [c]
    for ch in children(T, c):
        out += preorder(T, ch)
    return out


def early_bound_loss(T, spec):
    """region of the repaired finding F57, judged on the instance alone (evidence histogram only): somewhere inside it an
    instance of class H holds, under a field typed R (another class of the tree), an instance of a strict descendant of R,
    where R is processed AFTER H by the depth-first walk - before the repair H's own hooks were generated (and bound R's
    plain hooks) before the strategy got to R"""
    pos = {c: i for i, c in enumerate(preorder(T))}
    H = spec["cls"]
    for f in eff_fields(T, H):
        if f.get("ref") is None:
            continue
        v = spec["args"][f["name"]]["inst"]
        if (v["cls"] != f["ref"] and pos[f["ref"]] > pos[H]) or early_bound_loss(T, v):
            return True
    return False


def inner_nodes(T):
    return [c for c in range(len(T["classes"])) if children(T, c)]


# =====================================================================================================
# parent: workers, known findings
# =====================================================================================================

def run_workers(trees, seeds, tag, chunk=100, parallel=8):
    """fresh interpreters per chunk of trees (`include_subclasses` calls gc.collect(), which gets slower as classes pile
    up) and per hash seed, at most `parallel` at a time; returns {seed: results}"""
    import threading

    env0 = dict(os.environ)
    root = os.path.dirname(os.path.dirname(os.path.dirname(os.path.abspath(__file__))))
    env0["PYTHONPATH"] = root + ":" + os.environ.get("CATTRS_SRC", "/repo/src")
    env0["PYTHONDONTWRITEBYTECODE"] = "1"
    jobs = [(s, i) for i in range(0, len(trees), chunk) for s in seeds]
    outs, sem = {}, threading.Semaphore(parallel)

    def work(s, i):
        with sem:
            env = dict(env0)
            env["PYTHONHASHSEED"] = str(s)
            p = subprocess.Popen([sys.executable, "-m", "harness.props.c14", "--worker"], cwd="/tmp", env=env,
                                 stdin=subprocess.PIPE, stdout=subprocess.PIPE, stderr=subprocess.PIPE, text=True)
            so, se = p.communicate(json.dumps({"tag": f"{tag}{i // chunk}x", "trees": trees[i:i + chunk]}))
            outs[(s, i)] = (p.returncode, so, se)

    ths = [threading.Thread(target=work, args=j) for j in jobs]
    for t in ths:
        t.start()
    for t in ths:
        t.join()
    res = {}
    for (s, i) in jobs:
        rc, so, se = outs[(s, i)]
        if rc != 0:
            from harness import lean
            raise lean.InfraError(f"C14 worker (PYTHONHASHSEED={s}) failed: {se[-1500:]}")
        part = json.loads(so)
        if s not in res:
            res[s] = part
        else:
            res[s]["results"].update(part["results"])
    return res


def _only_forbidden_extra(detail, key):
    """the failure is ForbiddenExtraKeysError naming exactly `key` (bare, or alone inside a ClassValidationError)"""
    if not detail:
        return False
    if detail.get("exc") == "ForbiddenExtraKeysError":
        return detail.get("extra") == [key]
    if detail.get("exc") == "ClassValidationError":
        subs = detail.get("subs") or []
        return len(subs) == 1 and subs[0].get("exc") == "ForbiddenExtraKeysError" and subs[0].get("extra") == [key]
    return False


def case_tree(case):
    """the tree as it was at the application the failing step belongs to"""
    return step_tree(case["tree"], case.get("step", "b"))


def _install_findings():
    from harness import framework

    @framework.finding("subclasses-leaf-tag-forbidden")
    def f15(case):
        """F15: union strategy + forbid_extra_keys + K has no subclasses (and the tree has some) + the only failure is the
        member hook rejecting the tag key"""
        try:
            T, cfg = case_tree(case), case["config"]
            return (case.get("kind") == "pair" and cfg["strategy"] == "union" and cfg["forbid"] is True
                    and len(T["classes"]) >= 2 and not children(T, case["K"])
                    and T["instances"][case["inst"]]["cls"] == case["K"]
                    and case["impl"] == "err-st" and _only_forbidden_extra(case.get("detail"), cfg["tag_name"]))
        except Exception:  # noqa: BLE001 - a case of another shape
            return False

    @framework.finding("subclasses-literal-self-union-recursion")
    def f47(case):
        """F47: automatic strategy, RecursionError while structuring an instance of a class that has subclasses, one of
        whose Literal values (of an attribute that is Literal-typed in every class below it) a strict descendant shares"""
        try:
            T, cfg = case_tree(case), case["config"]
            if not (case.get("kind") == "pair" and cfg["strategy"] == "auto" and case["impl"] == "err-st"
                    and (case.get("detail") or {}).get("exc") == "RecursionError"):
                return False
            inst = T["instances"][case["inst"]]
            D = inst["cls"]
            below = [c for c in subtree(T, D) if c != D]
            vals = full_values(T, inst)
            for f in eff_fields(T, D):
                if f["lit"] is None:
                    continue
                fb = [{g["name"]: g for g in eff_fields(T, c)}.get(f["name"]) for c in below]
                if below and all(g is not None and g["lit"] is not None for g in fb) \
                        and any(vals[f["name"]] in g["lit"] for g in fb):
                    return True
            return False
        except Exception:  # noqa: BLE001
            return False

    @framework.finding("literal-discriminator-omitted")
    def f48(case):
        """F48: automatic strategy, KeyError while structuring: a Literal-typed attribute with a default was left out of
        the unstructured form by omit_if_default"""
        try:
            T, cfg = case["tree"], case["config"]
            if not (case.get("kind") == "pair" and cfg["strategy"] == "auto" and case["impl"] == "err-st"
                    and (case.get("detail") or {}).get("exc") == "KeyError" and isinstance(case.get("un"), dict)):
                return False
            D = T["instances"][case["inst"]]["cls"]
            return any(f["lit"] is not None and omit_in_effect(cfg, f) and key_of(cfg, f["name"]) not in case["un"]
                       for f in eff_fields(T, D))
        except Exception:  # noqa: BLE001
            return False

    @framework.finding("subclasses-union-reapplied-forbid")
    def f58(case):
        """F58: union strategy + forbid_extra_keys, no `overrides`, the strategy applied to a converter (or a copy of one)
        it had been applied to before: KeyError while structuring an instance of a class that had subclasses at the EARLIER
        application (its captured hook is the earlier union hook, which looks for the tag the new one has popped)"""
        try:
            T, cfg, step = case["tree"], case["config"], case.get("step")
            if not (case.get("kind") == "pair" and cfg["strategy"] == "union" and cfg["forbid"] is True
                    and cfg["overrides"] is None and step in ("c", "d", "e") and case["impl"] == "err-st"
                    and (case.get("detail") or {}).get("exc") == "KeyError"):
                return False
            earlier = step_tree(T, "a") if step in ("c", "d") else T
            D = T["instances"][case["inst"]]["cls"]
            return D < len(earlier["classes"]) and bool(children(earlier, D))
        except Exception:  # noqa: BLE001
            return False


    @framework.finding("subclasses-union-duplicate-leaf")
    def f64(case):
        """F64: union strategy, applying it raises AttributeError: a class without (listed) subclasses occurs twice in the
        class tuple (listed twice in `subclasses=`; a diamond found twice by `_make_subclasses_tree`)"""
        try:
            T, cfg = case["tree"], case["config"]
            return (case.get("kind") == "apply" and cfg["strategy"] == "union" and case.get("impl") == "raise"
                    and (case.get("detail") or {}).get("exc") == "AttributeError"
                    and any(not children(T, c) for c in T.get("dups") or []))
        except Exception:  # noqa: BLE001
            return False

    @framework.finding("subclasses-union-gaps-no-parent")
    def f65(case):
        """F65: union strategy, explicit `subclasses=` in which NO listed class is the direct base of a listed class
        (`parent_classes` empty: nothing is configured): a listed descendant structured through a listed ancestor comes
        back as the ancestor (or is rejected by forbid_extra_keys), and its unstructured form carries no tag"""
        try:
            T, cfg = case["tree"], case["config"]
            n = len(T["classes"])
            if not (case.get("kind") == "pair" and cfg["strategy"] == "union" and T.get("labels") and n >= 2
                    and sorted(T["indirect"]) == list(range(1, n))):
                return False
            K, D = case["K"], T["instances"][case["inst"]]["cls"]
            return (K != D and case["impl"] in (f"ok:{K}:0", "err-st") and isinstance(case.get("un"), dict)
                    and cfg["tag_name"] not in case["un"])
        except Exception:  # noqa: BLE001
            return False


    @framework.finding("subclasses-union-inner-before-ancestor")
    def f66(case):
        """F66: union strategy + forbid_extra_keys + explicit `subclasses=` in which x's class D (which has listed
        subclasses) stands before the (last) place of K in the class tuple - K an ancestor of D, or D itself listed twice:
        K's union hook has captured D's union hook as D's own, pops the tag, and the captured hook raises KeyError"""
        try:
            T, cfg = case["tree"], case["config"]
            if not (case.get("kind") == "pair" and cfg["strategy"] == "union" and cfg["forbid"] is True and T.get("labels")
                    and case["impl"] == "err-st" and (case.get("detail") or {}).get("exc") == "KeyError"):
                return False
            K, D = case["K"], T["instances"][case["inst"]]["cls"]
            order = T["order"]
            last_k = max(i for i, c in enumerate(order) if c == K)
            return bool(children(T, D)) and any(c == D and i < last_k for i, c in enumerate(order))
        except Exception:  # noqa: BLE001
            return False


PENDING_FINDINGS = [
    {"id": "F15", "property": "C14", "kind": "finding", "signature": "subclasses-leaf-tag-forbidden",
     "what": "include_subclasses with a union strategy on a converter with forbid_extra_keys=True: a class without "
             "subclasses keeps its own structure hook but gets the union's tagging unstructure hook, so "
             "structure(unstructure(x, unstructure_as=Leaf), Leaf) rejects the tag key (ForbiddenExtraKeysError: _type)"},
    {"id": "F47", "property": "C14", "kind": "finding", "signature": "subclasses-literal-self-union-recursion",
     "what": "include_subclasses, automatic strategy, Literal discriminator: when a class with subclasses shares one of "
             "its own literal values with a descendant (e.g. a subclass that does not redefine the field), the "
             "disambiguator answers Union[Parent, Child], the converter's union hook picks Parent and re-enters Parent's "
             "hook: RecursionError for every instance of the parent itself"},
    {"id": "F48", "property": "C14", "kind": "finding", "signature": "literal-discriminator-omitted",
     "what": "Literal discriminator attribute with a default + omit_if_default: unstructure leaves the key out and the "
             "disambiguation function reads data[<discriminator>] unconditionally: KeyError (also for a plain Union; "
             "C12's LitKeysPresent hypothesis)"},
    {"id": "F58", "property": "C14", "kind": "finding", "signature": "subclasses-union-reapplied-forbid",
     "what": "include_subclasses with a union strategy applied a second time to the same converter (or to a copy of it, e.g. "
             "to pick up classes defined since) with forbid_extra_keys=True and no overrides: the second application "
             "captures the FIRST application's union structure hook as the class's own hook; the new union hook pops the tag "
             "and the old one then fails to find it: KeyError('_type') for every instance of a class that already had "
             "subclasses at the first application"},
    {"id": "F64", "property": "C14", "kind": "finding", "signature": "subclasses-union-duplicate-leaf",
     "what": "include_subclasses with a union strategy raises AttributeError (type object 'E' has no attribute '__args__') "
             "while it is applied when a class without subclasses occurs twice in the class tuple - a diamond "
             "(B > C, D > E(C, D): _make_subclasses_tree yields B, C, E, D, E) or subclasses=(M, Leaf, M): the second pass "
             "builds Union[(E, E)], which is E itself, and hands it to the union strategy"},
    {"id": "F65", "property": "C14", "kind": "finding", "signature": "subclasses-union-gaps-no-parent",
     "what": "include_subclasses(K, conv, subclasses=(Leaf,), union_strategy=...) with K > _Helper > Leaf: _has_subclasses "
             "only looks at DIRECT subclasses, parent_classes is empty and the strategy returns without configuring "
             "anything: structure(unstructure(Leaf(...), unstructure_as=K), K) returns a bare K, the subclass is silently "
             "lost (the automatic strategy handles the same listing)"},
    {"id": "F66", "property": "C14", "kind": "finding", "signature": "subclasses-union-inner-before-ancestor",
     "what": "include_subclasses with a union strategy, forbid_extra_keys=True and an explicit subclasses= tuple in which a "
             "class that has subclasses itself is listed before one of its ancestors (A > B > C > D, subclasses=(C, D, B)) or "
             "twice: the second pass assumes descendants come later; B's union hook captures C's union hook as C's own "
             "hook, pops the tag, and the captured hook raises KeyError('_type') for every C structured through B"},
]


def ensure_findings(chk):
    """VERIF_C14_PENDING_FINDINGS=1: treat the findings this check recognises as recorded even if known_findings.json
    does not list them yet (builder's own testing)."""
    _install_findings()
    if os.environ.get("VERIF_C14_PENDING_FINDINGS") == "1":
        have = {f.get("signature") for f in chk.known}
        chk.known += [f for f in PENDING_FINDINGS if f["signature"] not in have]


def tree_source(T, cfg=None):
    """Python source of the realised classes and of the configuration (for replays / reports)"""
    lines = ["import attrs, dataclasses", "from typing import Literal", "from functools import partial",
             "from cattrs import Converter", "from cattrs.gen import override",
             "from cattrs.strategies import include_subclasses, configure_tagged_union", ""]
    kw = "kw_only=True" if T["kw_only"] else ""
    listing = None
    if T.get("full"):
        if cfg is not None:
            cfg = T["full"]["configs"][T["configs"].index(cfg)] if cfg in T["configs"] else cfg
        T = T["full"]
    if T.get("listing") is not None:
        listing = "(" + ", ".join(f"K{c}" for c in T["listing"]) + ",)"
    for ci, node in enumerate(T["classes"]):
        deco = f"@attrs.define({kw})" if T["kind"] == "attrs" else f"@dataclasses.dataclass({kw})"
        bs = [f"K{node['parent']}"] if node["parent"] >= 0 else []
        if node.get("mixin"):
            lines.append(f"class Mx{ci}:                     # behaviour-only mixin from outside the hierarchy\n    def describe(self): ...")
            bs = [f"Mx{ci}"] + bs if node["mixin"] == "before" else bs + [f"Mx{ci}"]
        base = f"({', '.join(bs)})" if bs else ""
        if node.get("plain"):
            lines.append(f"class K{ci}{base}:               # UNDECORATED: behaviour only, no fields of its own\n    def area(self): ...")
            if T.get("stage0") and ci == T["stage0"] - 1:
                lines.append("# ---- step a: include_subclasses(K0, c1, ...) is applied HERE, with the classes above; then:")
            continue
        lines.append(f"{deco}\nclass K{ci}{base}:")
        if not node["own"]:
            lines.append("    pass")
        for f in node["own"]:
            ty = "Literal[" + ", ".join(repr(v) for v in f["lit"]) + "]" if f["lit"] is not None else "int"
            if f.get("ref") is not None:
                ty = f"K{f['ref']}"
            d = ""
            if f["dflt"] == "const":
                d = f" = {f['dv']!r}"
            elif f["dflt"] == "factory":
                d = (f" = attrs.Factory(lambda: {f['dv']!r})" if T["kind"] == "attrs"
                     else f" = dataclasses.field(default_factory=lambda: {f['dv']!r})")
            lines.append(f"    {f['name']}: {ty}{d}")
        if T.get("stage0") and ci == T["stage0"] - 1:
            lines.append("# ---- step a: include_subclasses(K0, c1, ...) is applied HERE, with the classes above; then:")
    if cfg is not None:
        lines.append("")
        lines.append(f"conv = Converter(forbid_extra_keys={cfg['forbid']}, detailed_validation={cfg['detailed']}, "
                     f"omit_if_default={cfg['omit']})")
        ov = "None"
        if cfg["overrides"] is not None:
            ov = "{" + ", ".join(f"{n!r}: override(**{spec!r})" for n, spec in cfg["overrides"].items()) + "}"
        us = "None"
        if cfg["strategy"] == "union":
            kws = []
            if cfg["tag_name"] != "_type":
                kws.append(f"tag_name={cfg['tag_name']!r}")
            if cfg["tags"] is not None:
                table = "{" + ", ".join(f"K{i}: {t!r}" for i, t in enumerate(cfg["tags"])) + "}"
                kws.append(f"tag_generator={table}.__getitem__")
            us = f"partial(configure_tagged_union, {', '.join(kws)})" if kws else "configure_tagged_union"
        sub = f"subclasses={listing}, " if listing else ""
        lines.append(f"include_subclasses(K0, conv, {sub}union_strategy={us}, overrides={ov})")
    return "\n".join(lines)


def inst_source(spec, T=None):
    args = ", ".join(f"{n}={(inst_source(v['inst'], T) if isinstance(v, dict) else repr(v))}" for n, v in spec["args"].items())
    return f"{kn(T or {}, spec['cls'])}({args})"


def call_source(T, K, ii, step="b"):
    pre = "" if not T.get("stage0") else f"# step {step}: {STEP_DOC[step]}\n"
    return pre + (f"x = {inst_source(T['instances'][ii], T)}; "
                  f"conv.structure(conv.unstructure(x, unstructure_as={kn(T, K)}), {kn(T, K)})")


# =====================================================================================================
# parent: oracle + correspondence
# =====================================================================================================

def canon(code):
    if code.startswith("ok:"):
        return code
    if code.startswith("err"):
        return "err"
    return "other"


def in_property(T, cfg):
    """configurations the property speaks about: a union strategy with an injective tag generator"""
    if cfg["strategy"] == "union" and cfg["tags"] is not None and len(set(cfg["tags"])) < len(cfg["tags"]):
        return False
    return True


def restrict(T):
    """The tree the strategy works on when the classes are given explicitly (`subclasses=T["listing"]`): the root and the
    listed classes, each below its nearest listed ancestor and carrying the fields of the omitted classes in between;
    `indirect`: listed classes whose direct base is not listed; `dups`: listed more than once.  Returns the restricted
    tree (an ordinary tree, class/instance indices renumbered; `labels` / `full` point back) and the index maps."""
    keep = sorted({0} | set(T["listing"]))
    new = {c: i for i, c in enumerate(keep)}

    def up(c):
        p = T["classes"][c]["parent"]
        while p >= 0 and p not in new:
            p = T["classes"][p]["parent"]
        return p

    classes = [{"parent": (new[up(c)] if c != 0 else -1), "own": json.loads(json.dumps(eff_fields(T, c)))} for c in keep]
    imap, insts = {}, []
    for ii, inst in enumerate(T["instances"]):
        if inst["cls"] in new:
            imap[ii] = len(insts)
            insts.append({"cls": new[inst["cls"]], "args": inst["args"]})
    Tr = {"id": T["id"], "kind": T["kind"], "kw_only": T["kw_only"], "literal": T["literal"], "stage0": None,
          "classes": classes, "instances": insts,
          "indirect": [new[c] for c in keep if c != 0 and T["classes"][c]["parent"] not in new],
          "dups": [new[c] for c in keep if T["listing"].count(c) > 1],
          "order": [0] + [new[c] for c in T["listing"]],
          "labels": keep, "full": T}
    Tr["pairs"] = [[new[K], imap[ii]] for K, ii in T["pairs"] if K in new and ii in imap]
    Tr["configs"] = []
    for cfg in T["configs"]:
        c2 = dict(cfg)
        if cfg["tags"] is not None:
            c2["tags"] = [cfg["tags"][c] for c in keep]
        Tr["configs"].append(c2)
    return Tr, new, imap


def prepare(trees, wres, seeds):
    """Trees with an explicit listing are evaluated as their restriction (`restrict`): the workers' results for the pairs
    of listed classes are re-indexed accordingly.  What the strategy must NOT do is judged here:
      * a pair whose K is not listed gives exactly what a converter without the strategy gives;
      * an instance of an unlisted class never comes back as that class through a listed K.
    Returns (trees to evaluate, results, oracle failures)."""
    out_trees, fails = [], []
    res = {s: {"results": dict(wres[s]["results"]), "cattrs": wres[s]["cattrs"]} for s in seeds}
    for T in trees:
        if T.get("listing") is None:
            out_trees.append(T)
            continue
        tid = str(T["id"])
        if any("error" in wres[s]["results"][tid] for s in seeds):
            out_trees.append(T)
            continue
        Tr, new, imap = restrict(T)
        out_trees.append(Tr)
        for s in seeds:
            R = wres[s]["results"][tid]
            Rr = {"names": [R["names"][c] for c in Tr["labels"]], "configs": []}
            for ci, cfg in enumerate(T["configs"]):
                B, P0 = R["configs"][ci]["steps"]["b"], R["configs"][ci]["steps"]["p"]
                Br = {k: v for k, v in B.items() if k != "pairs"}
                Br["pairs"] = []
                for pi, (K, ii) in enumerate(T["pairs"]):
                    if B["apply"] != "ok":
                        break
                    P, D = B["pairs"][pi], T["instances"][ii]["cls"]
                    if K in new and D in new:
                        P = dict(P)
                        if P["out"].startswith("ok:"):      # class numbers of the restricted tree
                            _, j, eq = P["out"].split(":")
                            P["out"] = f"ok:{new[int(j)]}:{eq}" if int(j) in new else f"other:unlisted-K{j}"
                        Br["pairs"].append(P)
                        continue

                    def case(**kw):
                        d = {"kind": "unlisted", "tree": Tr, "config_index": ci, "config": Tr["configs"][ci], "step": "b",
                             "hashseed": s, "seeds": seeds, "source": tree_source(Tr, Tr["configs"][ci]), "K_full": K,
                             "inst_full": ii, "impl": P["out"], "un": P["un"], "call": call_source(T, K, ii)}
                        d.update(kw)
                        return d

                    if K not in new:
                        Q = P0["pairs"][pi]
                        if (canon(P["out"]), P["un"]) != (canon(Q["out"]), Q["un"]):
                            fails.append((f"K{K} is not among the listed classes, yet structure(unstructure(x, unstructure_as=K{K}), "
                                          f"K{K}) differs from a converter without the strategy: {P['out']} / {P['un']} vs "
                                          f"{Q['out']} / {Q['un']} [{cfg['strategy']}, PYTHONHASHSEED={s}]", case(plain=Q["out"])))
                    elif P["out"].startswith(f"ok:{D}:"):
                        fails.append((f"K{D} was left out of `subclasses=`, yet its instance comes back as K{D} through K{K} "
                                      f"[{cfg['strategy']}, PYTHONHASHSEED={s}]", case()))
                Rr["configs"].append({"steps": {"b": Br}})
            res[s]["results"][tid] = Rr
    return out_trees, res, fails


def kn(T, c):
    """name of class c in messages / sources (a restricted tree keeps the numbering of the full hierarchy)"""
    return f"K{T['labels'][c]}" if T.get("labels") else f"K{c}"


def step_tree(T, step):
    """the tree as it is when the step's application happens (the oracle's references look at this one)"""
    if step != "a":
        return T
    n0 = T["stage0"]
    return dict(T, classes=T["classes"][:n0])


def evaluate(chk, drv, trees, wres, seeds, count=True):
    """oracle + correspondence over a batch; returns (oracle_failures, corr_failures): lists of (what, case)"""
    from harness import lean

    oracle_fail, corr_fail = [], []
    s0 = seeds[0]
    for T in trees:
        tid = str(T["id"])
        Rs = {s: wres[s]["results"][tid] for s in seeds}
        if any("error" in R for R in Rs.values()):
            if T["id"] < 0:
                raise lean.InfraError("regression tree could not be realised: " + str([R.get("error") for R in Rs.values()]))
            if count:
                chk.note("tree-rejected-by-python")
            continue
        names = Rs[s0]["names"]
        n = len(T["classes"])
        modelled = not T.get("refs")
        for ci, cfg in enumerate(T["configs"]):
            prop = in_property(T, cfg)
            for step in sorted(Rs[s0]["configs"][ci]["steps"]):
                if any(step not in Rs[s]["configs"][ci]["steps"] for s in seeds):
                    if prop:
                        oracle_fail.append((f"step {step} reached or not depending on PYTHONHASHSEED (an earlier application "
                                            "succeeds or raises)", {"kind": "apply", "tree": T, "config_index": ci, "config": cfg,
                                                                    "step": step, "hashseed": s0, "seeds": seeds,
                                                                    "source": tree_source(T, cfg)}))
                    continue
                Ts = step_tree(T, step)
                pairs = step_pairs(T, step)
                inner = inner_nodes(Ts)
                M = M1 = None
                order_dep = [False] * len(pairs)
                if modelled:
                    M = model_query(drv, T, cfg, names, False, step)
                    M1 = model_query(drv, T, cfg, names, True, step)
                    order_dep = [a != b for a, b in zip(M["out"], M1["out"])]

                def case_of(kind, s, **kw):
                    d = {"kind": kind, "tree": T, "config_index": ci, "config": cfg, "step": step, "hashseed": s,
                         "seeds": seeds, "source": tree_source(T, cfg)}
                    d.update(kw)
                    return d

                # ---------- application of the strategy
                applies = {s: Rs[s]["configs"][ci]["steps"][step]["apply"] for s in seeds}
                if len(set(applies.values())) > 1 and prop:
                    oracle_fail.append(("applying the strategy succeeds or raises depending on PYTHONHASHSEED: " + str(applies),
                                        case_of("apply", s0, impl=applies)))
                for s in seeds:
                    C = Rs[s]["configs"][ci]["steps"][step]
                    C0 = Rs[s0]["configs"][ci]["steps"][step]
                    if C["apply"] == "raise":
                        if prop:
                            if cfg["strategy"] == "union":
                                oracle_fail.append((f"[step {step}] applying include_subclasses with a union strategy raised "
                                                    f"{C['detail'].get('exc')}",
                                                    case_of("apply", s, impl="raise", detail=C["detail"])))
                            else:
                                verdicts = [ref_union_distinguishable(Ts, cfg, subtree(Ts, K)) for K in inner]
                                if all(v is True for v in verdicts):
                                    oracle_fail.append((
                                        f"[step {step}] the automatic strategy was refused although every class of every reduced "
                                        f"union has an attribute of its own ({C['detail'].get('exc')})",
                                        case_of("apply", s, impl="raise", detail=C["detail"])))
                        if modelled and (M["apply"] or M1["apply"]):
                            corr_fail.append((f"apply: impl raised, model applies (config #{ci} step {step}, PYTHONHASHSEED={s})",
                                              case_of("apply", s, impl="raise", model="ok")))
                        continue
                    if modelled and not (M["apply"] and M1["apply"]):
                        corr_fail.append((f"apply: impl applied, model refuses (config #{ci} step {step}, PYTHONHASHSEED={s})",
                                          case_of("apply", s, impl="ok", model="raise")))
                        continue
                    # ---------- every (K, x)
                    for pi, (K, ii) in enumerate(pairs):
                        P = C["pairs"][pi]
                        D = T["instances"][ii]["cls"]
                        out = P["out"]
                        if count:
                            chk.count((tid, ci, step, K, ii) if s == s0 else None, nontrivial=n >= 2)
                        if prop and out != f"ok:{D}:1":
                            legit = False
                            if out == "err-st" and cfg["strategy"] == "auto":
                                legit = ref_refusal_permitted(Ts, cfg, K, D, P["un"])
                            if not legit:
                                oracle_fail.append((
                                    f"[step {step}] structure(unstructure(x, unstructure_as={kn(T, K)}), {kn(T, K)}) for an instance "
                                    f"of {kn(T, D)}: "
                                    f"{out} {(P.get('detail') or {}).get('exc', '')} [{cfg['strategy']}, "
                                    f"forbid_extra_keys={cfg['forbid']}, PYTHONHASHSEED={s}]",
                                    case_of("pair", s, K=K, inst=ii, impl=out, detail=P.get("detail"), un=P["un"],
                                            call=call_source(T, K, ii, step))))
                        if prop and s != s0 and C0["apply"] == "ok" and canon(out) != canon(C0["pairs"][pi]["out"]):
                            oracle_fail.append((f"[step {step}] outcome depends on PYTHONHASHSEED: {out} vs "
                                                f"{C0['pairs'][pi]['out']}",
                                                case_of("seed", s, K=K, inst=ii, impl=out, un=P["un"],
                                                        call=call_source(T, K, ii, step))))
                        if not modelled:
                            if count and s == s0:
                                chk.note("impl-only:" + canon(out).split(":")[0] +
                                         (":" + out.split(":")[2] if out.startswith("ok:") else ""))
                                if cfg["strategy"] == "auto" and early_bound_loss(T, T["instances"][ii]):
                                    chk.note("impl-only:late-processed-field-type(former F57 region)")
                            continue
                        if order_dep[pi]:
                            if count and s == s0:
                                chk.unmodelled += 1
                            continue
                        if canon(out) != M["out"][pi]:
                            corr_fail.append((f"[step {step}] {kn(T, K)} <- instance #{ii} of {kn(T, D)}: impl={canon(out)} "
                                              f"model={M['out'][pi]} (config #{ci} {cfg['strategy']}, PYTHONHASHSEED={s})",
                                              case_of("pair", s, K=K, inst=ii, impl=out, model=M["out"][pi], un=P["un"],
                                                      call=call_source(T, K, ii, step))))
                        if M["inscope"][pi] and out != f"ok:{D}:1" and count and s == s0:
                            chk.note("in-scope-but-failed")
                        if count and s == s0:
                            chk.note("scope:" + ("in" if M["inscope"][pi] else "out"),
                                     "outcome:" + canon(out).split(":")[0] + (":" + out.split(":")[2] if out.startswith("ok:") else ""),
                                     "K:" + ("leaf" if not children(Ts, K) else "inner") + ("=D" if K == D else ">D"))
                if count:
                    chk.note("step:" + step, "step-%s-apply:%s" % (step, Rs[s0]["configs"][ci]["steps"][step]["apply"]))
                    if modelled:
                        for k, v in M["scope"].items():
                            chk.note(f"{cfg['strategy']}:{k}:{int(v)}")
            if count:
                chk.note("strategy:" + cfg["strategy"], "forbid:" + str(int(cfg["forbid"])),
                         "overrides:" + ("none" if cfg["overrides"] is None else
                                         "rename" if any("rename" in v for v in cfg["overrides"].values()) else
                                         "omit" if cfg["overrides"] else "empty"),
                         "in-property" if prop else "non-injective-tags")
        if count:
            chk.note("classes:%d" % n, "kind:" + T["kind"], "literal" if T["literal"] else "no-literal",
                     "flavour:" + ("ref" if T.get("refs") else "staged" if T.get("stage0") else
                                   "listed" if T.get("labels") else "plain"),
                     "depth:%d" % max(len([1 for k in range(n) if is_sub(T, c, k)]) for c in range(n)))
            F0 = T.get("full") or T
            pl = [c for c, nd in enumerate(F0["classes"]) if nd.get("plain")]
            chk.note("undecorated-classes:" + ("none" if not pl else "+".join(sorted(
                {"layer" if children(F0, c) else "leaf" for c in pl}))),
                     "mixins:" + ("yes" if any(nd.get("mixin") for nd in F0["classes"]) else "no"))
            if pl and T.get("labels"):
                chk.note("listing:undecorated-" + ("skipped" if all(c not in T["labels"] for c in pl) else "listed"))
            if T.get("labels"):
                F = T["full"]
                chk.note("listing-order:" + F.get("listing_order", "fixed"),
                         "listing:" + ("gaps" if T["indirect"] else "no-gaps"),
                         "listing:" + ("omitted-leaf" if any(c not in T["labels"] and not children(F, c)
                                                             for c in range(len(F["classes"]))) else "all-leaves"),
                         "listing:" + ("duplicates" if T["dups"] else "no-duplicates"))
            if T.get("stage0"):
                grown = set(range(T["stage0"], n))
                chk.note("growth:new-leaf-under-old-inner" if any(
                    T["classes"][c]["parent"] < T["stage0"] and any(T["classes"][o]["parent"] == T["classes"][c]["parent"]
                                                                    for o in range(T["stage0"]) if o != c) for c in grown) else
                         "growth:other")
                if any(T["classes"][c]["parent"] < T["stage0"] and not any(
                        T["classes"][o]["parent"] == T["classes"][c]["parent"] for o in range(T["stage0"])) for c in grown):
                    chk.note("growth:old-leaf-becomes-inner")
                if any(T["classes"][c]["parent"] >= T["stage0"] for c in grown):
                    chk.note("growth:new-inner-node")
            if len(chk.samples) < 5 and n >= 3:
                chk.samples.append({"classes": tree_source(T), "pairs": len(T["pairs"]),
                                    "impl": [p["out"] for p in Rs[s0]["configs"][0]["steps"]["b"]["pairs"][:6]]})
    return oracle_fail, corr_fail


def variants(T, rng, base_id):
    """one-edit neighbours of a tree: drop a leaf class, drop an own field, flip a default"""
    out = []
    n = len(T["classes"])
    cands = []
    for c in range(1, n):
        if not children(T, c):
            cs = json.loads(json.dumps(T["classes"]))
            del cs[c]
            for node in cs:
                if node["parent"] > c:
                    node["parent"] -= 1
            cands.append(cs)
    for c in range(n):
        for fi, f in enumerate(T["classes"][c]["own"]):
            cs = json.loads(json.dumps(T["classes"]))
            del cs[c]["own"][fi]
            cands.append(cs)
            if f["lit"] is None:
                cs = json.loads(json.dumps(T["classes"]))
                g = cs[c]["own"][fi]
                if g["dflt"] == "req":
                    g["dflt"], g["dv"] = "const", 0
                else:
                    g["dflt"], g["dv"] = "req", None
                cands.append(cs)
    rng.shuffle(cands)
    for vi, cs in enumerate(cands[:30]):
        V = {"id": base_id + vi, "kind": T["kind"], "classes": cs, "kw_only": True, "literal": T["literal"],
             "stage0": min(T["stage0"], len(cs) - 1) if T.get("stage0") and len(cs) > 1 else None}
        insts = []
        for ci in range(len(cs)):
            insts.append({"cls": ci, "args": {f["name"]: (f["lit"][0] if f["lit"] is not None else 1)
                                              for f in eff_fields(V, ci)}})
        V["instances"] = insts
        V["pairs"] = [[K, ii] for ii, inst in enumerate(insts) for K in range(len(cs)) if is_sub(V, inst["cls"], K)]
        V["configs"] = json.loads(json.dumps(T["configs"]))
        for cfg in V["configs"]:
            if cfg["tags"] is not None:
                cfg["tags"] = cfg["tags"][:len(cs)] if len(cfg["tags"]) >= len(cs) else None
            if cfg["overrides"]:
                names = {f["name"] for ci in range(len(cs)) for f in eff_fields(V, ci)}
                cfg["overrides"] = {k: v for k, v in cfg["overrides"].items() if k in names}
        out.append(V)
    return out


def run(chk):
    from harness import lean

    ensure_findings(chk)
    rng = chk.rng
    quick = chk.tier == "quick"
    n_trees = 260 if quick else 1800
    n_staged = 80 if quick else 500
    n_ref = 60 if quick else 300
    n_listed = 100 if quick else 600
    seeds = [0] if quick else [0, 1, 2]
    seeds = seeds + [100 + (chk.seed * 7919 + 13) % 4000]
    drv = lean.Driver()
    trees = (fixed_trees() + [gen_tree(rng, i, chk.tier) for i in range(n_trees)]
             + [gen_tree(rng, 10000 + i, chk.tier, "staged") for i in range(n_staged)]
             + [gen_tree(rng, 20000 + i, chk.tier, "ref") for i in range(n_ref)]
             + [gen_tree(rng, 30000 + i, chk.tier, "listed") for i in range(n_listed)])
    t0 = time.time()
    wres = run_workers(trees, seeds, "M")
    chk.extra["worker_wall_s"] = round(time.time() - t0, 1)
    chk.extra["cattrs_under_test"] = sorted({wres[s]["cattrs"] for s in seeds})
    chk.extra["hash_seeds"] = seeds
    etrees, eres, extra_fail = prepare(trees, wres, seeds)
    oracle_fail, corr_fail = evaluate(chk, drv, etrees, eres, seeds)
    oracle_fail = extra_fail + oracle_fail

    reported = 0
    seen = set()
    real = 0
    for what, case in oracle_fail:
        key = (case["tree"]["id"], case["config_index"], case.get("step"), case.get("K", case.get("K_full")),
               case.get("inst", case.get("inst_full")), case["kind"])
        if key in seen:
            continue
        seen.add(key)
        if reported >= 12:
            break
        if chk.violation("C14 oracle: " + what + "\n" + case["source"] + "\n" + case.get("call", ""), case):
            reported += 1
            real += 1
    # recorded findings must still reproduce on their regression trees (else the entry is stale)
    for f in chk.known:
        if chk.known_hits.get(f["id"], 0) == 0:
            print(f"NOTE: recorded finding {f['id']} ({f['signature']}) did not reproduce in this run - entry may be stale")
            chk.note("stale-finding:" + f["id"])
    if corr_fail and real == 0:
        # the model no longer describes the code although the property held on every generated input:
        # look for a failing input around the disagreeing trees and in a fresh sample
        extra = []
        done = set()
        for what, case in corr_fail:
            T = case["tree"]
            if T["id"] in done or len(done) >= 3:
                continue
            done.add(T["id"])
            extra += variants(T, rng, 100000 + 1000 * len(done))
        extra += [gen_tree(rng, 200000 + i, chk.tier) for i in range(n_trees)]
        extra += [gen_tree(rng, 300000 + i, chk.tier, "staged") for i in range(n_staged)]
        extra += [gen_tree(rng, 400000 + i, chk.tier, "listed") for i in range(n_listed)]
        wres2 = run_workers(extra, seeds, "X")
        etrees2, eres2, extra_fail2 = prepare(extra, wres2, seeds)
        found, _ = evaluate(chk, drv, etrees2, eres2, seeds, count=False)
        found = extra_fail2 + found
        got = False
        for what, case in found:
            if chk.violation("C14 oracle: " + what + "\n" + case["source"] + "\n" + case.get("call", ""), case):
                got = True
                break
        if not got:
            seen = set()
            for what, case in corr_fail:
                if case["tree"]["id"] in seen or len(seen) >= 5:
                    continue
                seen.add(case["tree"]["id"])
                chk.violation("correspondence corr:C14:SUBCLS broken (theorems C14_* no longer tied to the code): " + what
                              + "\n" + case["source"] + "\n" + case.get("call", ""), case, found_input=False)
    chk.extra["rule"] = ("random class trees (<= 8 classes, depth <= 4, branching <= 3; attrs / dataclasses; own, shared, "
                         "redefined, defaulted and Literal fields; undecorated intermediate classes / leaves, mixins) x {automatic, tagged-union} x forbid_extra_keys x random "
                         "detailed_validation / omit_if_default / overrides / tag name+generator x every (K, instance of a "
                         "descendant) x PYTHONHASHSEED subprocesses; staged trees: apply, grow the hierarchy (new leaves, old "
                         "leaves becoming inner nodes, new inner nodes), apply to a fresh converter / to a copy of the first / "
                         "to the first again / twice to the same; trees with class-typed fields (implementation-side oracle "
                         "only); distinct by (tree, configuration, step, K, instance)")
    chk.extra["corr_disagreements"] = len(corr_fail)
    drv.close()


def replay(case):
    from harness import lean

    _install_findings()
    T = case["tree"]
    seeds = case.get("seeds", [0, 1])
    ci = case.get("config_index", 0)
    cfg = T["configs"][ci]
    print(tree_source(T, cfg))
    if "call" in case:
        print(case["call"])
    drv = lean.Driver()
    wres = run_workers([T.get("full") or T], seeds, "R")
    (T,), wres, extra_fail = prepare([T.get("full") or T], wres, seeds)     # explicit listing: evaluated as its restriction
    cfg = T["configs"][ci]
    rc = 0
    for s in seeds:
        R = wres[s]["results"][str(T["id"])]
        if "error" in R:
            print("tree rejected:", R["error"])
            return 2
        for step, C in sorted(R["configs"][ci]["steps"].items()):
            if case.get("step") and step != case["step"]:
                continue
            M = None if T.get("refs") else model_query(drv, T, cfg, R["names"], False, step)
            print(f"PYTHONHASHSEED={s} step {step} ({STEP_DOC[step]}): apply impl={C['apply']} "
                  + (f"model={'ok' if M['apply'] else 'raise'} scope={M['scope']}" if M else "(no model: class-typed fields)"))
            for pi, (K, ii) in enumerate(step_pairs(T, step)):
                if C["apply"] != "ok":
                    break
                P = C["pairs"][pi]
                D = T["instances"][ii]["cls"]
                mark = "" if P["out"] == f"ok:{D}:1" else "   <-- property fails" if in_property(T, cfg) else "   (outside the property)"
                print(f"  {kn(T, K)} <- #{ii} ({kn(T, D)}): un={P['un']} impl={P['out']} {(P.get('detail') or {}).get('exc', '')} "
                      + (f"model={M['out'][pi]} inscope={int(M['inscope'][pi])}" if M else "") + mark)

    class _Chk:   # minimal stand-in: run the oracle only
        def count(self, *a, **k): pass
        def note(self, *a, **k): pass
        unmodelled = 0
        samples = []
    fails, corr = evaluate(_Chk(), drv, [T], wres, seeds, count=False)
    fails = [(w, c) for w, c in extra_fail + fails if c["config_index"] == ci]
    for what, c in fails[:10]:
        known = [n for n, pred in __import__("harness.framework", fromlist=["x"]).FINDING_PREDICATES.items() if pred(c)]
        print("oracle FAILS:", what, ("(recorded finding: " + ", ".join(known) + ")") if known else "")
        rc = 1
    for what, c in corr[:10]:
        if c["config_index"] == ci:
            print("correspondence differs:", what)
    if not fails:
        print("oracle: holds")
    drv.close()
    return rc


if __name__ == "__main__":
    if "--worker" in sys.argv:
        worker_main()
    else:
        from harness import framework

        framework.main(run, "C14")
