"""C01 — round trip: structure(unstructure(x, T), T) == x for every supported T and x.

Compared function (correspondence): the COMPOSITE x |-> structure_S(unstructure_U(x, T), T) — ok/err and the
resulting object — for the 8 configurations {Converter, BaseConverter} x {dict, tuple} x {detailed, fast}
and the cross pairs (data unstructured by one converter class structured by the other, same strategy).
The intermediate encoding is C03's observable, not this one's.
Oracle (implementation only): the composite returns a value equal to x and of x's class (canonical
text equality, which includes exact classes at every depth).
Recorded findings reproduced on every run: F10 (unhashable encodings of set elements / keys),
F32 (Optional[Enum] with a None-valued member).
"""
from __future__ import annotations

import enum
from typing import Optional

from harness import framework, gen, lean, streams, terms
from harness.datapath import ALL_CFGS, Session, cfg_name, make_converter, reply_kind, reply_obj

PAIRS = [(c, c) for c in ALL_CFGS] + [
    (u, s) for u in ALL_CFGS for s in ALL_CFGS
    if u["gen"] != s["gen"] and u["tuple"] == s["tuple"] and u["detailed"] == s["detailed"]
]


def composite_impl(S, cu, cs, ty, x, xv):
    u = S.impl_un(cu, ty, x, x=xv)
    if u[0] == "err":
        return ("err-un", u[1])
    payload = u[2] if u[0] == "ok" else u[1]
    r = S.impl_st(cs, ty, None, payload=payload)
    if r[0] == "ok":
        bad = S.R.factories_ok(ty, r[2])
        if bad is not None:
            # "of x's class": a defaultdict[K, V] comes back as a defaultdict whose default_factory is V
            return ("bad-default-factory", "%r has default_factory %r" % (bad[1], bad[1].default_factory))
        return ("ok", terms.canon_sx(r[1]))
    if r[0] == "unrep":
        return ("unrep", r[1])
    return ("err-st", r[1])


def composite_model(S, cu, cs, ty, x):
    ru = S.model_un(cu, ty, x)
    if reply_kind(ru) != "ok":
        return ("unmodelled",) if reply_kind(ru) == "unmodelled" else ("err",)
    rs = S.model_st(cs, ty, reply_obj(ru))
    k = reply_kind(rs)
    if k == "ok":
        return ("ok", terms.canon_sx(reply_obj(rs)))
    return (k,)


@framework.finding("unhashable-encoding")
def _f10(case):
    """Converter unstructure raises TypeError(unhashable) and T has a set/key type whose encoding is unhashable"""
    if not case.get("cu", {}).get("gen"):
        return False
    if "unhashable" not in case.get("error", ""):
        return False
    ty = terms.tuple_ify(case["ty"]) if isinstance(case["ty"], list) else case["ty"]
    for t in gen.walk_types(ty):
        if isinstance(t, str):
            continue
        if t[0] in gen.SET_KINDS + gen.MAP_KINDS and not gen.hashable_prim(t[1]):
            return True
    return False


@framework.finding("optional-enum-none-value")
def _f32(case):
    return case.get("probe") == "optional-enum-none-value"


F52_SIG = "self-inside-pep604-union"


@framework.finding(F52_SIG)
def _f52(case):
    """F52: `typing.Self` inside a PEP 604 union object (`list[Self] | None`) is not substituted"""
    return case.get("probe") == F52_SIG


def run(chk: framework.Check):
    import os
    if os.environ.get("VERIF_F52") and not any(f.get("signature") == F52_SIG for f in chk.known):
        chk.known.append({"id": "F52", "property": "C01", "kind": "finding", "signature": F52_SIG,
                          "what": "typing.Self inside a PEP 604 union object (list[Self] | None) is not substituted (entry assumed via VERIF_F52)"})
    drv = lean.Driver()
    n_worlds = 600 if chk.tier == "quick" else 6000
    corr_fail = []
    for G, S, w in streams.worlds(chk, drv, n_worlds, no_any=True, unions=True, nt=True, enum_lits=True,
                                   map_targets=True, class_features=True):
        for ty, x, xv in streams.typed_values(chk, G, S, w, n_types=5, n_values=2):
            unions = gen.reach_unions(w, ty)
            # a union the generator did not build to be distinguishable may be refused (hook creation or structuring
            # raises: C12 "refuses instead of guessing"); what it must never do is come back as something else
            lenient = any(not gen.union_by_construction(w, u) for u in unions)
            if unions:
                scope = drv.ask("USCOPE 0 %s" % terms.ty_sx(ty))
                chk.note("union-case:" + ("by-construction" if not lenient else "arbitrary-members"),
                         "union-hyp(unionsOK,refusal-reachable,noUnion):" + scope)
            nts = any(not isinstance(t_, str) and t_[0] == "nt" for rt in gen.reach_types(w, ty) for t_ in gen.walk_types(rt))
            if nts:
                # NamedTuple hypotheses of the theorems about BaseConverter-unstructured data (needed when `cu` is a BaseConverter)
                chk.note("nt-case:hyp(ntOK whole table, ntOK reachable classes, no NamedTuple reachable):" + drv.ask("NTSCOPE %s" % terms.ty_sx(ty)))
            for cu, cs in PAIRS:
                if not (gen.supported(cu, w, ty) and gen.supported(cs, w, ty)):
                    chk.note("unsupported-by-converter-class")
                    continue
                case = {"world": w, "cu": cu, "cs": cs, "ty": ty, "x": x}
                ri = composite_impl(S, cu, cs, ty, x, xv)
                name = cfg_name(cu) + ("" if cu == cs else "=>" + cfg_name(cs))
                key = name + terms.ty_sx(ty) + terms.canon_sx(x)
                chk.count(key, nontrivial=not isinstance(ty, str),
                          sample={"cfg": name, "type": terms.ty_sx(ty), "value": terms.canon_sx(x), "result": ri[0]})
                chk.note("pair:" + ("same" if cu == cs else "cross"), "cfg:" + cfg_name(cu),
                         "ty:" + (ty if isinstance(ty, str) else ty[0]))
                if gen.has_enum_lit(w, ty):
                    # (`litOK`, the scope condition of the theorems for such literals, is part of `unionsOK`)
                    chk.note("literal-with-enum-members-reachable:" + ri[0],
                             "enum-literal-hyp(unionsOK incl. litOK, refusal-reachable, noUnion):"
                             + drv.ask("USCOPE %d %s" % (1 if cu["tuple"] else 0, terms.ty_sx(ty))))
                if nts:
                    chk.note("nt-reachable:unstructured-by-" + ("Converter" if cu["gen"] else "BaseConverter"))
                if any(not isinstance(t_, str) and t_[0] in ("odict", "ddict", "counter")
                       for rt in gen.reach_types(w, ty) for t_ in gen.walk_types(rt)):
                    chk.note("mapping-target-class-reachable:" + ri[0])
                for t in gen.walk_types(ty):
                    chk.note("ctor:" + (t if isinstance(t, str) else t[0]))
                # ---- oracle
                if unions and lenient and ri[0] == "err-st":
                    # refused, not guessed; the model must refuse as well
                    chk.note("union:refused")
                    rm = composite_model(S, cu, cs, ty, x)
                    if rm[0] == "unmodelled":
                        chk.unmodelled += 1
                    elif rm != ("err",):
                        corr_fail.append((case, ("refused", repr(ri[1])[:120]), rm))
                    continue
                if unions and ri[0] == "ok" and ri[1] == terms.canon_sx(x):
                    chk.note("union:round-trip-ok")
                if ri[0] != "ok" or ri[1] != terms.canon_sx(x):
                    got = ri[1] if ri[0] == "ok" else repr(ri[1])[:200]
                    chk.violation(f"C01 oracle: round trip gives {ri[0]} {got} [{name} {terms.ty_sx(ty)} {terms.canon_sx(x)}]",
                                  dict(case, error=repr(ri[1]) if ri[0] != "ok" else ""))
                    continue
                # ---- correspondence on the composite
                rm = composite_model(S, cu, cs, ty, x)
                if rm[0] == "unmodelled":
                    chk.unmodelled += 1
                    continue
                if rm != ("ok", ri[1]):
                    corr_fail.append((case, ri, rm))
    for case, ri, rm in corr_fail[:5]:
        chk.violation(
            f"correspondence corr:C01:ROUNDTRIP broken (theorem C01_roundtrip no longer tied to the code): impl={ri} model={rm} "
            f"[{cfg_name(case['cu'])}=>{cfg_name(case['cs'])} {terms.ty_sx(case['ty'])} {terms.canon_sx(case['x'])}]",
            case, found_input=False)
    known_finding_probes(chk, drv)
    chk.extra["rule"] = ("random worlds (attrs/dataclass/TypedDict/NamedTuple classes, union families told apart by unique required attributes / Literal tags / "
                         "not at all, frozen/slots, defaults/factories, init=False, kw_only, private names) x types (incl. class unions, Optional[Union]) "
                         "to depth 3 x conforming values x 8 configurations + 4 cross pairs; non-trivial = non-leaf type; distinct by canonical text")
    # implementation-only extended stream (unions, NamedTuples, registry hooks, one-shot iterables)
    from harness import ext
    ext.run_c01(chk, 150 if chk.tier == "quick" else 1500)
    # implementation-only: hooks built with generator options (use_alias, include_init_false, overrides) are inverse
    ext.run_genopts_roundtrip(chk, 150 if chk.tier == "quick" else 1500)
    # implementation-only: parametrised generic classes whose argument is a parametrised type / Literal / Annotated
    ext.run_generic_roundtrip(chk, 120 if chk.tier == "quick" else 1200)
    # implementation-only: Literal[...] over members of mix-in enums, position-wise equal literals in one process
    ext.run_enum_literals(chk, 25 if chk.tier == "quick" else 250, "C01")
    drv.close()


def probe_f52(chk):
    """F52 (same root cause as F27): `Self` inside a types.UnionType is never substituted -- `Optional[list[Self]]` works,
    `list[Self] | None` does not: structure raises `Unsupported type: typing.Self`, unstructure leaves the nested
    instances as they are.  The realiser does not use the PEP 604 spelling around `Self` for that reason."""
    import attrs
    import typing

    A = attrs.make_class("F52A", {"d": attrs.field(type=list[typing.Self] | None)})
    B = attrs.make_class("F52B", {"d": attrs.field(type=Optional[list[typing.Self]])})
    registered = any(f.get("signature") == F52_SIG for f in chk.known)
    for cfg in [c for c in ALL_CFGS if c["gen"] and not c["tuple"]]:
        c = make_converter(cfg)
        x = A([A(None)])
        try:
            ok = c.structure(c.unstructure(x), A) == x
        except Exception:  # noqa: BLE001
            ok = False
        try:
            # the CONTROL: the `Optional[...]` spelling must round-trip (a failure here is a defect of its own, e.g. a
            # broken substitution of a nested `Self`)
            ctrl = c.structure(c.unstructure(B([B(None)])), B) == B([B(None)])
        except Exception:  # noqa: BLE001
            ctrl = False
        chk.count("F52" + cfg_name(cfg), nontrivial=True)
        if not ctrl:
            chk.violation(f"C01 oracle: recursive class with Optional[list[Self]] does not round-trip: "
                          f"structure(unstructure(B([B(None)]))) != B([B(None)]) [{cfg_name(cfg)}]",
                          {"probe": "f52-control", "cfg": cfg})
        if ok:
            chk.note("F52-probe:not-reproduced(stale?)")
        elif registered:
            chk.violation(f"C01 oracle: a class with `d: list[Self] | None` does not round-trip [{cfg_name(cfg)}]",
                          {"probe": F52_SIG, "cfg": cfg})
        else:
            chk.note("F52-probe:reproduced-but-no-known_findings-entry")


def replay_enum_literal_witness(chk, drv):
    """theorem C01_enum_literal_collision_witness on the real code: `Literal[E.M0, 1]` with `E.M0.value == 1` -- both
    arguments have the key 1 in `_structure_enum_literal`'s dict, the later one wins, the member comes back as 1.
    The scope condition `litOK` of the round-trip theorems excludes exactly such literals (the generator keeps the keys
    of a literal's arguments pairwise different)."""
    w = {"classes": [], "enums": [[("i", 1), ("s", "x")]]}
    S = Session(drv, w)
    ty, x = ("lit", [("e", 0, 0), ("i", 1)]), ("e", 0, 0)
    for cfg in ALL_CFGS:
        xv, x2 = S.realise(x)
        ri = composite_impl(S, cfg, cfg, ty, x2, xv)
        rm = composite_model(S, cfg, cfg, ty, x2)
        chk.count("enum-literal-collision-witness" + cfg_name(cfg), nontrivial=True)
        if ri == ("ok", "(i 1)") and rm == ("ok", "(i 1)"):
            chk.note("witness:enum-literal-collision-reproduced")
        elif ri[:1] == ("ok",) and ri[1] == terms.canon_sx(x2):
            chk.note("witness:enum-literal-collision-STALE")
            print("NOTE C01: the enum-literal collision witness no longer reproduces (the member round-trips): "
                  "the scope condition `litOK` may have become unnecessary")
        else:
            chk.violation(f"correspondence corr:C01:ROUNDTRIP broken on the enum-literal collision witness: impl={ri} model={rm} "
                          f"[{cfg_name(cfg)}]", {"world": w, "cu": cfg, "cs": cfg, "ty": ty, "x": x2}, found_input=False)


def known_finding_probes(chk, drv):
    """Reproduce each recorded finding on the real code (a stale entry would show as 0 reproductions)."""
    probe_f52(chk)
    replay_enum_literal_witness(chk, drv)
    # F10: Converter, set[tuple[int, ...]]
    w = {"classes": [], "enums": []}
    S = Session(drv, w)
    for ty, x in [(("set", ("tup*", "int")), ("S", [("t", [("i", 1)])])),
                  (("dict", ("tup", ["int", "str"]), "int"), ("d", [(("t", [("i", 1), ("s", "b")]), ("i", 2))]))]:
        for cu in [c for c in ALL_CFGS if c["gen"]]:
            xv, x2 = S.realise(x)
            ri = composite_impl(S, cu, cu, ty, x2, xv)
            chk.count("F10" + terms.ty_sx(ty) + cfg_name(cu), nontrivial=True)
            if ri[0] != "ok" or ri[1] != terms.canon_sx(x2):
                chk.violation(f"C01 oracle: round trip gives {ri[0]} [{cfg_name(cu)} {terms.ty_sx(ty)}]",
                              {"world": w, "cu": cu, "cs": cu, "ty": ty, "x": x2, "error": repr(ri[1])})
    # F32: Optional[E], E.M0 = None
    E = enum.Enum("ENone", {"M0": None, "M1": 1})
    for cfg in ALL_CFGS:
        c = make_converter(cfg)
        back = c.structure(c.unstructure(E.M0, unstructure_as=Optional[E]), Optional[E])
        chk.count("F32" + cfg_name(cfg), nontrivial=True)
        if back is not E.M0:
            chk.violation(f"C01 oracle: Optional[Enum] member with value None comes back as {back!r} [{cfg_name(cfg)}]",
                          {"probe": "optional-enum-none-value", "cfg": cfg})


def replay(case):
    drv = lean.Driver()
    case = terms.case_from_json(case)
    if case.get("probe"):
        print("probe:", case["probe"], "(see known_finding_probes)")
        return 1
    S = Session(drv, case["world"])
    xv, x = S.realise(case["x"])
    ri = composite_impl(S, case["cu"], case["cs"], case["ty"], x, xv)
    print("type :", terms.ty_sx(case["ty"]), "\nvalue:", terms.canon_sx(x))
    print("impl :", ri[0], ri[1] if ri[0] == "ok" else repr(ri[1])[:300])
    print("model:", composite_model(S, case["cu"], case["cs"], case["ty"], x))
    return 0 if (ri[0] == "ok" and ri[1] == terms.canon_sx(x)) else 1


if __name__ == "__main__":
    framework.main(run, "C01")
