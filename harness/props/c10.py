"""C10 — forbid_extra_keys rejects exactly the unknown keys; without it extras are inert.

Cases: class tables (attrs / dataclass / TypedDict / NamedTuple-from-dict) x customisations (renames, aliases,
omits, include_init_false; per-hook forbid flags or one `Converter(forbid_extra_keys=...)`) x valid payloads
(obtained by unstructuring generated instances with the real hooks) x extra-key sets injected at class
positions of any nesting depth (plain keys, near misses: the original name of a renamed attribute, alias vs
name, names of omitted attributes, non-string keys).

Oracle (implementation only, from the property statement):
  forbid on : structuring fails  <=>  a forbidding position got an extra key; every ForbiddenExtraKeysError
              in the error names the class of its position and exactly the injected keys; nothing else is
              reported; if it succeeds the result is the one obtained without the extras;
  forbid off: the outcome equals the outcome without the extras  (known finding F9: TypedDict results carry the
              extra keys along; recognised narrowly, everything else is a violation);
  tagged unions (`configure_tagged_union` on a forbidding converter): the tag is not an extra, anything else is;
              the real tagged-union hook == the composed model `tagHookSt` (op TAGHOOKST: tagged-union model of C13 over
              the generated member hooks), about which C10_tag_not_extra / C10_tag_extras_reported / C10_tag_default_member
              are proved.
Correspondence: outcome of the real hooks (ok value | set of (path, class, extra keys) reports) == model
`hst` (op HOOKST), for the forbidding world and for the same world with forbidding switched off; the predicate
`hits` of the nested theorem (op HOOKHITS) == "some forbidding position got an injected extra key".
"""
from __future__ import annotations

import copy
from typing import Union

from harness import framework, gen, lean, terms
from harness import hookgen as H

import attrs  # noqa: E402
from cattrs import Converter  # noqa: E402
from cattrs.errors import ClassValidationError, ForbiddenExtraKeysError, IterableValidationError  # noqa: E402
from cattrs.strategies import configure_tagged_union  # noqa: E402

UNJUDGED = "unjudged-customisation"
NONSTR_KEYS = [("i", 7), ("N",), ("f", 5), ("t", [("i", 1), ("s", "k")]), ("y", "6b")]


@framework.finding("td-extras-survive")
def td_extras_survive(case) -> bool:
    """TypedDict target, forbid_extra_keys off, and the only deviation from the extra-free outcome is that
    the result retains injected keys outside the accepted keys (F9)."""
    return (
        isinstance(case, dict)
        and case.get("check") == "inert"
        and case.get("forbid_on") is False
        and case.get("deviation") == "td-extras-carried"
        and bool(case.get("td_positions_with_extras"))
    )


# ------------------------------------------------------------------------------------------------ extras

def near_misses(g, ci):
    """keys that look like accepted ones but are not"""
    c = g["classes"][ci]
    hc = H.eff_hc(g, ci)
    acc = set(H.accepted_keys(c["kind"], hc, c["fields"]))
    out = []
    for f in c["fields"]:
        for k in (f["name"], f["alias"], f["name"].lstrip("_"), f["name"] + "_", f["name"].upper()):
            if k not in acc and k not in out:
                out.append(k)
    return out


def pick_extras(rng, g, ci, present, size):
    cands = [("s", k) for k in H.EXTRA_STR_KEYS] + [("s", k) for k in near_misses(g, ci)] * 2 + NONSTR_KEYS
    c = g["classes"][ci]
    acc = {("s", k) for k in H.accepted_keys(c["kind"], H.eff_hc(g, ci), c["fields"])}
    out = []
    for _ in range(20):
        if len(out) >= size:
            break
        k = rng.choice(cands)
        if any(k == a for a in acc) or any(gen.py_eq(k, p) for p in present) or any(gen.py_eq(k, p) for p in out):
            continue
        out.append(k)
    return out


def inject(rng, g, ty, payload, tier):
    """-> (payload', {path: (class#, [extra keys])})"""
    poss = H.class_positions(g, ty, payload)
    injected = {}
    p = payload
    if not poss:
        return p, injected
    mode = rng.random()
    for (path, cj, depth) in poss:
        if depth > 3:
            continue
        if mode < 0.2:
            take = path == poss[0][0]        # top level only
        elif mode < 0.45:
            take = depth == max(d for _, _, d in poss) and rng.random() < 0.7   # the deepest positions only
        else:
            take = rng.random() < 0.45
        if not take:
            continue

        def add(o, cj=cj, path=path):
            present = [k for k, _ in o[1]]
            ks = pick_extras(rng, g, cj, present, rng.randint(1, 3))
            if not ks:
                return o
            kvs = list(o[1])
            for k in ks:
                kvs.insert(rng.randint(0, len(kvs)), (k, rng.choice([("i", 5), ("N",), ("s", "v"), ("l", [])])))
            injected[path] = (cj, ks)
            return ("d", kvs)

        p = H.edit_at(p, path, add)
    return p, injected


# ------------------------------------------------------------------------------------------------ oracle

def only_feke(exc) -> bool:
    if isinstance(exc, ForbiddenExtraKeysError):
        return True
    if isinstance(exc, (ClassValidationError, IterableValidationError)):
        return all(only_feke(e) for e in exc.exceptions)
    return False


def navigate(g, S, ty, v, path):
    """follow a payload path inside a structured *result*"""
    for step in path:
        while not isinstance(ty, str) and ty[0] in ("opt", "new", "ann", "final", "alias"):
            ty = ty[1]
        if step[0] == "ix":
            v = v[step[1]]
            ty = ty[1]
        else:
            c = g["classes"][ty[1]]
            f = next(f for f in c["fields"] if f["name"] == step[2])
            v = v[f["name"]] if c["kind"] == "td" else getattr(v, f["name"])
            ty = f["ty"]
    return v


def strip_carried(g, S, ty, value, base_value, injected):
    """remove, from a copy of `value`, the injected keys that TypedDict results carried along; -> (copy, positions)"""
    v = copy.deepcopy(value)
    carried = []
    for path, (cj, ks) in injected.items():
        if g["classes"][cj]["kind"] != "td":
            continue
        try:
            d = navigate(g, S, ty, v, path)
            b = navigate(g, S, ty, base_value, path)
        except Exception:  # noqa: BLE001
            continue
        if not isinstance(d, dict):
            continue
        hit = False
        for k in ks:
            kv = S.R.val(k)
            if kv in d and kv not in b:
                del d[kv]
                hit = True
        if hit:
            carried.append(path)
    return v, carried


def judge(g, S_on, S_off, ty, p_ext, injected, base, on_res, off_res):
    """-> list of (what, extra-fields-for-the-replay-case)"""
    bad = []
    # where a detailed error reports the extras of a position: under the notes of the path, as an un-noted child
    # of that position's ClassValidationError
    forb = {H.notes_of_path(path) + ("-",): (cj, tuple(sorted(terms.canon_sx(k) for k in ks)))
            for path, (cj, ks) in injected.items() if H.eff_hc(g, cj)["forbid"]}
    # ---- forbidding hooks
    if on_res[0] == "err":
        if not forb:
            bad.append(("forbid on: structuring failed although no forbidding hook got an extra key: " + repr(on_res[1])[:200],
                        {"check": "forbid-iff"}))
        else:
            exc = on_res[1]
            if not only_feke(exc):
                bad.append(("forbid on: the error reports something else than ForbiddenExtraKeysError: " + repr(exc)[:200],
                            {"check": "forbid-exact"}))
            view = H.exc_view(S_on, exc)
            if not view:
                bad.append(("forbid on: no ForbiddenExtraKeysError in the error", {"check": "forbid-exact"}))
            raw = isinstance(exc, ForbiddenExtraKeysError)
            for (pth, ci, ks) in view:
                if raw or not g["detailed"]:
                    ok = (ci, ks) in set(forb.values())
                else:
                    ok = forb.get(pth) == (ci, ks)
                if not ok:
                    bad.append((f"forbid on: ForbiddenExtraKeysError names class {ci} keys {ks} at {pth}; injected {forb}",
                                {"check": "forbid-exact"}))
            if g["detailed"] and ("-",) in forb and not any(pth == ("-",) for pth, _, _ in view):
                bad.append(("forbid on (detailed): the extras of the top-level payload are not reported", {"check": "forbid-exact"}))
    elif on_res[0] == "ok":
        if forb:
            bad.append((f"forbid on: structuring succeeded although forbidding hooks got extra keys {forb}", {"check": "forbid-iff"}))
        else:
            v2, carried = strip_carried(g, S_on, ty, on_res[2], base[2], injected)
            if not (v2 == base[2]):
                bad.append(("forbid on, no forbidden key: result differs from the extra-free result", {"check": "forbid-same"}))
    # ---- not forbidding
    if off_res[0] != "ok":
        bad.append(("forbid off: adding unknown keys made structuring fail: " + repr(off_res[1])[:200],
                    {"check": "inert", "forbid_on": False, "deviation": "fails"}))
    elif not (off_res[2] == base[2]):
        v2, carried = strip_carried(g, S_off, ty, off_res[2], base[2], injected)
        if carried and v2 == base[2]:
            bad.append(("forbid off: TypedDict result carries the unknown keys along (F9)",
                        {"check": "inert", "forbid_on": False, "deviation": "td-extras-carried",
                         "td_positions_with_extras": [list(map(list, p)) for p in carried]}))
        else:
            bad.append(("forbid off: adding unknown keys changed the outcome",
                        {"check": "inert", "forbid_on": False, "deviation": "other"}))
    return bad


# ------------------------------------------------------------------------------------------------ main loop

def in_f24_region(g):
    """recorded finding F24 (TypedDict rename onto a declared name, possibly its own): there the two templates differ
    by design of the copy-then-patch hooks (`del res[kn]` vs `res.pop`); the mode comparison below stays out of it"""
    for ci, c in enumerate(g["classes"]):
        if c["kind"] != "td":
            continue
        hc = H.eff_hc(g, ci)
        names = {f["name"] for f in c["fields"]}
        if any(H.ov_of(hc, f)["rename"] in names and not H.ov_of(hc, f)["omit"] for f in c["fields"]):
            return True
    return False


def other_mode(g):
    """the same world generated with the other validation template everywhere"""
    g2 = dict(g, detailed=not g["detailed"])
    g2["classes"] = [dict(c, hc=dict(c["hc"], detailed=not c["hc"]["detailed"])) for c in g["classes"]]
    if g.get("conv") is not None:
        g2["conv"] = dict(g["conv"], detailed=not g["conv"]["detailed"])
    return g2


def one_world(chk, drv, HG, g, stream, corr_fail, n_inst, n_var, only_last=False):
    rng = chk.rng
    g_off = H.with_forbid(g, False)
    try:
        S_on = H.HookSession(drv, g)
        S_off = H.HookSession(drv, g_off, R=S_on.R)
        S_tw = H.HookSession(drv, other_mode(g), R=S_on.R)
    except Exception:  # noqa: BLE001  python itself rejected the classes
        chk.note("world-rejected-by-python")
        return
    f24 = in_f24_region(g)
    if S_tw.gen_error is not None and S_on.gen_error is None and stream != UNJUDGED:
        chk.violation("C10 oracle: the hooks of a customised class can be generated with one validation template but not with "
                      "the other: " + repr(S_tw.gen_error)[:200], {"check": "modes", "stream": stream, "gworld": g})
        return
    if S_on.gen_error is not None or S_off.gen_error is not None:
        chk.note("hook-generation-failed(C09 matter)")
        return
    copies = None
    if g.get("conv") is not None and stream != UNJUDGED:
        # converter level: the option may also be given to copy(); a copy made with an explicit value is a converter with
        # that value, whatever the source had
        try:
            copies = (S_on.conv.copy(forbid_extra_keys=False), S_off.conv.copy(forbid_extra_keys=True))
        except Exception as e:  # noqa: BLE001
            chk.violation("C10 oracle: Converter.copy(forbid_extra_keys=...) failed: " + repr(e)[:200],
                          {"check": "copy-flag", "stream": stream, "gworld": g})
    for ci, c in enumerate(g["classes"]):
        if only_last and ci != len(g["classes"]) - 1:
            continue
        ty = ("td" if c["kind"] == "td" else "cls", ci)
        for _ in range(n_inst):
            x0 = HG.instance(g, ci)
            try:
                xv = S_on.R.val(x0)
                x = S_on.R.abs(xv)
            except Exception:  # noqa: BLE001
                chk.note("value-not-realisable")
                continue
            if gen.lookalike_hazard(x):
                chk.unmodelled += 1
                continue
            ru = S_off.impl_un(ty, S_off.R.val(x))
            if ru[0] != "ok":
                chk.note("payload:unstructure-failed(C09 matter)")
                continue
            payload = ru[1]
            base = S_off.impl_st(ty, S_off.R.val(payload))
            if base[0] != "ok":
                chk.note("payload:not-valid")        # inconsistent customisation: not a valid payload
                continue
            for _v in range(n_var):
                p_ext, injected = inject(rng, g, ty, payload, chk.tier)
                on_res = S_on.impl_st(ty, S_on.R.val(p_ext))
                off_res = S_off.impl_st(ty, S_off.R.val(p_ext))
                case = {"stream": stream, "gworld": g, "ty": ty, "payload": payload, "payload_ext": p_ext,
                        "injected": [[list(map(list, path)), cj, ks] for path, (cj, ks) in injected.items()]}
                n_forb = sum(1 for _, (cj, _) in injected.items() if H.eff_hc(g, cj)["forbid"])
                depth = max([len([s for s in path if s[0] == "key"]) for path in injected] + [0])
                chk.note("stream:" + stream, "kind:" + c["kind"], "mode:" + ("detailed" if g["detailed"] else "fast"),
                         "injected-positions:%d" % min(len(injected), 4), "forbidding-positions-hit:%d" % min(n_forb, 3),
                         "depth:%d" % depth)
                for path, (cj, ks) in injected.items():
                    for k in ks:
                        chk.note("extra:" + ("non-string" if k[0] != "s" else
                                             ("near-miss" if k[1] in near_misses(g, cj) else "plain")))
                key = stream + H.gworld_sx(g) + terms.canon_sx(p_ext)
                chk.count(key, nontrivial=bool(injected),
                          sample={"stream": stream, "kind": c["kind"], "payload": terms.canon_sx(p_ext)[:300],
                                  "forbidding_hit": n_forb, "outcome_on": on_res[0], "outcome_off": off_res[0]})
                # ---- oracle
                # (customisations that are not consistent only feed the correspondence: the statement does not cover them)
                bad = judge(g, S_on, S_off, ty, p_ext, injected, base, on_res, off_res) if stream != UNJUDGED else []
                if stream != UNJUDGED and not f24:
                    # the other validation template on the same customised classes and payload: accepted keys are a matter of
                    # the customisation, not of the template (property C04's statement, on customised hooks)
                    tw_res = S_tw.impl_st(ty, S_tw.R.val(p_ext))
                    chk.note("modes-compared")
                    if (on_res[0] == "err") != (tw_res[0] == "err") or (on_res[0] == "ok" and tw_res[0] == "ok" and not (on_res[2] == tw_res[2])):
                        bad.append(("the detailed and the fast template disagree on a customised class: %s-mode %s, other mode %s"
                                    % ("detailed" if g["detailed"] else "fast",
                                       repr(on_res[1])[:120] if on_res[0] == "err" else "ok", repr(tw_res[1])[:120] if tw_res[0] == "err" else "ok"),
                                    {"check": "modes"}))
                if copies is not None:
                    chk.note("copy-with-explicit-flag-compared")
                    for cp, ref, flag in ((copies[0], off_res, False), (copies[1], on_res, True))[: 2 if g["conv"]["forbid"] else 1]:
                        try:
                            rv = ("ok", cp.structure(S_on.R.val(p_ext), S_on.R.ty(ty)))
                        except Exception as e:  # noqa: BLE001
                            rv = ("err", e)
                        if (rv[0] == "err") != (ref[0] == "err") or (rv[0] == "ok" and ref[0] == "ok" and not (rv[1] == ref[2])):
                            bad.append(("copy(forbid_extra_keys=%s) of a converter with the opposite setting does not behave like a "
                                        "converter constructed with forbid_extra_keys=%s: copy %s, constructed %s"
                                        % (flag, flag, repr(rv[1])[:120] if rv[0] == "err" else "ok",
                                           repr(ref[1])[:120] if ref[0] == "err" else "ok"), {"check": "copy-flag"}))
                for what, extra in bad:
                    chk.violation("C10 oracle: " + what + f" [{stream} {c['kind']} {terms.canon_sx(p_ext)[:300]}]",
                                  dict(case, **extra))
                if any(e.get("deviation") != "td-extras-carried" for _, e in bad):
                    continue
                # ---- the vocabulary of the nested theorem: model `hits` == "a forbidding position got an injected extra"
                if stream != UNJUDGED:
                    rh = S_on.model_hits(ty, p_ext, g)
                    if rh in ("0", "1"):
                        chk.note("nested-hits-compared")
                        if (rh == "1") != (n_forb > 0):
                            corr_fail.append((dict(case, forbid_world="hits"), "forbidding positions hit: %d" % n_forb, "hits=" + rh))
                            continue
                # ---- correspondence (both worlds)
                for S, gg, res, tag in ((S_on, g, on_res, "on"), (S_off, g_off, off_res, "off")):
                    a = H.impl_reply(S, res)
                    rm = S.model_st(ty, p_ext, gg)
                    b = H.model_reply(rm)
                    if b[0] == "unmodelled" or a[0] == "unrep":
                        chk.unmodelled += 1
                        continue
                    if a != b:
                        if a[0] == "ok" and b[0] == "ok" and (H.set_repr_hazard(a[1]) or H.set_repr_hazard(b[1])):
                            chk.unmodelled += 1
                            continue
                        corr_fail.append((dict(case, forbid_world=tag), a, b))


def tag_corr(chk, drv, S, g, U, tu_sx, payload, corr_fail, case, variant):
    """correspondence for one tagged-union structure call: real hook == model `tagHookSt` (op TAGHOOKST) -- the
    composition of the tagged-union model (C13) with the generated member hooks, about which C10_tag_* are proved"""
    try:
        v = S.conv.structure(payload, U)
        ri = ("ok", S.R.abs(v), v)
    except H.Unrepresentable:
        chk.unmodelled += 1
        return
    except Exception as e:  # noqa: BLE001
        ri = ("err", e)
    try:
        p_abs = S.R.abs(payload)
    except H.Unrepresentable:
        chk.unmodelled += 1
        return
    a = H.impl_reply(S, ri)
    b = H.model_reply(drv.ask("TAGHOOKST %s %d %s %s" % (H.gworld_sx(g), H.FUEL, tu_sx, terms.obj_sx(H.norm_obj(p_abs)))))
    if b[0] == "unmodelled":
        chk.unmodelled += 1
        return
    chk.note("tagged-union-compared:" + variant)
    if a != b:
        if a[0] == "ok" and b[0] == "ok" and (H.set_repr_hazard(a[1]) or H.set_repr_hazard(b[1])):
            chk.unmodelled += 1
            return
        corr_fail.append((dict(case, stream="tagged-union:" + variant, payload_ext=p_abs, forbid_world="tag"), a, b))


MEMBER_KINDS = [("attrs", "dc"), ("attrs", "dc"), ("attrs", "dc", "td", "nt"), ("td", "nt"), ("td",), ("nt",), ("attrs", "td"), ("dc", "nt")]


def tagged_unions(chk, HG, n, drv, corr_fail):
    """the tag key of a tagged union is not an extra: oracle on the implementation + correspondence with the
    composed model.  Members of every kind whose hook checks for unknown keys: attrs classes, dataclasses, TypedDicts
    (converter default) and NamedTuples structured from dicts (`namedtuple_dict_structure_factory` with the converter's
    forbid flag, registered on the converter before the strategy is applied)."""
    rng = chk.rng
    done = 0
    for _ in range(n * 4):
        if done >= n:
            break
        g = HG.gworld(n_classes=rng.randint(2, 3), kinds=rng.choice(MEMBER_KINDS), want="consistent", conv_level=True,
                      nt_conv=True)
        g["conv"]["tovs"] = []
        g["conv"]["forbid"] = True
        R = H.HRealised(g)
        members = [i for i, c in enumerate(g["classes"]) if all(f["init"] for f in c["fields"])]
        if len(members) < 2:
            continue
        members = members[:2] if rng.random() < 0.7 else members
        S = H.HookSession(drv, g, R=R)      # Converter(detailed_validation, omit_if_default, forbid_extra_keys=True)
        if S.gen_error is not None:
            continue
        conv = S.conv
        U = Union[tuple(R.classes[i] for i in members)]
        tag = rng.choice(["_type", "kind", "it's"])
        dflt = rng.choice(members) if rng.random() < 0.5 else None
        try:
            configure_tagged_union(U, conv, tag_name=tag, **({} if dflt is None else {"default": R.classes[dflt]}))
        except Exception as e:  # noqa: BLE001
            chk.violation("C10 oracle: configure_tagged_union failed on a forbidding converter: " + repr(e)[:200],
                          {"check": "tag", "gworld": g})
            continue
        if any(f["name"] == tag or tag in H.accepted_keys(g["classes"][i]["kind"], H.eff_hc(g, i), g["classes"][i]["fields"])
               for i in members for f in g["classes"][i]["fields"]):
            continue
        done += 1
        tu_sx = "(tu (members %s) (tags %s) %s %s 1)" % (
            " ".join(str(i) for i in members),
            " ".join("(%d %s)" % (i, terms.obj_sx(("s", R.classes[i].__name__))) for i in members),
            terms.esc(tag), "-" if dflt is None else str(dflt))

        def payload_of(ci, xv):
            """the payload the strategy's unstructure hook produces; a TypedDict instance is a plain dict at run time (the
            strategy cannot tell which member it is), so its payload is the member's own dict plus the member's tag"""
            cl = R.classes[ci]
            if g["classes"][ci]["kind"] == "td":
                return {**conv.unstructure(xv, unstructure_as=cl), tag: cl.__name__}
            return conv.unstructure(xv, unstructure_as=U)

        for ci in (members if rng.random() < 0.5 else [rng.choice(members)]):
            kind = g["classes"][ci]["kind"]
            x = R.val(HG.instance(g, ci))
            chk.note("tagged-union:" + ("detailed" if g["detailed"] else "fast"), "tagged-union-member:" + kind)
            case = {"check": "tag", "gworld": g, "members": members, "tag": tag, "member": ci}
            try:
                p = payload_of(ci, x)
                y = conv.structure(p, U)
            except Exception as e:  # noqa: BLE001
                chk.violation("C10 oracle: tagged union on a forbidding converter rejects its own payload (tag counted as extra?) "
                              "[%s member]: %s" % (kind, repr(e)[:200]), case)
                continue
            chk.count("tag" + repr(p), sample={"tagged_union_payload": repr(p)[:200], "member_kind": kind})
            if not (y == x and type(y) is type(x)):
                chk.violation("C10 oracle: tagged union round trip changed the value [%s member]" % kind, case)
            # nested: the union below a list / a mapping
            try:
                ys = conv.structure([p, dict(p)], list[U])
                yd = conv.structure({"k": p}, dict[str, U])
                if not (ys == [x, x] and yd == {"k": x}):
                    chk.violation("C10 oracle: tagged union below a list / dict: round trip changed the value [%s member]" % kind, case)
            except Exception as e:  # noqa: BLE001
                chk.violation("C10 oracle: tagged union below a list / dict on a forbidding converter rejects its own payload "
                              "[%s member]: %s" % (kind, repr(e)[:200]), case)
            tag_corr(chk, drv, S, g, U, tu_sx, p, corr_fail, case, "own-payload")
            p2 = dict(p)
            p2["zzz"] = 5
            tag_corr(chk, drv, S, g, U, tu_sx, p2, corr_fail, case, "extra-key")
            p3 = {rng.choice(["zzz", "it's", tag + "_"]): 1, **{k: p[k] for k in reversed(list(p))}}   # tag first / keys reordered
            tag_corr(chk, drv, S, g, U, tu_sx, p3, corr_fail, case, "reordered+extra")
            for where, q, TT in (("", p2, U), (" (below a list)", [p, p2], list[U])):
                try:
                    conv.structure(q, TT)
                    chk.violation("C10 oracle: tagged union on a forbidding converter accepted an extra key%s [%s member]" % (where, kind), case)
                except Exception as e:  # noqa: BLE001
                    views = []

                    def walk(exc):
                        if isinstance(exc, ForbiddenExtraKeysError):
                            views.append((exc.cl, set(exc.extra_fields)))
                        for sub in getattr(exc, "exceptions", ()):
                            walk(sub)
                    walk(e)
                    if views != [(R.classes[ci], {"zzz"})]:
                        chk.violation(f"C10 oracle: tagged union + extra key{where}: reported {views}, expected exactly {{'zzz'}} [{kind} member]", case)
        if dflt is not None:
            # default member: a payload of the default member with an unknown tag value, or without the tag, is
            # structured as the default member -- the tag key is not an extra there either
            kind = g["classes"][dflt]["kind"]
            xd = R.val(HG.instance(g, dflt))
            chk.note("tagged-union-default-member:" + kind)
            case = {"check": "tag", "gworld": g, "members": members, "tag": tag, "default": dflt}
            try:
                pd = payload_of(dflt, xd)
                for variant, q in (("unknown-tag", {**pd, tag: "no-such-member"}), ("missing-tag", {k: v for k, v in pd.items() if k != tag})):
                    chk.note("tagged-union-default:" + variant)
                    tag_corr(chk, drv, S, g, U, tu_sx, q, corr_fail, case, "default:" + variant)
                    tag_corr(chk, drv, S, g, U, tu_sx, {**q, "zzz": 5}, corr_fail, case, "default:" + variant + "+extra")
                    yd = conv.structure(q, U)
                    if not (yd == xd and type(yd) is type(xd)):
                        chk.violation(f"C10 oracle: tagged union with default, {variant}: got {yd!r}, expected {xd!r}", case)
            except Exception as e:  # noqa: BLE001
                chk.violation("C10 oracle: tagged union with a default member on a forbidding converter rejects a payload of the "
                              "default member with an unknown / missing tag (tag counted as extra?) [%s member]: %s" % (kind, repr(e)[:200]), case)


def tag_kinds_witness(chk):
    """the Lean witness C10_tag_kept_for_td_witness on the implementation, on every run: a forbidding converter, a tagged
    union with a TypedDict member and a NamedTuple-from-dict member (also as the default member): the member's own dict
    plus the tag is accepted, a further key is reported alone."""
    from typing import NamedTuple, TypedDict
    from cattrs.cols import namedtuple_dict_structure_factory, namedtuple_dict_unstructure_factory

    class WT(TypedDict):
        a: int

    class WN(NamedTuple):
        b: int
        c: str = "x"

    n = 0
    for detailed in (True, False):
        for default in (None, WT, WN):
            conv = Converter(forbid_extra_keys=True, detailed_validation=detailed)
            conv.register_unstructure_hook(WN, namedtuple_dict_unstructure_factory(WN, conv))
            conv.register_structure_hook(WN, namedtuple_dict_structure_factory(WN, conv, detailed, True))
            U = Union[WT, WN]
            configure_tagged_union(U, conv, **({} if default is None else {"default": default}))
            tagless = [] if default is None else ([({"a": 1}, {"a": 1})] if default is WT else [({"b": 2}, WN(2))])
            for payload, want in [({"a": 1, "_type": "WT"}, {"a": 1}), ({"_type": "WN", "b": 2, "c": "y"}, WN(2, "y"))] + tagless:
                n += 1
                chk.count("tag-kinds-witness%s%s%r" % (detailed, default, payload), nontrivial=True)
                chk.note("tagged-union:kinds-witness")
                case = {"check": "tag", "stream": "tag-kinds-witness", "payload": repr(payload), "detailed": detailed}
                try:
                    got = conv.structure(payload, U)
                    if not (got == want and type(got) is type(want)):
                        chk.violation(f"C10 oracle: tagged union witness: {payload!r} -> {got!r}, expected {want!r}", case)
                except Exception as e:  # noqa: BLE001
                    chk.violation(f"C10 oracle: tagged union with a TypedDict / NamedTuple member on a forbidding converter rejects "
                                  f"the member's own payload {payload!r} (tag counted as extra?): {e!r}"[:400], case)
                try:
                    conv.structure({**payload, "zzz": 5}, U)
                    chk.violation(f"C10 oracle: tagged union witness accepted the extra key zzz in {payload!r}", case)
                except Exception as e:  # noqa: BLE001
                    found = []

                    def walk(exc):
                        if isinstance(exc, ForbiddenExtraKeysError):
                            found.append(set(exc.extra_fields))
                        for sub in getattr(exc, "exceptions", ()):
                            walk(sub)
                    walk(e)
                    if found != [{"zzz"}]:
                        chk.violation(f"C10 oracle: tagged union witness + extra key: reported {found}, expected exactly {{'zzz'}} for {payload!r}", case)
    chk.extra["tag_kinds_witness_cases"] = n


def f9_witness(chk, drv):
    """the recorded finding's concrete input, replayed on the implementation on every run"""
    g = {"classes": [{"kind": "td", "frozen": False, "slots": False, "hc": H.neutral_hc(),
                      "fields": [{"name": "a", "alias": "a", "ty": "int", "dflt": None, "init": True, "required": True,
                                  "kw_only": False}]}],
         "enums": [], "detailed": True, "conv": None}
    reproduced = 0
    for detailed in (True, False):
        g2 = dict(g, detailed=detailed)
        g2["classes"] = [dict(g["classes"][0], hc=dict(H.neutral_hc(), detailed=detailed))]
        S = H.HookSession(drv, g2)
        ty = ("td", 0)
        payload = ("d", [(("s", "a"), ("i", 1))])
        p_ext = ("d", [(("s", "a"), ("i", 1)), (("s", "zzz"), ("i", 5))])
        injected = {(): (0, [("s", "zzz")])}
        base = S.impl_st(ty, S.R.val(payload))
        res = S.impl_st(ty, S.R.val(p_ext))
        bad = judge(g2, S, S, ty, p_ext, injected, base, res, res)
        for what, extra in bad:
            case = dict({"stream": "witness", "gworld": g2, "ty": ty, "payload": payload, "payload_ext": p_ext,
                         "injected": [[[], 0, [("s", "zzz")]]]}, **extra)
            if not chk.violation("C10 oracle: " + what + " [witness {'a': 1, 'zzz': 5}]", case):
                reproduced += 1
        # the model's negative witness says the same
        rm = H.model_reply(S.model_st(ty, p_ext))
        if rm != H.impl_reply(S, res):
            chk.violation("correspondence corr:C10:HOOKST broken on the F9 witness: impl=%r model=%r" % (H.impl_reply(S, res), rm),
                          {"stream": "witness", "gworld": g2}, found_input=False)
    chk.extra["F9_witness_reproduced"] = reproduced
    if reproduced == 0 and any(f["id"] == "F9" for f in chk.known):
        print("NOTE C10: known finding F9 no longer reproduces on its witness {'a': 1, 'zzz': 5} (stale entry?)")


def run(chk: framework.Check):
    rng = chk.rng
    HG = H.HGen(rng, big=chk.tier != "quick")
    drv = lean.Driver()
    quick = chk.tier == "quick"
    corr_fail = []
    f9_witness(chk, drv)
    tag_kinds_witness(chk)
    n_hook, n_conv, n_any, n_deep = (225, 100, 80, 115) if quick else (2600, 1000, 900, 1500)
    for i in range(n_deep):
        g = HG.gworld(n_classes=4, want="consistent", forbid_p=0.7, chain=True, conv_level=(i % 4 == 3))
        one_world(chk, drv, HG, g, "deep", corr_fail, 2, 4, only_last=True)
    for _ in range(n_hook):
        one_world(chk, drv, HG, HG.gworld(want="consistent", forbid_p=0.6), "per-hook", corr_fail, 2, 3)
    for _ in range(n_conv):
        g = HG.gworld(want="consistent", conv_level=True, forbid_p=1.0)
        one_world(chk, drv, HG, g, "converter", corr_fail, 2, 3)
    for _ in range(n_any):
        one_world(chk, drv, HG, HG.gworld(want="any", forbid_p=0.6), UNJUDGED, corr_fail, 2, 2)
    tagged_unions(chk, HG, 90 if quick else 900, drv, corr_fail)
    for case, a, b in corr_fail[:5]:
        chk.violation(
            "correspondence corr:C10:%s broken (theorems C10_* no longer tied to the code): impl=%s model=%s [%s %s]"
            % ({"tag": "TAGHOOKST", "hits": "HOOKHITS"}.get(case.get("forbid_world"), "HOOKST"), str(a)[:300], str(b)[:300], case["stream"], terms.canon_sx(case["payload_ext"])[:300]),
            case, found_input=False)
    chk.extra["rule"] = ("class tables (attrs/dataclass/TypedDict/NamedTuple) x consistent customisations x valid payloads x "
                         "injected extra-key sets; non-trivial = at least one extra key injected; distinct by canonical text")
    chk.extra["correspondence_mismatches"] = len(corr_fail)
    drv.close()


def replay(case):
    drv = lean.Driver()
    if case.get("check") == "tag":
        print("tagged-union case; gworld:", case.get("gworld"))
        return 1
    g = H.gworld_from_json(case["gworld"])
    ty = terms.tuple_ify(case["ty"])
    payload = terms.tuple_ify(case["payload"])
    p_ext = terms.tuple_ify(case["payload_ext"])
    injected = {tuple(tuple(s) for s in path): (cj, [terms.tuple_ify(k) for k in ks]) for path, cj, ks in case["injected"]}
    g_off = H.with_forbid(g, False)
    S_on = H.HookSession(drv, g)
    S_off = H.HookSession(drv, g_off, R=S_on.R)
    print("classes:", [(c["kind"], [(f["name"], f["alias"], f["ty"]) for f in c["fields"]], H.eff_hc(g, i)) for i, c in enumerate(g["classes"])])
    print("payload:", terms.canon_sx(p_ext))
    base = S_off.impl_st(ty, S_off.R.val(payload))
    on_res = S_on.impl_st(ty, S_on.R.val(p_ext))
    off_res = S_off.impl_st(ty, S_off.R.val(p_ext))
    print("impl  forbid-on :", H.impl_reply(S_on, on_res), repr(on_res[1])[:200] if on_res[0] == "err" else "")
    print("model forbid-on :", H.model_reply(S_on.model_st(ty, p_ext, g)))
    print("impl  forbid-off:", H.impl_reply(S_off, off_res))
    print("model forbid-off:", H.model_reply(S_off.model_st(ty, p_ext, g_off)))
    bad = judge(g, S_on, S_off, ty, p_ext, injected, base, on_res, off_res) if base[0] == "ok" else [("payload not valid", {})]
    print("oracle:", [w for w, _ in bad] or "holds")
    return 1 if bad else 0


if __name__ == "__main__":
    framework.main(run, "C10")
