"""C08 — caches are transparent: behaviour depends only on options and registrations.

History = registrations interleaved with cache-warming calls (structure / unstructure / get_*_hook cached and
uncached, applied or not, on composite and class types).  At the end, and at random cut points inside the
history, a probe battery is run on the warmed converter (I).
Oracle P (implementation only): a FRESH converter that replays just the registrations made so far gives the
same result on every probe.
Model M: the same full history (warm-ups and probe batteries included) through RUNHIST on the cached machine.

The fresh converter runs each battery in the REVERSE order of the warmed one (a probe that decides a later probe's
answer -- state written by a cache-filling call -- then shows on one of the two).  The universe holds pairs of types that
share an origin but not a built-in default (`tuple[A, P]` / `tuple[A, ...]`), warmed in both orders.
Options are not state: after every case the option attributes of the converter (`dispatch_common.OPTION_ATTRS`:
`_unstruct_collection_overrides`, `type_overrides`, the flags, the strategy) must be what they were at construction
("behaviour is a function of construction options and registration history alone").

Derived-state stream (implementation only, `derived_stream`; outside the Lean Dispatch model, whose hooks carry no
attributes): registrations whose effect on OTHER types goes through state derived from hooks -- the default union
disambiguator reads the `overrides` of the structure hooks registered for the member classes (`create_default_dis_func(...,
overrides="from_converter")`), so a member-class hook with a renamed field, registered through any path after the union
(top level, as a field, inside a collection) was used, must re-key the union exactly as on a fresh converter.
"""
import itertools
import json

from harness import framework, lean
from harness import dispatch_common as dc
from harness.dispatch_common import DIRS, ST, UN, ConvCfg, Impl, U
from harness.dispatch_derived import derived_replay, derived_stream
from harness.props.c07 import gen_cfg as _gen_cfg07
from harness.props.c18 import COLL_CHOICES, TYO_CHOICES

REG = ("hook", "func", "factory")


def gen_cfg(rng):
    """C07's configurations, plus non-empty option dictionaries (they must come out of every history unchanged)"""
    cc = _gen_cfg07(rng)
    if cc.klass == "Converter" and rng.random() < 0.3:
        cc.extra["unstruct_collection_overrides"] = rng.choice(COLL_CHOICES[1:])
    if cc.klass == "Converter" and rng.random() < 0.2:
        cc.extra["type_overrides"] = rng.choice(TYO_CHOICES[1:])
    return cc


def build_history(rng, cc, preds, n_ops, p_warm=0.55):
    cnt = itertools.count(1)
    h = []
    for _ in range(n_ops):
        d = rng.choice(DIRS)
        if rng.random() < p_warm:
            h.append(dc.gen_warm(rng, 0, d, cc))
        else:
            h.append(dc.gen_reg(rng, 0, d, preds, lambda: next(cnt), prev=h))
    return h


def with_batteries(rng, cc, history, n_cuts, battery):
    """Insert probe batteries at `n_cuts` random positions and at the end; returns the full op list and, for every
    probe op index, the number of history ops before it."""
    cuts = sorted(rng.sample(range(len(history) + 1), min(n_cuts, len(history) + 1))) if history else []
    if len(history) not in cuts:
        cuts.append(len(history))
    full, prefix_of = [], {}
    pos = 0
    for c in cuts:
        full += history[pos:c]
        pos = c
        for d in DIRS:
            for p in dc.probe_ops(0, d, cc, battery):
                prefix_of[len(full)] = c
                full.append(p)
    return full, prefix_of


def run_case(drv, cc, preds, history, full, prefix_of):
    impl = Impl(preds)
    impl.make(cc)
    res_i = {}
    for n, op in enumerate(full):
        r = impl.do(op)
        if n in prefix_of:
            res_i[n] = r
    # oracle: fresh converters replaying only the registrations before each battery
    res_p = {}
    fresh_cache = {}
    # each probe on the fresh converter also warms it (a new fresh converter per cut point, no registration follows);
    # it runs the battery in the reverse order of the warmed converter, so that a probe whose answer depends on which
    # probe came before it differs on one of the two
    for n in sorted(prefix_of, reverse=True):
        c = prefix_of[n]
        if c not in fresh_cache:
            f = Impl(preds)
            f.make(cc)
            for op in history[:c]:
                if op["op"] in REG:
                    f.do(op)
            fresh_cache[c] = f
        res_p[n] = fresh_cache[c].do(full[n])
    res_m = {}
    for d in DIRS:
        mt, ctx = dc.run_model(drv, full, d, [cc], preds)
        for n, term in mt.items():
            if n in prefix_of:
                key = full[n]["ty"]
                res_m[n] = (dc.expect(ctx, dc.norm_term(ctx, term), key, Impl.sample(cc, d, U.types[key])), term)
    dc.prune_linecache()
    if impl.reg_errors:
        res_i["regerr"] = impl.reg_errors[0]
    written = impl.options_written() + [w for f in fresh_cache.values() for w in f.options_written()]
    if written:
        res_i["options_written"] = written[0]
    return res_i, res_p, res_m


def check_case(chk, drv, cc, preds, history, full, prefix_of, corr_fail, stats):
    case = {"cfg": cc.to_json(), "preds": dc.preds_to_json(preds), "history": history, "full": full,
            "prefix_of": {str(k): v for k, v in prefix_of.items()}}
    res_i, res_p, res_m = run_case(drv, cc, preds, history, full, prefix_of)
    if "regerr" in res_i:
        chk.violation("C08 oracle: a registration raised: " + res_i["regerr"], case)
        stats["oracle_fail"] += 1
    if "options_written" in res_i:
        chk.violation("C08 oracle: using the converter wrote one of its construction options (behaviour must be a function of "
                      f"options and registrations alone): {res_i['options_written']} [{cc.name()} "
                      f"{' ; '.join(dc.describe(o) for o in history)}]", case)
        stats["oracle_fail"] += 1
    n_warm = sum(1 for op in history if op["op"] not in REG)
    n_reg = len(history) - n_warm
    key = cc.name() + json.dumps(case["preds"], sort_keys=True) + "|".join(dc.describe(o) for o in full)
    chk.count(key, nontrivial=n_warm > 0 and n_reg > 0,
              sample={"cfg": cc.name(), "history": [dc.describe(o) for o in history][:14]})
    chk.note("cfg:" + cc.name().split("/")[0], "len:%02d" % len(history))
    for op in history:
        chk.note(("warm:" if op["op"] not in REG else "reg:") + op["op"] + ":" + op["dir"]
                 + ("" if op["op"] in REG or op["op"] == "call" else (":cached" if op.get("cached", True) else ":uncached")))
    warmed_before_reg = set()
    seen = set()
    for op in history:
        if op["op"] in REG:
            warmed_before_reg |= seen
        else:
            seen.add((op["dir"], op["ty"]))
    if warmed_before_reg:
        chk.note("history-registers-after-warming")
    for n in sorted(prefix_of):
        stats["probes"] += 1
        op = full[n]
        where = (f"[{cc.name()} {op['dir']} probe={U.types[op['ty']].name} after {prefix_of[n]} ops of: "
                 f"{' ; '.join(dc.describe(o) for o in history)}]")
        if res_i[n] != res_p[n]:
            chk.violation(f"C08 oracle: warmed converter gives {res_i[n]!r}, a fresh converter with the same registrations "
                          f"gives {res_p[n]!r} {where}", dict(case, probe=n))
            stats["oracle_fail"] += 1
        elif res_i[n] != res_m[n][0]:
            corr_fail.append((case, n, res_i[n], res_m[n], where))


def run(chk: framework.Check):
    rng = chk.rng
    drv = lean.Driver()
    corr_fail = []
    stats = {"probes": 0, "oracle_fail": 0}
    quick = chk.tier == "quick"
    battery = None  # all probe types
    # ---- exhaustive: warm W / reg R sequences over a small alphabet, every placement of the warm-ups
    alpha_preds = {1: ({U.k("A"), U.k("B"), U.k("NA"), U.k("UAP"), U.k("list[A]"), U.k("int")}, set())}
    small_battery = ["A", "B", "NA", "UAP", "OA", "W", "list[OA]", "list[A]", "list[B]", "list[NA]", "dict[str,B]", "tuple[A,P]",
                     "tuple[A,...]", "int"]
    for klass in ("Converter", "BaseConverter"):
        cc = ConvCfg(klass=klass)
        for d in DIRS:
            regs = [
                {"op": "hook", "conv": 0, "dir": d, "ty": U.k("A"), "form": "call"},
                {"op": "hook", "conv": 0, "dir": d, "ty": U.k("int"), "form": "call"},
                {"op": "hook", "conv": 0, "dir": d, "ty": U.k("UAP"), "form": "call"},
                {"op": "hook", "conv": 0, "dir": d, "ty": U.k("NA"), "form": "call"},
                {"op": "hook", "conv": 0, "dir": d, "ty": U.k("OA"), "form": "deco"},
                {"op": "func", "conv": 0, "dir": d, "pred": 1},
                {"op": "factory", "conv": 0, "dir": d, "pred": 1, "extended": True, "form": "call"},
            ]
            warms = [
                {"op": "call", "conv": 0, "dir": d, "ty": U.k("list[OA]")},
                {"op": "call", "conv": 0, "dir": d, "ty": U.k("W")},
                {"op": "call", "conv": 0, "dir": d, "ty": U.k("list[NA]")},
                {"op": "get", "conv": 0, "dir": d, "ty": U.k("dict[str,B]"), "cached": True, "apply": False},
                {"op": "get", "conv": 0, "dir": d, "ty": U.k("UAP"), "cached": False, "apply": True},
                {"op": "call", "conv": 0, "dir": d, "ty": U.k("tuple[A,P]")},
                {"op": "call", "conv": 0, "dir": d, "ty": U.k("tuple[A,...]")},
                {"op": "get", "conv": 0, "dir": d, "ty": U.k("tuple[A,...]"), "cached": True, "apply": False},
            ]
            L = 2 if quick else 3
            for combo in itertools.product(regs, repeat=L):
                ws = [rng.choice(warms) for _ in range(L)] if quick else None
                for wcombo in ([ws] if quick else itertools.product(warms[:2], repeat=L)):
                    history = []
                    for i, (w, r) in enumerate(zip(wcombo, combo)):
                        history += [dict(w), dict(r, tag=i + 1)]
                    full, prefix_of = with_batteries(rng, cc, history, 0, small_battery)
                    check_case(chk, drv, cc, alpha_preds, history, full, prefix_of, corr_fail, stats)
    # ---- random interleavings
    n_rand = 600 if quick else 6000
    max_ops = 14 if quick else 24
    for _ in range(n_rand):
        cc = gen_cfg(rng)
        preds = dc.gen_preds(rng)
        history = build_history(rng, cc, preds, rng.randint(2, max_ops))
        full, prefix_of = with_batteries(rng, cc, history, 2, battery)
        check_case(chk, drv, cc, preds, history, full, prefix_of, corr_fail, stats)
    if corr_fail and not stats["oracle_fail"]:
        for case, n, ri, rm, where in corr_fail[:5]:
            chk.violation("correspondence corr:C08:RUNHIST broken (theorems C08_* no longer tied to the code): "
                          f"impl={ri!r} model={rm[0]!r} model-term={rm[1]!r} {where}", dict(case, probe=n), found_input=False)
    chk.extra["rule"] = ("histories interleaving registrations (all kinds, both directions) with warm-up calls (structure, "
                         "unstructure, get_*_hook cached/uncached, on class and composite types); probe batteries at cut points and "
                         "at the end compared with a fresh converter replaying only the registrations; non-trivial = at least one "
                         "warm-up and one registration; distinct by configuration+history text")
    derived_stream(chk, 400 if quick else 4000)
    chk.extra["probes"] = stats["probes"]
    chk.extra["correspondence_disagreements"] = len(corr_fail)
    drv.close()


def replay(case):
    if case.get("stream") == "derived":
        return derived_replay(case)
    drv = lean.Driver()
    cc = ConvCfg.from_json(case["cfg"])
    preds = dc.preds_from_json(case["preds"])
    history, full = case["history"], case["full"]
    prefix_of = {int(k): v for k, v in case["prefix_of"].items()}
    print("configuration:", cc.name())
    for p, (a, r) in preds.items():
        print(f"  predicate p{p}: accepts {[U.types[k].name for k in sorted(a)]} raises "
              f"{[(U.types[k].name, dc.pred_exception(p, k).__name__) for k in sorted(r)]}")
    for op in history:
        print("  ", dc.describe(op))
    res_i, res_p, res_m = run_case(drv, cc, preds, history, full, prefix_of)
    rc = 0
    for n in sorted(prefix_of):
        if "probe" in case and case["probe"] != n:
            continue
        ok = res_i[n] == res_p[n]
        print(f"probe #{n} {dc.describe(full[n])} after {prefix_of[n]} ops: warmed={res_i[n]!r} fresh={res_p[n]!r} model={res_m[n][0]!r}"
              f" -> {'holds' if ok else 'VIOLATED'}")
        rc = rc or (0 if ok else 1)
    return rc


if __name__ == "__main__":
    framework.main(run, "C08")
