"""C08 — caches are transparent: behaviour depends only on options and registrations.

History = registrations interleaved with cache-warming calls (structure / unstructure / get_*_hook cached and
uncached, applied or not, on composite and class types).  At the end, and at random cut points inside the
history, a probe battery is run on the warmed converter (I).
Oracle P (implementation only): a FRESH converter that replays just the registrations made so far gives the
same result on every probe.
Model M: the same full history (warm-ups and probe batteries included) through RUNHIST on the cached machine.

The fresh converter runs each battery in the REVERSE order of the warmed one (a probe that decides a later probe's
answer -- state written by a cache-filling call -- then shows on one of the two).  The universe holds pairs of types that
share an origin but not a built-in default (`tuple[A, P]` / `tuple[A, ...]`), warmed in both orders.
Options are not state: after every case the option attributes of the converter (`dispatch_common.OPTION_ATTRS`:
`_unstruct_collection_overrides`, `type_overrides`, the flags, the strategy) must be what they were at construction
("behaviour is a function of construction options and registration history alone").

Every run that serves as a reference for another one is made on a thread of its own (`dispatch_common.in_thread`): the
warmed converter of a case on one thread, every fresh replay on another -- cattrs keeps per-thread state while it generates
hooks, and a reference run that shares it with the run it is compared with could not differ from it.

FAILING cache-filling calls: configurations with a STRICT `unstructure_fallback_factory` (raises when asked for a hook: every
type without a registered hook fails until the user registers one) and user hook factories that RAISE on some of the types
their predicate accepts.  "call fails because a hook is missing -> register the hook -> call again" is an interleaving like
any other: the second call must give what a fresh converter with the same registrations gives.
Immediacy sweep (`immediacy_cases`): for EVERY registration target r x every kind of registration for it x both converter
classes x both directions (x strict fallback when unstructuring), ALL universe types whose hook depends on r (r itself, its
subclasses, every composite type and class it occurs in, mappings of unions included) are warmed first, r is registered, and
all of them are probed again ("every registration takes effect immediately, also for types that were already used").
COPY steps (`copy()` / `deepcopy` / `copy(<option overrides>)`, also of copies) inside the histories: a copy is a converter
constructed from (the source's options, the given ones replaced) + (the registrations the source had received); whatever
the source was USED for before is no part of it.  Every converter of the store is probed at the cut points and compared
with a fresh converter constructed with its options that replays its registrations (`dispatch_common.store_view`); at
these cut points also on option-sensitive probes nested in collections (`OPT_PROBES`, implementation only).  Model side:
the store history runs through RUNHIST (`copyOf` starts a copy with empty caches); theorem C08_transparent_store says every
converter of any store history answers like a fresh converter built as its origin that replays only its registrations.

Derived-state stream (implementation only, `derived_stream`; outside the Lean Dispatch model, whose hooks carry no
attributes): registrations whose effect on OTHER types goes through state derived from hooks -- the default union
disambiguator reads the `overrides` of the structure hooks registered for the member classes (`create_default_dis_func(...,
overrides="from_converter")`), so a member-class hook with a renamed field, registered through any path after the union
(top level, as a field, inside a collection) was used, must re-key the union exactly as on a fresh converter.

Fallback-factory stream (implementation only, `harness/dispatch_fallback.py`): converters constructed with NON-DEFAULT fallback
factories whose hooks are built out of other hooks -- chained converters (`unstructure_fallback_factory=parent.get_unstructure_hook`)
and factories composing `conv.get_*_hook(field type)` for plain annotated classes (early / uncached / late binding) -- used,
then given registrations for the types those hooks are composed of.
Strategy stream (implementation only, `harness/dispatch_strategies.py`): `include_subclasses` (with / without a union strategy,
with / without overrides, on the root or an inner class) as a registration operation applied AFTER the classes of the tree,
their holders and collections of them were used.
"""
import itertools
import json

from harness import framework, lean
from harness import dispatch_common as dc
from harness.dispatch_common import DIRS, ST, UN, ConvCfg, Impl, U
from harness.dispatch_derived import derived_replay, derived_stream
from harness.dispatch_fallback import fallback_replay, fallback_stream
from harness.dispatch_strategies import strategy_replay, strategy_stream
from harness.props.c07 import gen_cfg as _gen_cfg07
from harness.props.c18 import COLL_CHOICES, TYO_CHOICES, ext_battery, gen_copy

REG = ("hook", "func", "factory")
# option-sensitive probes of C18's `EXT` whose hooks are generated with the options baked in and parked in a cache
OPT_PROBES = ("list[ExtDf]=default", "dict[str,A]+extra-key", "tuple[ExtDf,int]=default", "set[int]", "An[frozenset[int]]",
              "ExtS(annotated-set-fields)", "dict[str,ExtT](float-field)", "list[A](invalid)", "A+extra-key", "ExtDf=default")


def gen_cfg(rng):
    """C07's configurations, plus non-empty option dictionaries (they must come out of every history unchanged)"""
    cc = _gen_cfg07(rng)
    if cc.klass == "Converter" and rng.random() < 0.3:
        cc.extra["unstruct_collection_overrides"] = rng.choice(COLL_CHOICES[1:])
    if cc.klass == "Converter" and rng.random() < 0.2:
        cc.extra["type_overrides"] = rng.choice(TYO_CHOICES[1:])
    if rng.random() < 0.15:
        cc.fb_un = dc.STRICT_FB[0]   # a strict unstructure fallback factory: hook generation FAILS for unregistered types
    r = rng.random()
    if r < 0.2:      # fallback factories whose hooks are composed of other hooks (dispatch_common.COMPOSE_FB), either direction
        cc.fb_un = rng.choice(dc.COMPOSE_FB)
    elif r < 0.4:
        cc.fb_st = rng.choice(dc.COMPOSE_FB)
    return cc


def composing(cc):
    return cc.fb_un in dc.COMPOSE_FB or cc.fb_st in dc.COMPOSE_FB


def build_history(rng, cc, preds, n_ops, p_warm=0.55, copies=0):
    """registrations interleaved with warm-ups; `copies` copy steps at random positions (source = any converter that exists
    then); afterwards the operations are spread over all converters of the store"""
    cnt = itertools.count(1)
    h = []
    cfgs = [cc]
    copy_at = set(rng.sample(range(1, n_ops + 1), min(copies, n_ops))) if copies else ()
    for i in range(n_ops):
        if i in copy_at:
            src = rng.randrange(len(cfgs))
            step = gen_copy(rng, src, cfgs[src])
            h.append(step)
            cfgs.append(ConvCfg.from_json(step["cfg"]))
            continue
        d = rng.choice(DIRS)
        j = rng.randrange(len(cfgs)) if len(cfgs) > 1 else 0
        if rng.random() < p_warm:
            h.append(dc.gen_warm(rng, j, d, cfgs[j]))
        else:
            strict = cfgs[j].fb_un in dc.STRICT_FB and d == UN and rng.random() < 0.5
            if strict:   # under a strict fallback the registrations that repair failing calls: hooks for leaf classes
                h.append({"op": "hook", "conv": j, "dir": d, "ty": U.k(rng.choice(["int", "int", "object", "P", "A"])), "tag": next(cnt),
                          "form": "call"})
            else:
                h.append(dc.gen_reg(rng, j, d, preds, lambda: next(cnt), prev=[o for o in h if o.get("conv") == j], fraise=0.15))
    return h


def with_batteries(rng, cc, history, n_cuts, battery, dirs=DIRS, cuts=None):
    """Insert probe batteries (on EVERY converter that exists at that point) at `n_cuts` random positions and at the end;
    returns the full op list and, for every probe op index, the number of history ops before it."""
    if cuts is None:
        cuts = sorted(rng.sample(range(len(history) + 1), min(n_cuts, len(history) + 1))) if history else []
    if len(history) not in cuts:
        cuts.append(len(history))
    full, prefix_of = [], {}
    pos = 0
    for c in cuts:
        full += history[pos:c]
        pos = c
        cfgs, _ = dc.store_view(history[:c], [cc])
        for j, cj in enumerate(cfgs):
            for d in dirs:
                for p in dc.probe_ops(j, d, cj, battery):
                    prefix_of[len(full)] = c
                    full.append(p)
    return full, prefix_of


def run_case(drv, cc, preds, history, full, prefix_of, opt_probes=False):
    """-> (res_i, res_p, res_m): results of every probe op of `full` on the warmed store, on fresh replays, on the model;
    with `opt_probes` also `("opt", cut, converter, probe name)` entries (warmed / fresh only)"""
    block_end = {n: prefix_of[n] for n in prefix_of if n + 1 not in prefix_of}   # last probe op of every battery block

    def warmed():
        impl = Impl(preds)
        impl.make(cc)
        res = {}
        for n, op in enumerate(full):
            r = impl.do(op)
            if n in prefix_of:
                res[n] = r
            elif op["op"] == "call" or (op["op"] == "get" and op.get("apply", True)):
                res[("warm", n)] = r == dc.ERR
            if opt_probes and n in block_end:
                for j in range(len(impl.convs)):
                    for k, v in ext_battery(impl, j, OPT_PROBES).items():
                        res[("opt", block_end[n], j, k[1])] = v
        if impl.reg_errors:
            res["regerr"] = impl.reg_errors[0]
        return res, impl.options_written()

    def fresh(c, j, probes):
        # a fresh converter constructed with the options of converter j of the store as it is after `c` ops, replaying only
        # the registrations that make up j's history.  Each probe on the fresh converter also warms it (a new fresh converter
        # per cut point and converter, no registration follows); it runs the battery in the reverse order of the warmed
        # converter, so that a probe whose answer depends on which probe came before it differs on one of the two
        cfgs, regs_of = dc.store_view(history[:c], [cc])
        f = Impl(preds)
        f.make(cfgs[j])
        for op in regs_of[j]:
            f.do(op)
        res = {n: f.do(dict(full[n], conv=0)) for n in sorted(probes, reverse=True)}
        if opt_probes:
            for k, v in ext_battery(f, 0, OPT_PROBES).items():
                res[("opt", c, j, k[1])] = v
        return res, f.options_written()

    res_i, written = dc.in_thread(warmed)
    res_p = {}
    groups = {}
    for n, c in prefix_of.items():
        groups.setdefault((c, full[n]["conv"]), []).append(n)
    for (c, j), probes in sorted(groups.items(), reverse=True):
        r, w = dc.in_thread(fresh, c, j, probes)
        res_p.update(r)
        written = written + w
    res_m = {}
    cfgs, _ = dc.store_view(history, [cc])
    fraise = dc.fraise_of(history)
    for d in DIRS:
        mt, _ = dc.run_model(drv, full, d, [cc], preds)
        ctxs = [dc.ModelCtx(cj, d, preds) for cj in cfgs]
        for n, term in mt.items():
            if n in prefix_of:
                key, j = full[n]["ty"], full[n]["conv"]
                ctxs[j].fraise = fraise
                res_m[n] = (dc.expect(ctxs[j], dc.norm_term(ctxs[j], term), key, Impl.sample(cfgs[j], d, U.types[key])), term)
    dc.prune_linecache()
    if written:
        res_i["options_written"] = written[0]
    return res_i, res_p, res_m


def check_case(chk, drv, cc, preds, history, full, prefix_of, corr_fail, stats, opt_probes=False):
    case = {"cfg": cc.to_json(), "preds": dc.preds_to_json(preds), "history": history, "full": full,
            "prefix_of": {str(k): v for k, v in prefix_of.items()}, "opt_probes": opt_probes}
    res_i, res_p, res_m = run_case(drv, cc, preds, history, full, prefix_of, opt_probes)
    if "regerr" in res_i:
        chk.violation("C08 oracle: a registration raised: " + res_i["regerr"], case)
        stats["oracle_fail"] += 1
    if "options_written" in res_i:
        chk.violation("C08 oracle: using the converter wrote one of its construction options (behaviour must be a function of "
                      f"options and registrations alone): {res_i['options_written']} [{cc.name()} "
                      f"{' ; '.join(dc.describe(o) for o in history)}]", case)
        stats["oracle_fail"] += 1
    n_warm = sum(1 for op in history if op["op"] in ("call", "get"))
    n_reg = sum(1 for op in history if op["op"] in REG)
    key = cc.name() + json.dumps(case["preds"], sort_keys=True) + "|".join(dc.describe(o) for o in full)
    chk.count(key, nontrivial=n_warm > 0 and n_reg > 0,
              sample={"cfg": cc.name(), "history": [dc.describe(o) for o in history][:14]})
    chk.note("cfg:" + cc.name().split("/")[0], "len:%02d" % len(history))
    if cc.fb_un in dc.STRICT_FB:
        chk.note("cfg:strict-unstructure-fallback")
    if composing(cc):
        chk.note("cfg:composing-fallback-factory")
    for op in history:
        if op["op"] == "copy":
            chk.note("copy:" + op["how"] + (":overrides" if op["kwargs"] else "") + (":of-a-copy" if op["src"] else ""))
            continue
        if op.get("fraise"):
            chk.note("reg:factory-raising-on-accepted-types")
        chk.note(("warm:" if op["op"] not in REG else "reg:") + op["op"] + ":" + op["dir"]
                 + ("" if op["op"] in REG or op["op"] == "call" else (":cached" if op.get("cached", True) else ":uncached")))
    warmed_before_reg = set()
    seen = set()
    for op in history:
        if op["op"] in REG:
            warmed_before_reg |= seen
        elif op["op"] != "copy":
            seen.add((op["dir"], op["ty"]))
    if warmed_before_reg:
        chk.note("history-registers-after-warming")
    failed_warm = {(full[k[1]]["conv"], full[k[1]]["dir"], full[k[1]]["ty"]) for k, v in res_i.items()
                   if isinstance(k, tuple) and k[0] == "warm" and v}
    for k in [k for k in res_p if isinstance(k, tuple)]:   # option-sensitive probes: warmed store vs fresh replays
        stats["opt_probes"] = stats.get("opt_probes", 0) + 1
        if res_i.get(k) != res_p[k]:
            chk.violation(f"C08 oracle: option-sensitive probe {k[3]} on c{k[2]} after {k[1]} ops: the warmed store gives {res_i.get(k)!r}, a fresh "
                          f"converter with the same options and registrations gives {res_p[k]!r} [{cc.opts()} "
                          f"{' ; '.join(dc.describe(o) for o in history)}]", dict(case, probe=list(k)))
            stats["oracle_fail"] += 1
    for n in sorted(prefix_of):
        stats["probes"] += 1
        op = full[n]
        where = (f"[{cc.name()} c{op['conv']} {op['dir']} probe={U.types[op['ty']].name} after {prefix_of[n]} ops of: "
                 f"{' ; '.join(dc.describe(o) for o in history)}]")
        if res_i[n] != dc.ERR and (op["conv"], op["dir"], op["ty"]) in failed_warm:
            chk.note("probe-succeeds-on-a-type-whose-earlier-call-failed")
        if res_i[n] != res_p[n]:
            chk.violation(f"C08 oracle: warmed converter gives {res_i[n]!r}, a fresh converter with the same registrations "
                          f"gives {res_p[n]!r} {where}", dict(case, probe=n))
            stats["oracle_fail"] += 1
        elif res_i[n] != res_m[n][0]:
            corr_fail.append((case, n, res_i[n], res_m[n], where))


def depends_on(key, seen=None, via=None):
    """keys of the types the hook for `key` may depend on: the type itself, the classes of its MRO, and -- recursively --
    its component types (`via` = (cc, d): also the components `comps_of` names for that configuration, e.g. the virtual
    components of plain classes under a composing fallback factory)"""
    seen = set() if seen is None else seen
    if key in seen:
        return seen
    seen.add(key)
    seen.update(U.mro.get(key, ()))
    for p in tuple(U.types[key].parts) + (tuple(c for c in dc.comps_of(via[0], via[1], key) if c is not None) if via else ()):
        depends_on(p, seen, via)
    return seen


def immediacy_cases(rng, quick):
    """(cc, preds, history, battery names): all types depending on registration target r are warmed (in a random order, by
    structure / unstructure / get_*_hook), then r is registered -- class / NewType / union hook, predicate hook, hook factory,
    or a hook registered AFTER a hook factory that raises on r made the warm-ups fail -- then the same types are probed"""
    n = 0
    for rname in dc.REG_TARGETS:
        r = U.k(rname)
        affected = [t.name for t in U.types if t.name in dc.PROBES and r in depends_on(t.key)]
        for klass in ("Converter", "BaseConverter"):
            for d in DIRS:
                for strict in ((0, 1) if d == UN else (0,)):
                    cc = ConvCfg(klass=klass, fb_un=dc.STRICT_FB[0] * strict)
                    names = [nm for nm in affected if not dc.excluded(cc, d, U.k(nm))]
                    for kind in ("hook", "func", "factory", "hook-after-raising-factory"):
                        n += 1
                        if quick and kind in ("func", "factory") and (n + strict) % 2:
                            continue
                        preds = {1: ({r}, set())}
                        order = list(names)
                        rng.shuffle(order)
                        hist = []
                        if kind == "hook-after-raising-factory":
                            hist.append({"op": "factory", "conv": 0, "dir": d, "pred": 1, "tag": 1, "extended": bool(n % 2), "form": "call",
                                         "fraise": [r]})
                        for nm in order:
                            w = {"conv": 0, "dir": d, "ty": U.k(nm)}
                            w.update({"op": "call"} if rng.random() < 0.5 else
                                     {"op": "get", "cached": rng.random() < 0.7, "apply": rng.random() < 0.5})
                            hist.append(w)
                        if kind in ("hook", "hook-after-raising-factory"):
                            hist.append({"op": "hook", "conv": 0, "dir": d, "ty": r, "tag": 2, "form": ("call", "deco")[n % 2]})
                        elif kind == "func":
                            hist.append({"op": "func", "conv": 0, "dir": d, "pred": 1, "tag": 2})
                        else:
                            hist.append({"op": "factory", "conv": 0, "dir": d, "pred": 1, "tag": 2, "extended": bool(n % 2), "form": "call"})
                        yield cc, preds, hist, names, d
    # composing fallback factories (hooks built out of the current hooks of other types; cached / uncached look-ups): every
    # registration target some fallback-made hook depends on, after everything depending on it was used
    for rname in dc.REG_TARGETS:
        r = U.k(rname)
        for klass in ("Converter", "BaseConverter"):
            for d in DIRS:
                for fid in dc.COMPOSE_FB:
                    n += 1
                    if quick and n % 2:
                        continue
                    cc = ConvCfg(klass=klass, fb_un=fid if d == UN else 0, fb_st=fid if d == ST else 0)
                    names = [t.name for t in U.types if t.name in dc.PROBES and not dc.excluded(cc, d, t.key)
                             and r in depends_on(t.key, via=(cc, d))]
                    order = list(names)
                    rng.shuffle(order)
                    hist = []
                    for nm in order:
                        w = {"conv": 0, "dir": d, "ty": U.k(nm)}
                        w.update({"op": "call"} if rng.random() < 0.5 else
                                 {"op": "get", "cached": rng.random() < 0.7, "apply": rng.random() < 0.5})
                        hist.append(w)
                    kind = ("hook", "func", "factory")[n % 3]
                    if kind == "hook":
                        hist.append({"op": "hook", "conv": 0, "dir": d, "ty": r, "tag": 2, "form": ("call", "deco")[n % 2]})
                    elif kind == "func":
                        hist.append({"op": "func", "conv": 0, "dir": d, "pred": 1, "tag": 2})
                    else:
                        hist.append({"op": "factory", "conv": 0, "dir": d, "pred": 1, "tag": 2, "extended": bool(n % 2), "form": "call"})
                    yield cc, {1: ({r}, set())}, hist, names, d


def copy_sweep_cases():
    """(cc, preds, history, cuts): the source is used on everything (universe battery + option-sensitive probes at cut 0),
    then copied -- every way of copying, every option `copy()` can override, one at a time -- then the SOURCE receives
    registrations (hooks that call back into the converter they were built for would show them on the copy)"""
    per = {"Converter": [("copy", {}), ("deepcopy", {}), ("copy", {"detailed_validation": False}), ("copy", {"unstruct_strat": "astuple"}),
                         ("copy", {"omit_if_default": True}), ("copy", {"forbid_extra_keys": True}),
                         ("copy", {"unstruct_collection_overrides": {"set": "list"}}), ("copy", {"unstruct_collection_overrides": {"Sequence": "tuple"}}),
                         ("copy", {"type_overrides": {"float": "F"}}), ("copy", {"prefer_attrib_converters": True}),
                         ("copy", {"dict_factory": "OrderedDict"})],
           "BaseConverter": [("copy", {}), ("deepcopy", {}), ("copy", {"detailed_validation": False}), ("copy", {"unstruct_strat": "astuple"}),
                             ("copy", {"prefer_attrib_converters": True}), ("copy", {"dict_factory": "OrderedDict"})]}
    for klass, hows in per.items():
        cc = ConvCfg(klass=klass)
        for n, (how, kw) in enumerate(hows):
            hist = [dc.copy_op(0, cc, kw, how)]
            for i, nm in enumerate(("A", "int", "P")):
                hist.append({"op": "hook", "conv": n % 2, "dir": DIRS[(n + i) % 2], "ty": U.k(nm), "tag": i + 1, "form": "call"})
            yield cc, {1: (set(), set())}, hist


def run(chk: framework.Check):
    rng = chk.rng
    drv = lean.Driver()
    corr_fail = []
    stats = {"probes": 0, "oracle_fail": 0}
    quick = chk.tier == "quick"
    battery = None  # all probe types
    # ---- exhaustive: warm W / reg R sequences over a small alphabet, every placement of the warm-ups
    alpha_preds = {1: ({U.k("A"), U.k("B"), U.k("NA"), U.k("UAP"), U.k("list[A]"), U.k("int")}, set())}
    small_battery = ["A", "B", "NA", "UAP", "OA", "W", "list[OA]", "list[A]", "list[B]", "list[NA]", "dict[str,B]", "tuple[A,P]",
                     "tuple[A,...]", "int"]
    for klass in ("Converter", "BaseConverter"):
        cc = ConvCfg(klass=klass)
        for d in DIRS:
            regs = [
                {"op": "hook", "conv": 0, "dir": d, "ty": U.k("A"), "form": "call"},
                {"op": "hook", "conv": 0, "dir": d, "ty": U.k("int"), "form": "call"},
                {"op": "hook", "conv": 0, "dir": d, "ty": U.k("UAP"), "form": "call"},
                {"op": "hook", "conv": 0, "dir": d, "ty": U.k("NA"), "form": "call"},
                {"op": "hook", "conv": 0, "dir": d, "ty": U.k("OA"), "form": "deco"},
                {"op": "func", "conv": 0, "dir": d, "pred": 1},
                {"op": "factory", "conv": 0, "dir": d, "pred": 1, "extended": True, "form": "call"},
            ]
            warms = [
                {"op": "call", "conv": 0, "dir": d, "ty": U.k("list[OA]")},
                {"op": "call", "conv": 0, "dir": d, "ty": U.k("W")},
                {"op": "call", "conv": 0, "dir": d, "ty": U.k("list[NA]")},
                {"op": "get", "conv": 0, "dir": d, "ty": U.k("dict[str,B]"), "cached": True, "apply": False},
                {"op": "get", "conv": 0, "dir": d, "ty": U.k("UAP"), "cached": False, "apply": True},
                {"op": "call", "conv": 0, "dir": d, "ty": U.k("tuple[A,P]")},
                {"op": "call", "conv": 0, "dir": d, "ty": U.k("tuple[A,...]")},
                {"op": "get", "conv": 0, "dir": d, "ty": U.k("tuple[A,...]"), "cached": True, "apply": False},
            ]
            L = 2 if quick else 3
            for combo in itertools.product(regs, repeat=L):
                ws = [rng.choice(warms) for _ in range(L)] if quick else None
                for wcombo in ([ws] if quick else itertools.product(warms[:2], repeat=L)):
                    history = []
                    for i, (w, r) in enumerate(zip(wcombo, combo)):
                        history += [dict(w), dict(r, tag=i + 1)]
                    full, prefix_of = with_batteries(rng, cc, history, 0, small_battery)
                    check_case(chk, drv, cc, alpha_preds, history, full, prefix_of, corr_fail, stats)
    # ---- immediacy sweep: every registration target x kind, after everything that depends on it was used
    for cc, preds, history, names, d in immediacy_cases(rng, quick):
        full, prefix_of = with_batteries(rng, cc, history, 0, names, dirs=(d,))
        chk.note("immediacy-sweep:" + d + (":composing-fallback" if composing(cc) else ":strict-fallback" if cc.fb_un else ""))
        check_case(chk, drv, cc, preds, history, full, prefix_of, corr_fail, stats)
    # ---- copy sweep: a used converter is copied in every way / with every option override
    for cc, preds, history in copy_sweep_cases():
        full, prefix_of = with_batteries(rng, cc, history, 0, battery, cuts=[0, len(history)])
        chk.note("copy-sweep")
        check_case(chk, drv, cc, preds, history, full, prefix_of, corr_fail, stats, opt_probes=True)
    # ---- random interleavings; a third of them with copy steps (probed on every converter, also option-sensitively)
    n_rand = 420 if quick else 6000
    max_ops = 14 if quick else 24
    for i in range(n_rand):
        cc = gen_cfg(rng)
        preds = dc.gen_preds(rng)
        copies = rng.choice([1, 1, 2]) if i % 3 == 0 else 0
        if composing(cc):
            copies = 0   # copy() hands the copy the SOURCE's factory object (closed over the source converter): C18's business
        history = build_history(rng, cc, preds, rng.randint(2, max_ops), copies=copies)
        full, prefix_of = with_batteries(rng, cc, history, 1 if copies else 2, battery)
        check_case(chk, drv, cc, preds, history, full, prefix_of, corr_fail, stats, opt_probes=bool(copies))
    if corr_fail and not stats["oracle_fail"]:
        for case, n, ri, rm, where in corr_fail[:5]:
            chk.violation("correspondence corr:C08:RUNHIST broken (theorems C08_* no longer tied to the code): "
                          f"impl={ri!r} model={rm[0]!r} model-term={rm[1]!r} {where}", dict(case, probe=n), found_input=False)
    chk.extra["rule"] = ("histories interleaving registrations (all kinds, both directions) with warm-up calls (structure, "
                         "unstructure, get_*_hook cached/uncached, on class and composite types); probe batteries at cut points and "
                         "at the end compared with a fresh converter replaying only the registrations; non-trivial = at least one "
                         "warm-up and one registration; distinct by configuration+history text; + immediacy sweep (every registration target x "
                         "kind after ALL dependent types were used, also under a strict fallback factory / after a raising hook factory); "
                         "+ copy steps inside the histories (every converter of the store vs a fresh converter with its options and "
                         "registrations, option-sensitive collection probes included); reference runs on threads of their own")
    chk.extra["option_sensitive_probes"] = stats.get("opt_probes", 0)
    derived_stream(chk, 400 if quick else 4000)
    fallback_stream(chk, 140 if quick else 3000)
    strategy_stream(chk, 50 if quick else 1500)
    chk.extra["probes"] = stats["probes"]
    chk.extra["correspondence_disagreements"] = len(corr_fail)
    drv.close()


def replay(case):
    if case.get("stream") == "derived":
        return derived_replay(case)
    if case.get("stream") == "fallback":
        return fallback_replay(case)
    if case.get("stream") == "strategies":
        return strategy_replay(case)
    drv = lean.Driver()
    cc = ConvCfg.from_json(case["cfg"])
    preds = dc.preds_from_json(case["preds"])
    history, full = case["history"], case["full"]
    prefix_of = {int(k): v for k, v in case["prefix_of"].items()}
    print("configuration:", cc.name())
    for p, (a, r) in preds.items():
        print(f"  predicate p{p}: accepts {[U.types[k].name for k in sorted(a)]} raises "
              f"{[(U.types[k].name, dc.pred_exception(p, k).__name__) for k in sorted(r)]}")
    for op in history:
        print("  ", dc.describe(op))
    res_i, res_p, res_m = run_case(drv, cc, preds, history, full, prefix_of, case.get("opt_probes", False))
    rc = 0
    for k in [k for k in res_p if isinstance(k, tuple)]:
        if res_i.get(k) != res_p[k]:
            print(f"option-sensitive probe {k[3]} on c{k[2]} after {k[1]} ops: warmed={res_i.get(k)!r} fresh={res_p[k]!r} -> VIOLATED")
            rc = 1
    for n in sorted(prefix_of):
        if "probe" in case and case["probe"] != n:
            continue
        ok = res_i[n] == res_p[n]
        print(f"probe #{n} {dc.describe(full[n])} after {prefix_of[n]} ops: warmed={res_i[n]!r} fresh={res_p[n]!r} model={res_m[n][0]!r}"
              f" -> {'holds' if ok else 'VIOLATED'}")
        rc = rc or (0 if ok else 1)
    return rc


if __name__ == "__main__":
    framework.main(run, "C08")
