"""C06 — the generated-code `Converter` and the interpretive `BaseConverter` agree on common types.

Cases: random worlds (attrs classes / dataclasses incl. recursive ones, enums) x types to depth 3 that BOTH converter
classes support (`gen.supported` for both) x conforming values x {valid, mutated, junk} payloads x
{dict, tuple strategy} x {detailed, fast validation} (+ prefer_attrib_converters on worlds with attrs field converters).
Worlds also hold class HIERARCHIES (a class derived from an earlier one; the base is used first, then the derived
class), classes whose annotations are all strings (PEP 563), and attrs classes with two attributes of one type exactly
one of which has an attrs converter; which engine meets a type first is drawn per case (what one engine leaves behind on
a class must not change what the other does with it).

Implementation observable I: outcome (ok value / raised) of `structure(payload, T)` on a `Converter` and on a
`BaseConverter` built with the same options, and `unstructure(x, unstructure_as=T)` on both.
Oracle P (written from the property statement, evaluated on the implementation only):
  * every payload whose class positions hold mappings (independent walker `maps_at_cls`; every payload under the tuple
    strategy, where the statement asks for sequences and both classes run the same code) -> same outcome, equal results;
  * the two unstructured outputs are equal after turning tuples and deques into lists (`norm_seq`).
Model observable M: `ST` / `UN` of the Lean data-path model for both engines (theorems C06_struct_agree,
C06_unstruct_agree_partial are about exactly these functions); `C06SCOPE` / `C06USCOPE` evaluate the theorems'
hypotheses on the case (scope rate in the evidence) and cross-check the Python walker against `mapsAtCls`.
Known finding recognised narrowly: F43 `c06-initfalse-emitted-by-baseconverter` (dict strategy: BaseConverter emits
`init=False` fields, Converter leaves them out); its Lean witness and the non-mapping witness (`structure([], D)`
for an all-default class) are replayed on the implementation on every run.
"""
from __future__ import annotations

import os
import sys

sys.path.insert(0, os.environ.get("CATTRS_SRC", "/repo/src"))

from harness import framework, gen, lean, streams, terms  # noqa: E402
from harness.datapath import Session, cfg_name, leaf_iterated, make_converter, reply_canon, reply_kind  # noqa: E402
from harness.realise import Unrepresentable  # noqa: E402

from cattrs import BaseConverter, Converter, UnstructureStrategy  # noqa: E402

F43_SIG = "c06-initfalse-emitted-by-baseconverter"
SEQ_TAGS = ("l", "t", "q")


# ------------------------------------------------------------------ the statement's vocabulary (implementation side)
def norm_seq(o):
    """the documented container difference: tuples and deques become lists (everywhere)"""
    t = o[0]
    if t in SEQ_TAGS:
        return ("l", [norm_seq(x) for x in o[1]])
    if t in ("S", "F"):
        return (t, [norm_seq(x) for x in o[1]])
    if t == "d":
        return ("d", [(norm_seq(k), norm_seq(v)) for k, v in o[1]])
    return o


def iter_items(o):
    t = o[0]
    if t in ("l", "t", "q", "S", "F"):
        return o[1]
    if t == "d":
        return [k for k, _ in o[1]]
    if t == "s":  # a str iterates over its characters, bytes over ints
        return [("s", ch) for ch in o[1]]
    if t == "y":
        return [("i", b) for b in bytes.fromhex(o[1])]
    return None


def lookup(o, name):
    for k, v in o[1]:
        if k[0] == "s" and k[1] == name:
            return v
    return None


def maps_at_cls(w, t, o) -> bool:
    """do the class positions of payload `o` (to be structured as `t`) hold mappings?  Walks the payload the way a
    structuring call would: collection items, mapping keys/values, Optional, wrappers, the values under the keys of
    the `init` fields of a class."""
    if t is None or isinstance(t, str):
        return True
    k = t[0]
    if k in ("enum", "lit"):
        return True
    if k in gen.SEQ_KINDS or k in gen.SET_KINDS:
        items = iter_items(o)
        return True if items is None else all(maps_at_cls(w, t[1], x) for x in items)
    if k == "tup":
        items = iter_items(o)
        return True if items is None else all(maps_at_cls(w, tt, x) for tt, x in zip(t[1], items))
    if k == "nt":
        # a NamedTuple position is a tuple position: the items are inspected like those of a heterogeneous tuple
        items = iter_items(o)
        return True if items is None else all(
            maps_at_cls(w, f["ty"], x) for f, x in zip(w["classes"][t[1]]["fields"], items))
    if k in gen.MAP_KINDS:
        if o[0] != "d":
            return True
        return all(maps_at_cls(w, t[1], a) and maps_at_cls(w, t[2], b) for a, b in o[1])
    if k == "opt":
        return True if o[0] == "N" else maps_at_cls(w, t[1], o)
    if k in ("new", "ann", "final", "alias"):
        return maps_at_cls(w, t[1], o)
    if k in ("cls", "td"):
        if o[0] != "d":
            return False
        for f in w["classes"][t[1]]["fields"]:
            if not f["init"] or f["ty"] is None:
                continue
            v = lookup(o, f["name"])
            if v is not None and not maps_at_cls(w, f["ty"], v):
                return False
        return True
    if k == "union":
        # a union position is a class position: None, or a mapping that suits every member it could be handed to
        if o[0] == "N":
            return True
        return o[0] == "d" and all(maps_at_cls(w, ("cls", m), o) for m in t[1])
    raise ValueError(t)


def inst_classes(o, acc=None):
    """classes of all instances inside a value (met by run-time class at Any positions)"""
    acc = set() if acc is None else acc
    t = o[0]
    if t == "I":
        acc.add(o[1])
        for _, v in o[2]:
            inst_classes(v, acc)
    elif t in ("l", "t", "q", "S", "F"):
        for e in o[1]:
            inst_classes(e, acc)
    elif t == "d":
        for k, v in o[1]:
            inst_classes(k, acc)
            inst_classes(v, acc)
    return acc


def inst_type(w, ci):
    return ("nt" if w["classes"][ci]["kind"] == "nt" else "cls", ci)


def union_creatable(S, u) -> bool:
    """can a structure hook for the union be obtained at all (C12: "for which a structure hook can be obtained without
    custom configuration")?  Decided on the implementation, once per union and world."""
    cache = S.__dict__.setdefault("_union_creatable", {})
    key = (tuple(u[1]), u[2])
    if key not in cache:
        try:
            Converter().get_structure_hook(S.R.ty(u))
            cache[key] = True
        except Exception:  # noqa: BLE001
            cache[key] = False
    return cache[key]


def common(w, ty, tup, x=None, S=None) -> bool:
    """is the type (and the class of every instance inside the value) supported by both converter classes?"""
    if S is not None:
        roots = [ty] + ([inst_type(w, ci) for ci in inst_classes(x)] if x is not None else [])
        for r in roots:
            for u in gen.reach_unions(w, r):
                if not union_creatable(S, u):
                    return False  # no hook can be obtained for a union the type reaches: not a supported type
    for g in (True, False):
        cfg = {"gen": g, "tuple": tup, "detailed": True}
        if not gen.supported(cfg, w, ty):
            return False
        if x is not None and not all(gen.supported(cfg, w, inst_type(w, ci)) for ci in inst_classes(x)):
            return False
    return True


def commonise_type(t):
    """value-preserving rewrite of a type into the common support where that is possible:
    Annotated[T, ..] -> alias of T, NewType over a non-primitive -> alias"""
    if t is None or isinstance(t, str):
        return t
    k = t[0]
    if k in ("enum", "lit", "cls", "td", "union", "nt"):
        return t
    if k == "tup":
        return ("tup", [commonise_type(x) for x in t[1]])
    if k in gen.MAP_KINDS:
        return (k, commonise_type(t[1]), commonise_type(t[2]))
    inner = commonise_type(t[1])
    if k == "ann" or (k == "new" and not (isinstance(inner, str) and inner in gen.PRIMS)):
        return ("alias", inner)
    return (k, inner)


def commonise_world(w):
    """most generated worlds are moved into the common support (the values of a type do not depend on the wrappers
    rewritten here); `typing.Self` (Converter-only) is respelled as a forward reference by name"""
    rewritten = {}          # NamedTuple class -> names of the fields whose type became `int`
    for ci, c in enumerate(w["classes"]):
        if c.get("recursive") == "self":
            c["recursive"] = "name"
        for f in c["fields"]:
            f["ty"] = commonise_type(f["ty"])
            if c["kind"] == "nt" and not (isinstance(f["ty"], str) and f["ty"] in gen.PRIMS):
                # a BaseConverter supports NamedTuples of primitive fields only (it has no NamedTuple unstructure hook)
                f["ty"] = "int"
                rewritten.setdefault(ci, set()).add(f["name"])
                if f["dflt"] is not None:
                    f["dflt"] = ("c", ("i", 0))
    if rewritten:
        # DEFAULTS of other classes were drawn before the rewrite: an instance of a rewritten NamedTuple inside a
        # default still holds values of the old field types
        def fix(o):
            t = o[0]
            if t == "I":
                fs = [(n, ("i", 0) if n in rewritten.get(o[1], ()) else fix(v)) for n, v in o[2]]
                return ("I", o[1], fs)
            if t in ("l", "t", "q", "S", "F"):
                return (t, [fix(x) for x in o[1]])
            if t == "d":
                return ("d", [(fix(k), fix(v)) for k, v in o[1]])
            if t == "D":
                return ("D", o[1], [(fix(k), fix(v)) for k, v in o[2]])
            return o
        for c in w["classes"]:
            for f in c["fields"]:
                if f["dflt"] is not None:
                    f["dflt"] = (f["dflt"][0], fix(f["dflt"][1]))
    return w


def my_worlds(chk, drv, n_worlds):
    """like streams.worlds; 3 worlds in 4 hold attrs classes / dataclasses only and are commonised"""
    # hierarchies: derived classes and classes with stringified annotations; twin_fields: two attributes of one type,
    # one of them with an attrs converter (the `prefer_attrib_converters` cases below need them to tell the attribute's
    # handler from the type's)
    # class_features: class-body syntax, explicit aliases, takes_self factories, eq=False, class-level kw_only, slots
    # dataclasses, ClassVar / InitVar pseudo-fields, hand-written __init__, validators / post-init checks
    G = gen.Gen(chk.rng, unions=True, nt=True, coercible=True, hierarchies=True, twin_fields=True, enum_lits=True,
                class_features=True)
    made = attempts = 0
    while made < n_worlds and attempts < n_worlds * 3:
        attempts += 1
        if chk.rng.random() < 0.75:
            w = commonise_world(G.world(kinds=("attrs", "dc")))
            chk.note("world:commonised")
        else:
            w = G.world()
            chk.note("world:raw")
        try:
            S = Session(drv, w)
        except Exception:  # noqa: BLE001
            chk.note("world-rejected-by-python")
            continue
        made += 1
        yield G, S, w


def hierarchy_values(chk, G, S, w):
    """worlds with derived classes: additional cases that use the BASE class first and then the class derived from it
    (the way a program would), so that what the first use leaves behind on the base is there when the subclass is met"""
    subs = [ci for ci, c in enumerate(w["classes"]) if c.get("base") is not None]
    chk.rng.shuffle(subs)
    for ci in subs[:2]:
        for k in (w["classes"][ci]["base"], ci):
            ty = ("cls", k) if chk.rng.random() < 0.7 else (chk.rng.choice(["list", "opt"]), ("cls", k))
            x0 = G.value(w, ty, 3, any_stable=False)
            try:
                xv, x = S.realise(x0)
            except Exception:  # noqa: BLE001
                chk.note("value-not-realisable")
                continue
            if gen.lookalike_hazard(x):
                chk.unmodelled += 1
                continue
            chk.note("hierarchy-case:" + ("base" if k != ci else "derived"))
            # the derived class is mostly met by the interpretive engine first (the base by either)
            yield ty, x, xv, (chk.rng.random() < 0.75 if k == ci else None)


def world_features(chk, w):
    for c in w["classes"]:
        for k, v in (c.get("features") or {}).items():
            chk.note("class-feature:" + k + ("=" + str(v) if k in ("syntax", "eq") else ""))
        for f in c["fields"]:
            if not f.get("inherited"):
                for k in ("explicit_alias", "takes_self", "validator"):
                    if f.get(k):
                        chk.note("class-feature:" + k)
        if c.get("base") is not None:
            chk.note("class:derived" + (":string-annotations" if c.get("strann") else ""))
        elif c.get("strann"):
            chk.note("class:string-annotations")
        if c.get("twin"):
            chk.note("class:same-typed-attributes-one-with-converter")


def has_idconv(w) -> bool:
    return any(f.get("idconv") for c in w["classes"] for f in c["fields"])


def outcome(r):
    """('ok', canonical text) | ('err',) | ('unrep',)"""
    if r[0] == "ok":
        return ("ok", terms.canon_sx(r[1]))
    return (r[0],)


# ------------------------------------------------------------------ F43, recognised narrowly
def same_modulo_initfalse(w, x, b, g):
    """Walk the value and the two outputs (dict strategy) in parallel.  Returns the number of `init=False` entries that
    BaseConverter's output has and Converter's lacks when that is the ONLY difference (after tuples/deques -> lists),
    None otherwise."""
    t = x[0]
    if t == "I" and w["classes"][x[1]]["kind"] == "nt":
        x = ("t", [v for _, v in x[2]])  # an instance of a NamedTuple class is unstructured to (or left as) a tuple
        t = "t"
    if t == "I":
        if b[0] != "d" or g[0] != "d":
            return None
        fields = w["classes"][x[1]]["fields"]
        bd = {k[1]: v for k, v in b[1] if k[0] == "s"}
        gd = {k[1]: v for k, v in g[1] if k[0] == "s"}
        if len(bd) != len(b[1]) or len(gd) != len(g[1]):
            return None
        n = 0
        for f, (_, v) in zip(fields, x[2]):
            name = f["name"]
            if not f["init"]:
                if name not in bd or name in gd:
                    return None
                n += 1
                continue
            if name not in bd or name not in gd:
                return None
            r = same_modulo_initfalse(w, v, bd[name], gd[name])
            if r is None:
                return None
            n += r
        if len(bd) != len(fields) or len(gd) != sum(1 for f in fields if f["init"]):
            return None
        return n
    if t in SEQ_TAGS:
        if b[0] not in SEQ_TAGS or g[0] not in SEQ_TAGS or not (len(b[1]) == len(g[1]) == len(x[1])):
            return None
        n = 0
        for v, bb, gg in zip(x[1], b[1], g[1]):
            r = same_modulo_initfalse(w, v, bb, gg)
            if r is None:
                return None
            n += r
        return n
    if t == "d":
        if b[0] != "d" or g[0] != "d" or not (len(b[1]) == len(g[1]) == len(x[1])):
            return None
        n = 0
        for (_, v), (kb, vb), (kg, vg) in zip(x[1], b[1], g[1]):
            if terms.canon_sx(norm_seq(kb)) != terms.canon_sx(norm_seq(kg)):
                return None
            r = same_modulo_initfalse(w, v, vb, vg)
            if r is None:
                return None
            n += r
        return n
    return 0 if terms.canon_sx(norm_seq(b)) == terms.canon_sx(norm_seq(g)) else None


@framework.finding(F43_SIG)
def _f43(case) -> bool:
    """F43: dict strategy, unstructuring; the outputs differ exactly by the `init=False` entries BaseConverter emits."""
    if not isinstance(case, dict) or case.get("op") != "un" or case.get("tuple"):
        return False
    try:
        c = terms.case_from_json(case)
        b, g = terms.tuple_ify(case["out_base"]), terms.tuple_ify(case["out_conv"])
        n = same_modulo_initfalse(c["world"], c["x"], b, g)
    except Exception:  # noqa: BLE001
        return False
    return n is not None and n > 0


# ------------------------------------------------------------------ witnesses of the Lean side, replayed on the code
W1 = {"classes": [{"kind": "attrs", "frozen": False, "slots": True, "recursive": None, "fields": [
    {"name": "a", "alias": "a", "ty": "int", "dflt": ("c", ("i", 3)), "init": True, "required": True, "kw_only": False}]}],
    "enums": []}
W2 = {"classes": [{"kind": "attrs", "frozen": False, "slots": True, "recursive": None, "fields": [
    {"name": "a", "alias": "a", "ty": "int", "dflt": None, "init": True, "required": True, "kw_only": False},
    {"name": "b", "alias": "b", "ty": "int", "dflt": ("c", ("i", 5)), "init": False, "required": True, "kw_only": False}]}],
    "enums": []}
A1 = ("I", 0, [("a", ("i", 1)), ("b", ("i", 5))])


def make_pair(tup, detailed, pac=False):
    strat = UnstructureStrategy.AS_TUPLE if tup else UnstructureStrategy.AS_DICT
    kw = dict(unstruct_strat=strat, detailed_validation=detailed, prefer_attrib_converters=pac)
    return Converter(**kw), BaseConverter(**kw)


def replay_witnesses(chk, drv):
    """(1) the hypothesis "class positions hold mappings" cannot be dropped: C06_nonmapping_witness on the real code;
    (2) F43: C06_initfalse_witness on the real code (goes through chk.violation -> KNOWN-FINDING)."""
    S = Session(drv, W1)
    p = ("l", [])
    for detailed in (True, False):
        cG = {"gen": True, "tuple": False, "detailed": detailed, "forbid": False}
        cB = dict(cG, gen=False)
        rG, rB = S.impl_st(cG, ("cls", 0), p), S.impl_st(cB, ("cls", 0), p)
        if outcome(rG) == ("ok", '(I 0 ("a" (i 3)))') and outcome(rB) == ("err",):
            chk.note("witness:nonmapping-reproduced")
        else:
            chk.note("witness:nonmapping-STALE")
            print(f"NOTE C06: the non-mapping witness no longer reproduces (Converter={outcome(rG)}, BaseConverter={outcome(rB)}): "
                  "the hypothesis `mapsAtCls` may have become unnecessary")
        for cfg, ri in ((cG, rG), (cB, rB)):
            rm = S.model_st(cfg, ("cls", 0), p)
            om = ("ok", reply_canon(rm)) if reply_kind(rm) == "ok" else ("err",)
            if om != outcome(ri):
                chk.violation(f"correspondence corr:C06:ST broken on the non-mapping witness: impl={outcome(ri)} model={rm} [{cfg_name(cfg)}]",
                              {"world": W1, "cfg": cfg, "ty": ("cls", 0), "payload": p, "op": "st", "tuple": False,
                               "detailed": detailed, "pac": False}, found_input=False)
    S = Session(drv, W2)
    cG = {"gen": True, "tuple": False, "detailed": True, "forbid": False}
    cB = dict(cG, gen=False)
    uG, uB = S.impl_un(cG, ("cls", 0), A1), S.impl_un(cB, ("cls", 0), A1)
    if (uG[0] == "ok" and uB[0] == "ok" and terms.canon_sx(uG[1]) == '(d ((s "a") (i 1)))'
            and terms.canon_sx(uB[1]) == '(d ((s "a") (i 1)) ((s "b") (i 5)))'):
        chk.note("witness:F43-reproduced")
        chk.violation("C06 oracle: unstructured data differ (F43 witness: A(1) with b=field(default=5, init=False))",
                      {"world": W2, "ty": ("cls", 0), "x": A1, "op": "un", "tuple": False, "out_base": uB[1], "out_conv": uG[1]})
    else:
        chk.note("witness:F43-STALE")
        print("NOTE C06: the F43 witness no longer reproduces (known_findings entry F43 is stale): "
              f"Converter={uG[1] if uG[0] == 'ok' else uG[0]} BaseConverter={uB[1] if uB[0] == 'ok' else uB[0]}")


def run(chk: framework.Check):
    if os.environ.get("VERIF_C06_F43") and not any(f.get("signature") == F43_SIG for f in chk.known):
        chk.known.append({"id": "F43", "property": "C06", "kind": "finding", "signature": F43_SIG,
                          "what": "dict strategy: BaseConverter emits init=False fields, Converter leaves them out (entry assumed via VERIF_C06_F43)"})
    drv = lean.Driver()
    replay_witnesses(chk, drv)
    n_worlds = 900 if chk.tier == "quick" else 9000
    corr_fail = []
    scope_fail = []
    for G, S, w in my_worlds(chk, drv, n_worlds):
        idc = has_idconv(w)
        pairs = {}

        def pair(tup, detailed, pac):
            k = (tup, detailed, pac)
            if k not in pairs:
                pairs[k] = make_pair(tup, detailed, pac)
            return pairs[k]

        world_features(chk, w)
        import itertools
        for ty, x, xv, first in itertools.chain(
                hierarchy_values(chk, G, S, w),
                ((a, b, c, None) for a, b, c in streams.typed_values(chk, G, S, w, n_types=4, n_values=1, any_stable=False))):
            ty = commonise_type(ty) if chk.rng.random() < 0.75 else ty
            # which converter class meets the type (and its classes) FIRST: what one engine leaves behind on a class
            # (resolved annotations, ...) must not change what the other does with it
            base_first = chk.rng.random() < 0.5 if first is None else first
            chk.note("first-engine:" + ("BaseConverter" if base_first else "Converter"))
            for tup in (False, True):
                if not common(w, ty, tup, x, S):
                    chk.note("outside-common-support")
                    continue
                sname = "tuple" if tup else "dict"
                tyk = ty if isinstance(ty, str) else ty[0]
                cG = {"gen": True, "tuple": tup, "detailed": True, "forbid": False}
                cB = dict(cG, gen=False)
                # ================================================= unstructuring
                convG, convB = pair(tup, True, False)
                if base_first:
                    uB = S.impl_un(cB, ty, x, conv=convB, x=xv)
                    uG = S.impl_un(cG, ty, x, conv=convG, x=xv)
                else:
                    uG = S.impl_un(cG, ty, x, conv=convG, x=xv)
                    uB = S.impl_un(cB, ty, x, conv=convB, x=xv)
                ucase = {"world": w, "ty": ty, "x": x, "op": "un", "tuple": tup}
                chk.count("un/" + sname + terms.ty_sx(ty) + terms.canon_sx(x), nontrivial=not isinstance(ty, str),
                          sample={"op": "unstructure", "strategy": sname, "type": terms.ty_sx(ty), "value": terms.canon_sx(x),
                                  "Converter": outcome(uG), "BaseConverter": outcome(uB)})
                chk.note("un:strategy:" + sname, "ty:" + tyk)
                if gen.has_enum_lit(w, ty):
                    chk.note("literal-with-enum-members-reachable:" + sname)
                if gen.reach_unions(w, ty):
                    chk.note("union-reachable:" + sname)
                sc = drv.ask("C06USCOPE %s %s %s" % (terms.cfg_sx(cG), terms.ty_sx(ty), terms.obj_sx(x)))
                in_scope = sc.startswith("(1 1 1 1 ")
                chk.note("un:theorem-hypotheses-hold" if in_scope else "un:outside-theorem-hypotheses:" + sc[:9] + ")")
                if in_scope and not sc.endswith(" 1)"):
                    chk.violation("model contradicts theorem C06_unstruct_agree_partial (driver/model out of sync): " + sc,
                                  ucase, found_input=False)
                if uG[0] == "ok" and uB[0] == "ok":
                    if terms.canon_sx(norm_seq(uG[1])) != terms.canon_sx(norm_seq(uB[1])):
                        chk.violation(
                            f"C06 oracle: unstructured data differ beyond tuples/deques->lists: Converter={terms.canon_sx(uG[1])} "
                            f"BaseConverter={terms.canon_sx(uB[1])} [{sname} {terms.ty_sx(ty)} {terms.canon_sx(x)}]",
                            dict(ucase, out_base=uB[1], out_conv=uG[1]))
                elif uG[0] != uB[0] or uG[0] == "unrep":
                    chk.violation(
                        f"C06 oracle: unstructure outcome differs: Converter={uG[0]}:{repr(uG[1])[:120]} BaseConverter={uB[0]}:{repr(uB[1])[:120]} "
                        f"[{sname} {terms.ty_sx(ty)} {terms.canon_sx(x)}]", ucase)
                else:
                    chk.note("un:both-raise")
                for cfg, ri in ((cG, uG), (cB, uB)):
                    if cfg["gen"] and not cfg["tuple"] and gen.tuple_on_cycle(w, set(gen.type_classes(ty))):
                        chk.note("un:recursive-class-through-hetero-tuple(region of F60: model not compared)")
                        continue
                    rm = S.model_un(cfg, ty, x)
                    km = reply_kind(rm)
                    if km == "unmodelled":
                        chk.unmodelled += 1
                    elif ri[0] != "ok" or km != "ok" or terms.canon_sx(ri[1]) != reply_canon(rm):
                        corr_fail.append(("UN", dict(ucase, cfg=cfg), outcome(ri), rm))
                if uG[0] != "ok":
                    continue
                # ================================================= structuring
                for kind, p, pv in streams.payloads(chk, G, S, w, uG[1]):
                    maps = maps_at_cls(w, ty, p)
                    sc = drv.ask("C06SCOPE %s %s %s" % (terms.cfg_sx(cG), terms.ty_sx(ty), terms.obj_sx(p)))
                    # (both walkers iterate str/bytes payloads at collection positions into characters / ints.  ST follows
                    # only the member a union hook picks, the hypothesis looks at every member, so below a union only the
                    # direction "Python holds, Lean does not" is compared)
                    if (not tup and sc[3:4] != ("1" if maps else "0")
                            and (maps or not gen.reach_unions(w, ty))
                            and reply_kind(S.model_st(dict(cG, detailed=False), ty, p)) != "unmodelled"):
                        scope_fail.append((sc, {"world": w, "ty": ty, "payload": p, "op": "scope", "tuple": tup}))
                    applies = tup or maps
                    chk.note("st:theorem-hypotheses-hold" if in_model_scope(sc) else
                             ("st:outside-theorem-hypotheses:world-or-type-support" if sc.startswith("(0") else "st:outside-theorem-hypotheses:mapsAtCls"))
                    chk.note("st:payload:" + kind, "st:strategy:" + sname,
                             "st:class-positions-hold-mappings" if applies else "st:outside-hypothesis(non-mapping at class position)")
                    for detailed in (True, False):
                        for pac in ((False, True) if idc else (False,)):
                            convG, convB = pair(tup, detailed, pac)
                            cg = dict(cG, detailed=detailed)
                            cb = dict(cB, detailed=detailed)
                            if base_first:
                                rB = S.impl_st(cb, ty, p, conv=convB, payload=pv)
                                rG = S.impl_st(cg, ty, p, conv=convG, payload=pv)
                            else:
                                rG = S.impl_st(cg, ty, p, conv=convG, payload=pv)
                                rB = S.impl_st(cb, ty, p, conv=convB, payload=pv)
                            oG, oB = outcome(rG), outcome(rB)
                            case = {"world": w, "ty": ty, "payload": p, "op": "st", "tuple": tup, "detailed": detailed, "pac": pac}
                            chk.count("st/%s/%d%d" % (sname, detailed, pac) + terms.ty_sx(ty) + terms.canon_sx(p),
                                      nontrivial=applies and not isinstance(ty, str),
                                      sample={"op": "structure", "strategy": sname, "detailed": detailed, "type": terms.ty_sx(ty),
                                              "payload": terms.canon_sx(p), "Converter": oG[0], "BaseConverter": oB[0]})
                            chk.note("st:outcome:" + oG[0], "st:pac" if pac else "st:nopac")
                            if applies and oG != oB:
                                chk.violation(
                                    f"C06 oracle: engines disagree: Converter={oG} BaseConverter={oB} "
                                    f"[{sname}/{'detailed' if detailed else 'fast'}{'/pac' if pac else ''} {terms.ty_sx(ty)} {terms.canon_sx(p)}]",
                                    case)
                                continue
                            if pac:
                                continue  # attrs field converters are not part of the data-path model
                            if in_model_scope(sc) and applies and not sc.endswith(" 1)"):
                                chk.violation("model contradicts theorem C06_struct_agree (driver/model out of sync): " + sc,
                                              case, found_input=False)
                            for cfg, oi in ((cg, oG), (cb, oB)):
                                if oi[0] == "unrep":
                                    continue
                                rm = S.model_st(cfg, ty, p)
                                km = reply_kind(rm)
                                if leaf_iterated(w, cfg, ty, p):
                                    # a str / bytes payload at an iterating position (iterated into characters / ints)
                                    chk.note("st:str-bytes-iterated:" + ("unmodelled" if km == "unmodelled" else "compared:" + oi[0]))
                                if km == "unmodelled":
                                    chk.unmodelled += 1
                                    continue
                                om = ("ok", reply_canon(rm)) if km == "ok" else ("err",)
                                if oi != om:
                                    corr_fail.append(("ST", dict(case, cfg=cfg), oi, rm))
    for sc, case in scope_fail[:3]:
        chk.violation("C06 scope evaluators disagree (Python walker maps_at_cls vs Lean mapsAtCls): model says " + sc
                      + f" [{terms.ty_sx(case['ty'])} {terms.canon_sx(case['payload'])}]", case, found_input=False)
    for op, case, oi, rm in corr_fail[:5]:
        # the oracle was evaluated on every one of these inputs above: no input violating the property was found
        what = case.get("payload", case.get("x"))
        chk.violation(
            f"correspondence corr:C06:{op} broken (theorems C06_* no longer tied to the code): impl={oi} model={rm[:300]} "
            f"[{cfg_name(case['cfg'])} {terms.ty_sx(case['ty'])} {terms.canon_sx(what)}]", case, found_input=False)
    chk.extra["rule"] = ("random worlds x types in the common support x {valid, mutated, junk} payloads x {dict, tuple} x "
                         "{detailed, fast} (x prefer_attrib_converters on worlds with field converters), each structured by a "
                         "Converter and a BaseConverter; plus unstructure of every value on both; non-trivial = non-leaf type "
                         "and (for structuring) the statement's hypothesis on the payload holds; distinct by canonical text")
    # implementation-only extended stream (unions by tag / unique fields, NamedTuples, registry hooks)
    from harness import ext
    ext.run_c06(chk, 150 if chk.tier == "quick" else 1500)
    # implementation-only: non-identity attrs field converters over containers of / wrappers around classes without a hook
    ext.run_c06_fieldconv(chk, 200 if chk.tier == "quick" else 2000)
    # implementation-only: Literal[...] over members of mix-in enums, position-wise equal literals in one process
    ext.run_enum_literals(chk, 25 if chk.tier == "quick" else 250, "C06")
    drv.close()


def in_model_scope(sc: str) -> bool:
    return sc.startswith("(1 1 ")


def replay(case):
    drv = lean.Driver()
    case = terms.case_from_json(case)
    S = Session(drv, case["world"])
    tup = bool(case.get("tuple"))
    ty = case["ty"]
    print("type   :", terms.ty_sx(ty), " strategy:", "tuple" if tup else "dict")
    if case.get("op") == "un":
        cG = {"gen": True, "tuple": tup, "detailed": True, "forbid": False}
        cB = dict(cG, gen=False)
        x = case["x"]
        uG, uB = S.impl_un(cG, ty, x), S.impl_un(cB, ty, x)
        print("value        :", terms.canon_sx(x))
        print("Converter    :", terms.canon_sx(uG[1]) if uG[0] == "ok" else repr(uG[1]))
        print("BaseConverter:", terms.canon_sx(uB[1]) if uB[0] == "ok" else repr(uB[1]))
        print("model Converter    :", S.model_un(cG, ty, x))
        print("model BaseConverter:", S.model_un(cB, ty, x))
        if uG[0] == "ok" and uB[0] == "ok":
            return 1 if terms.canon_sx(norm_seq(uG[1])) != terms.canon_sx(norm_seq(uB[1])) else 0
        return 1 if uG[0] != uB[0] else 0
    p = case["payload"]
    detailed, pac = bool(case.get("detailed")), bool(case.get("pac"))
    convG, convB = make_pair(tup, detailed, pac)
    cg = {"gen": True, "tuple": tup, "detailed": detailed, "forbid": False}
    cb = dict(cg, gen=False)
    rG, rB = S.impl_st(cg, ty, p, conv=convG), S.impl_st(cb, ty, p, conv=convB)
    print("payload      :", terms.canon_sx(p), " class positions hold mappings:", maps_at_cls(case["world"], ty, p))
    print("Converter    :", outcome(rG), repr(rG[1])[:300] if rG[0] == "err" else "")
    print("BaseConverter:", outcome(rB), repr(rB[1])[:300] if rB[0] == "err" else "")
    print("model Converter    :", S.model_st(cg, ty, p))
    print("model BaseConverter:", S.model_st(cb, ty, p))
    print("model scope (support, mapsAtCls, agree):", drv.ask("C06SCOPE %s %s %s" % (terms.cfg_sx(cg), terms.ty_sx(ty), terms.obj_sx(p))))
    return 1 if (tup or maps_at_cls(case["world"], ty, p)) and outcome(rG) != outcome(rB) else 0


if __name__ == "__main__":
    if os.environ.get("PYTHONHASHSEED") is None:
        # set iteration order (str hashing) reaches the generated payloads: pin it to the seed so that a run is
        # reproducible from VERIF_SEED alone
        os.environ["PYTHONHASHSEED"] = str(int(os.environ.get("VERIF_SEED", "0")) % 1000003)
        os.execv(sys.executable, [sys.executable, "-m", "harness.props.c06"] + sys.argv[1:])
    framework.main(run, "C06")
