"""C09 — customised hooks round-trip: rename, omit, omit_if_default, aliases, init=False, custom field hooks,
converter-wide omit_if_default / type_overrides; hook generation never fails.

Cases: class tables (attrs / dataclass / TypedDict / NamedTuple: every mix and order of required, default,
factory, kw_only, init=False, private / aliased attributes) x customisations (per-hook override maps + flags, or
one `Converter(omit_if_default=, type_overrides=)`) x instances.  Key alphabets contain quotes, backslashes,
line breaks, braces, keywords, the empty string, other attributes' names and aliases.

Oracle (implementation only, from the property statement), on *consistent* customisations:
  keys      : the unstructure hook emits exactly the configured key set (renamed keys, omitted attributes absent,
              default-valued attributes absent exactly when omit_if_default applies);
  round trip: the structure hook generated with the same customisation rebuilds an instance that agrees with the
              original on every included attribute (at every nesting level);
  generation: building the hooks never raises (judged on every customisation, consistent or not);
  quoting   : `repr(key)` is a literal that evaluates back to the key.
Known findings F24 (TypedDict rename onto a declared name) and F25 (frozen class + include_init_false) are
recognised narrowly by the predicates below and replayed on their witnesses on every run.
Correspondence: outputs of the real hooks (dict with key order | instance | error) == model `hun` / `hst`
(ops HOOKUN / HOOKST), the emitted key list == the model's specification `expectedKeys` (HOOKKEYS),
`repr(key)` == `pyQuote key` (QUOTE); the generator's notion of "consistent" is cross-checked against the
theorems' hypotheses `ConsistentCls` / `ConsistentTD` (CONSISTENT); wherever the hypotheses of the nested theorems
(`gconf`, op HOOKCONF) hold the real round trip must succeed, and the fraction of cases inside is recorded.
"""
from __future__ import annotations

import ast
import dataclasses

from harness import framework, gen, lean, terms
from harness import hookgen as H

import attrs  # noqa: E402
from cattrs.errors import ClassValidationError, IterableValidationError  # noqa: E402

UNJUDGED = "unjudged-customisation"


# ------------------------------------------------------------------------------------------------ recorded regions

def in_f24(c, hc) -> bool:
    """TypedDict hooks where a rename target is the original name of a declared key (possibly its own)"""
    if c["kind"] != "td":
        return False
    names = {f["name"] for f in c["fields"]}
    return any(H.ov_of(hc, f)["rename"] in names and not H.ov_of(hc, f)["omit"] for f in c["fields"])


def in_f25(c, hc) -> bool:
    """frozen attrs class / dataclass whose hooks handle an init=False attribute"""
    if c["kind"] not in ("attrs", "dc") or not c["frozen"]:
        return False
    return any(not f["init"] and H.is_included(c["kind"], hc, f) for f in c["fields"])


def reach(g, ci, seen=None):
    seen = set() if seen is None else seen
    if ci in seen:
        return seen
    seen.add(ci)
    for f in g["classes"][ci]["fields"]:
        if f["ty"] is not None:
            for cj in gen.type_classes(f["ty"]):
                reach(g, cj, seen)
    return seen


def leaf_excs(exc):
    if isinstance(exc, (ClassValidationError, IterableValidationError)):
        out = []
        for e in exc.exceptions:
            out += leaf_excs(e)
        return out
    return [exc]


def is_frozen_error(e) -> bool:
    return isinstance(e, (attrs.exceptions.FrozenInstanceError, dataclasses.FrozenInstanceError))


@framework.finding("td-rename-onto-original-name")
def f24_pred(case) -> bool:
    """a TypedDict in the F24 region is involved and the failure is a lost / overwritten key: wrong key set of that
    TypedDict's own hook, a round trip that differs, or a structure hook that misses a key"""
    if not isinstance(case, dict) or not case.get("f24_classes"):
        return False
    if case.get("check") == "keys":
        return case.get("class") in case["f24_classes"]
    if case.get("check") == "roundtrip":
        return case.get("deviation") == "differs" or (
            case.get("deviation") == "structure-raised" and case.get("leaf_errors") == ["KeyError"])
    return False


@framework.finding("frozen-include-init-false")
def f25_pred(case) -> bool:
    """a frozen class whose hooks handle an init=False attribute is involved and the structure hook raised
    nothing but FrozenInstanceError"""
    return (isinstance(case, dict) and bool(case.get("f25_classes")) and case.get("check") == "roundtrip"
            and case.get("deviation") == "structure-raised" and case.get("leaf_errors") == ["FrozenInstanceError"])


# ------------------------------------------------------------------------------------------------ oracle

def strip_wraps(ty):
    while ty is not None and not isinstance(ty, str) and ty[0] in ("new", "ann", "final", "alias"):
        ty = ty[1]
    return ty


def agree(g, ty, xv, yv) -> bool:
    """`yv` equals `xv` on every included attribute, at every level (Python `==` on everything else)"""
    ty = strip_wraps(ty)
    if ty is None or isinstance(ty, str):
        return xv == yv
    k = ty[0]
    if k == "opt":
        if xv is None or yv is None:
            return xv is None and yv is None
        return agree(g, ty[1], xv, yv)
    if k in ("list", "seq", "mseq", "tup*", "deque"):
        try:
            return len(xv) == len(yv) and all(agree(g, ty[1], a, b) for a, b in zip(xv, yv))
        except TypeError:
            return False
    if k in ("cls", "td"):
        c = g["classes"][ty[1]]
        hc = H.eff_hc(g, ty[1])
        for f in c["fields"]:
            if not H.is_included(c["kind"], hc, f):
                continue
            n = f["name"]
            sub = None if H.ov_of(hc, f)["sh"] is not None else f["ty"]
            if c["kind"] == "td":
                if not isinstance(yv, dict) or (n in xv) != (n in yv):
                    return False
                if n in xv and not agree(g, sub, xv[n], yv[n]):
                    return False
            else:
                if yv.__class__ is not xv.__class__:
                    return False
                try:
                    if not agree(g, sub, getattr(xv, n), getattr(yv, n)):
                        return False
                except AttributeError:
                    return False
        return True
    return xv == yv


def expected_key_set(S, g, ci, xv):
    """the configured key set of the hook of class ci for instance xv (from the property statement)"""
    c = g["classes"][ci]
    hc = H.eff_hc(g, ci)
    out = []
    for f in c["fields"]:
        if not H.is_included(c["kind"], hc, f):
            continue
        if c["kind"] == "td":
            if f["name"] in xv:
                out.append(H.final_key(c["kind"], hc, f))
            continue
        if H.oid_applies(c["kind"], hc, f) and getattr(xv, f["name"]) == S.R.val(f["dflt"][1]):
            continue
        out.append(H.final_key(c["kind"], hc, f))
    return out


def judge(S, g, ci, ty, xv, ru, rs):
    """-> list of (what, facts)"""
    bad = []
    if ru[0] == "err":
        return [("the unstructure hook raised " + repr(ru[1])[:200], {"check": "keys", "deviation": "unstructure-raised"})]
    u = ru[-1]
    exp = expected_key_set(S, g, ci, xv)
    if not isinstance(u, dict) or sorted(map(repr, u.keys())) != sorted(map(repr, exp)) or len(set(exp)) != len(exp):
        bad.append((f"emitted keys {list(u.keys()) if isinstance(u, dict) else u!r} != configured key set {exp}",
                    {"check": "keys", "deviation": "keys"}))
    if rs is None:
        return bad
    if rs[0] == "err":
        leaves = sorted({e.__class__.__name__ if not is_frozen_error(e) else "FrozenInstanceError" for e in leaf_excs(rs[1])})
        bad.append(("the structure hook rejects the output of the unstructure hook: " + repr(rs[1])[:200],
                    {"check": "roundtrip", "deviation": "structure-raised", "leaf_errors": leaves}))
    elif not agree(g, ty, xv, rs[-1]):
        bad.append((f"round trip differs on an included attribute: {xv!r} -> {u!r} -> {rs[-1]!r}"[:400],
                    {"check": "roundtrip", "deviation": "differs"}))
    return bad


# ------------------------------------------------------------------------------------------------ main loop

def vary_init_false(HG, g, x):
    """give init=False attributes of the top-level instance a value of their own (they may be included)"""
    if x[0] != "I":
        return x
    c = g["classes"][x[1]]
    fs = []
    for f, (n, v) in zip(c["fields"], x[2]):
        if not f["init"] and f["ty"] is not None and HG.rng.random() < 0.6:
            v = HG.G.value(g, f["ty"], 2, any_stable=True)
        fs.append((n, v))
    return ("I", x[1], fs)


FALSY_ANY = [("N",), ("i", 0), ("s", ""), ("b", False), ("f", 0), ("l", []), ("d", [])]


def vary_falsy(chk, HG, g, x):
    """attributes whose default is an empty builtin collection built by the builtin itself: let them hold, now and then,
    a conforming value that is FALSY WITHOUT BEING THE DEFAULT (None under Optional, 0 / "" / False / an empty collection of
    another class under Any or no annotation) -- `omit_if_default` is about `==` to the default, not about truthiness"""
    if x[0] != "I":
        return x
    c = g["classes"][x[1]]
    fs = []
    for f, (n, v) in zip(c["fields"], x[2]):
        if H.empty_factory(f["dflt"]) is not None and HG.rng.random() < 0.45:
            t = strip_wraps(f["ty"])
            if t is None or t == "any":
                v = HG.rng.choice([u for u in FALSY_ANY if u[0] != f["dflt"][1][0]])
            elif t[0] == "opt":
                v = ("N",)
            chk.note("falsy-but-not-default value under an empty-collection factory" if v != f["dflt"][1] else
                     "value == empty-collection factory default")
        fs.append((n, v))
    return ("I", x[1], fs)


def check_quotes(chk, drv, g, corr_fail):
    for ci, c in enumerate(g["classes"]):
        hc = H.eff_hc(g, ci)
        for f in c["fields"]:
            for k in (H.final_key(c["kind"], hc, f), f["name"]):
                try:
                    ok = ast.literal_eval(repr(k)) == k
                except Exception:  # noqa: BLE001
                    ok = False
                if not ok:
                    chk.violation(f"C09 oracle: repr({k!r}) is not a literal of that key", {"check": "quote", "key": k})
                r = drv.ask("QUOTE " + terms.esc(k))
                if r == "unmodelled":
                    continue
                chk.note("quote-compared")
                p = terms.parse_sx(r)
                if p[1][1] != repr(k):
                    corr_fail.append(({"check": "quote", "key": k, "stream": "quote"}, repr(k), p[1][1]))


def one_world(chk, drv, HG, g, stream, corr_fail, n_inst, only_last=False):
    rng = chk.rng
    try:
        S = H.HookSession(drv, g)
    except Exception:  # noqa: BLE001  python itself rejected the classes
        chk.note("world-rejected-by-python")
        return
    if S.gen_error is not None:
        chk.violation("C09 oracle: hook generation failed: " + repr(S.gen_error)[:300] + " [" + H.gworld_sx(g)[:600] + "]",
                      {"check": "generation", "stream": stream, "gworld": g})
        return
    check_quotes(chk, drv, g, corr_fail)
    for ci, c in enumerate(g["classes"]):
        if only_last and ci != len(g["classes"]) - 1:
            continue
        ty = ("td" if c["kind"] == "td" else "cls", ci)
        hc = H.eff_hc(g, ci)
        rc = sorted(reach(g, ci))
        f24 = [cj for cj in rc if in_f24(g["classes"][cj], H.eff_hc(g, cj))]
        f25 = [cj for cj in rc if in_f25(g["classes"][cj], H.eff_hc(g, cj))]
        judged = stream != UNJUDGED
        if judged:
            # scope: what the generator calls consistent (outside the recorded regions) must satisfy the theorems' hypotheses
            mc = S.model_consistent(ci)
            clean = not in_f24(c, hc) and not in_f25(c, hc)
            chk.note("scope:" + ("in" if mc == "1" else "out") + ("" if clean else "(recorded-region)"))
            if clean and mc != "1":
                corr_fail.append(({"check": "scope", "stream": stream, "gworld": g, "class": ci}, "consistent", "model says " + mc))
        for _ in range(n_inst):
            x0 = vary_falsy(chk, HG, g, vary_init_false(HG, g, HG.instance(g, ci)))
            try:
                xv = S.R.val(x0)
                x = S.R.abs(xv)
            except Exception:  # noqa: BLE001
                chk.note("value-not-realisable")
                continue
            if gen.lookalike_hazard(x):
                chk.unmodelled += 1
                continue
            if c["kind"] == "td" and x[0] == "d":
                missing_required(chk, S, g, ci, ty, x, stream, corr_fail)
            ru = S.impl_un(ty, xv)
            rs = S.impl_st(ty, ru[-1]) if ru[0] in ("ok", "unrep") else None
            case = {"stream": stream, "gworld": g, "class": ci, "ty": ty, "x": x, "f24_classes": f24, "f25_classes": f25}
            ovs = hc["ovs"].values()
            chk.note("stream:" + stream, "kind:" + c["kind"], "mode:" + ("detailed" if g["detailed"] else "fast"),
                     "flags:" + "".join(t for t, b in (("A", hc["use_alias"]), ("I", hc["incl_init_false"]), ("O", hc["oid"]),
                                                        ("F", hc["forbid"])) if b),
                     "overrides:%d" % min(len(hc["ovs"]), 4))
            for o in ovs:
                for t, b in (("rename", o["rename"] is not None), ("omit", o["omit"] is True), ("omit=False", o["omit"] is False),
                             ("omit_if_default", o["oid"] is not None), ("hooks", o["sh"] is not None or o["uh"] is not None)):
                    if b:
                        chk.note("override:" + t)
            for f in c["fields"]:
                chk.note("attr:" + ("init=False" if not f["init"] else "kw_only" if f.get("kw_only") else
                                    "factory" if f["dflt"] and f["dflt"][0] == "fac" else "default" if f["dflt"] else "required")
                         + ("/aliased" if f["alias"] != f["name"] else ""))
            key = stream + H.gworld_sx(g) + terms.canon_sx(x)
            chk.count(key, nontrivial=bool(hc["ovs"]) or hc["use_alias"] or hc["incl_init_false"] or hc["oid"],
                      sample={"stream": stream, "kind": c["kind"], "instance": terms.canon_sx(x)[:200],
                              "output": terms.canon_sx(ru[1])[:200] if ru[0] == "ok" else ru[0]})
            # ---- oracle
            bad = judge(S, g, ci, ty, xv, ru, rs) if judged else []
            for what, facts in bad:
                chk.violation("C09 oracle: " + what + f" [{stream} {c['kind']} class {ci} of {H.gworld_sx(g)[:500]}]",
                              dict(case, **facts))
            if bad:
                continue
            # ---- scope of the nested theorems: where the model says the hypotheses of C09_roundtrip_nested hold
            # (consistent table, value conforming at every depth), the real round trip must succeed
            rc = S.model_conf(ty, x)
            chk.note("nested-theorem-hypotheses:" + {"1": "hold", "0": "not-held"}.get(rc, rc))
            if rc == "1" and (rs is None or rs[0] == "err"):
                corr_fail.append((dict(case, op="HOOKCONF"), "round trip failed: " + (repr(rs[1])[:120] if rs else ru[0]),
                                  "gconf holds"))
                continue
            # ---- correspondence: unstructure (dict with key order), the key specification, structure
            a = H.impl_reply(S, ru)
            b = H.model_reply(S.model_un(ty, x))
            if b[0] == "unmodelled" or a[0] == "unrep":
                chk.unmodelled += 1
                continue
            if a[0] == "err":
                a = ("err",)       # an unstructure hook that raises has no further observable
            if b[0] == "err":
                b = ("err",)
            if a != b:
                corr_fail.append((dict(case, op="HOOKUN"), a, b))
                continue
            if c["kind"] != "td" and ru[0] == "ok":
                km = S.model_keys(ci, x)
                if km != "unmodelled":
                    spec = [t[1] for t in terms.parse_sx(km)[1:]]
                    got = [k[1] for k, _ in ru[1][1] if k[0] == "s"]
                    if judged and spec != got:
                        corr_fail.append((dict(case, op="HOOKKEYS"), got, spec))
                        continue
            if rs is not None and ru[0] == "ok":
                a = H.impl_reply(S, rs)
                b = H.model_reply(S.model_st(ty, ru[1]))
                if b[0] == "unmodelled" or a[0] == "unrep":
                    chk.unmodelled += 1
                    continue
                if a[0] == "err":
                    a = ("err",)   # which error is C10's / C05's observable; here: ok / err and the ok value
                if b[0] == "err":
                    b = ("err",)
                if a != b:
                    if a[0] == "ok" and b[0] == "ok" and (H.set_repr_hazard(a[1]) or H.set_repr_hazard(b[1])):
                        chk.unmodelled += 1
                        continue
                    if a[0] == "ok" and b[0] == "ok" and _set_order_hazard(ru[-1], a[1], b[1]):
                        # a set of the payload was iterated into an ordered container (a key renamed onto another key's
                        # name, F24 region): the element order is CPython's set iteration order, which is not modelled
                        chk.unmodelled += 1
                        chk.note("unmodelled:set-iteration-order")
                        continue
                    corr_fail.append((dict(case, op="HOOKST"), a, b))


def _set_order_hazard(payload, a_txt, b_txt) -> bool:
    """impl and model differ only in the ORDER of elements of ordered containers, and the payload holds a set with at
    least two elements (whose iteration order is the only source of such a difference)"""
    parse_sx = terms.parse_sx

    def has_big_set(o):
        if isinstance(o, (set, frozenset)):
            return len(o) >= 2 or any(has_big_set(e) for e in o)
        if isinstance(o, dict):
            return any(has_big_set(k) or has_big_set(v) for k, v in o.items())
        if isinstance(o, (list, tuple)):
            return any(has_big_set(e) for e in o)
        return False

    def norm(p):
        if isinstance(p, list):
            items = [norm(x) for x in p]
            if items and items[0] in ("l", "t", "q"):
                return [items[0]] + sorted(items[1:], key=repr)
            return items
        return p

    try:
        return has_big_set(payload) and norm(parse_sx(a_txt)) == norm(parse_sx(b_txt))
    except Exception:  # noqa: BLE001
        return False


def missing_required(chk, S, g, ci, ty, x, stream, corr_fail):
    """outside the statement (the instance is not a value of the TypedDict): correspondence only.  The generated
    unstructure hook reads a required key without a guard -> KeyError, unless no line is emitted for the key (identity
    handler, no rename); the model says which (C09_td_keyerror)."""
    c = g["classes"][ci]
    req = [f["name"] for f in c["fields"] if f.get("required", True) and any(k == ("s", f["name"]) for k, _ in x[1])]
    if not req:
        return
    name = chk.rng.choice(req)
    x_bad = ("d", [(k, v) for k, v in x[1] if k != ("s", name)])
    try:
        xv = S.R.val(x_bad)
    except Exception:  # noqa: BLE001
        return
    ru = S.impl_un(ty, xv)
    a = H.impl_reply(S, ru)
    b = H.model_reply(S.model_un(ty, x_bad))
    if b[0] == "unmodelled" or a[0] == "unrep":
        chk.unmodelled += 1
        return
    if a[0] == "err":
        a = ("err",) if isinstance(ru[1], KeyError) else ("err", type(ru[1]).__name__)
    if b[0] == "err":
        b = ("err",)
    chk.note("missing-required-key:" + ("KeyError" if a[0] == "err" else "unnoticed"))
    if a != b:
        corr_fail.append(({"stream": stream + "/missing-required-key", "gworld": g, "class": ci, "ty": ty, "x": x_bad, "op": "HOOKUN",
                           "f24_classes": [], "f25_classes": []}, a, b))


def fld(name, ty, dflt=None, init=True, required=True, alias=None):
    return {"name": name, "alias": alias or name, "ty": ty, "dflt": dflt, "init": init, "required": required, "kw_only": False}


def ovr(**kw):
    return dict(H.NEUTRAL, **kw)


def witnesses(chk, drv, HG, corr_fail):
    """the recorded findings' concrete inputs, replayed on the implementation on every run"""
    ws = []
    for detailed in (True, False):
        hc = dict(H.neutral_hc(), detailed=detailed)
        td = {"kind": "td", "frozen": False, "slots": False, "fields": [fld("a", "int"), fld("b", "int")]}
        ws.append(("F24", {"classes": [dict(td, hc=dict(hc, ovs={"a": ovr(rename="b"), "b": ovr(rename="c")}))],
                           "enums": [], "detailed": detailed, "conv": None},
                   ("d", [(("s", "a"), ("i", 1)), (("s", "b"), ("i", 2))])))
        ws.append(("F24", {"classes": [dict(td, hc=dict(hc, ovs={"a": ovr(rename="b"), "b": ovr(rename="a")}))],
                           "enums": [], "detailed": detailed, "conv": None},
                   ("d", [(("s", "a"), ("i", 1)), (("s", "b"), ("i", 2))])))
        ws.append(("F24", {"classes": [dict(td, hc=dict(hc, ovs={"a": ovr(rename="a")}))],
                           "enums": [], "detailed": detailed, "conv": None},
                   ("d", [(("s", "a"), ("i", 1)), (("s", "b"), ("i", 2))])))
        for kind in ("attrs", "dc"):
            fz = {"kind": kind, "frozen": True, "slots": True,
                  "fields": [fld("a", "int"), fld("b", "int", dflt=("c", ("i", 5)), init=False)]}
            ws.append(("F25", {"classes": [dict(fz, hc=dict(hc, incl_init_false=True))], "enums": [], "detailed": detailed,
                               "conv": None},
                       ("I", 0, [("a", ("i", 1)), ("b", ("i", 5))])))
    hits = {"F24": 0, "F25": 0}
    for fid, g, x in ws:
        S = H.HookSession(drv, g)
        if S.gen_error is not None:
            chk.violation("C09 oracle: hook generation failed on a witness: " + repr(S.gen_error)[:200], {"check": "generation", "gworld": g})
            continue
        c = g["classes"][0]
        ty = ("td" if c["kind"] == "td" else "cls", 0)
        xv = S.R.val(x)
        ru = S.impl_un(ty, xv)
        rs = S.impl_st(ty, ru[-1]) if ru[0] == "ok" else None
        hc = c["hc"]
        case = {"stream": "witness", "gworld": g, "class": 0, "ty": ty, "x": x,
                "f24_classes": [0] if in_f24(c, hc) else [], "f25_classes": [0] if in_f25(c, hc) else []}
        for what, facts in judge(S, g, 0, ty, xv, ru, rs):
            if not chk.violation("C09 oracle: " + what + f" [witness {fid}]", dict(case, **facts)):
                hits[fid] += 1
        # the model reproduces the witness too (the Lean negative witnesses state it)
        a, b = H.impl_reply(S, ru), H.model_reply(S.model_un(ty, x))
        if a != b:
            corr_fail.append((dict(case, op="HOOKUN"), a, b))
        elif rs is not None:
            a, b = H.impl_reply(S, rs), H.model_reply(S.model_st(ty, ru[1]))
            a = ("err",) if a[0] == "err" else a
            b = ("err",) if b[0] == "err" else b
            if a != b:
                corr_fail.append((dict(case, op="HOOKST"), a, b))
    chk.extra["witnesses_reproduced"] = hits
    for fid, n in hits.items():
        if n == 0 and any(f["id"] == fid for f in chk.known):
            print(f"NOTE C09: known finding {fid} no longer reproduces on its witnesses (stale entry?)")


def falsy_witnesses(chk, drv, HG, corr_fail):
    """the values of the Lean witness C09_truthiness_guard_witness (falsy, yet not `==` the empty-collection default), replayed
    on the implementation on every run: attrs class and dataclass, `factory=list` / `factory=dict` written as the builtin,
    omit_if_default per hook, per attribute and converter-wide, both templates.  Each must be emitted and restored."""
    n = 0
    for kind in ("attrs", "dc"):
        for dflt, others in ((("l", []), [("N",), ("i", 0), ("f", 0), ("b", False), ("s", ""), ("d", [])]),
                             (("d", []), [("N",), ("i", 0), ("b", False), ("s", ""), ("l", [])])):
            for route in ("hook-flag", "override", "converter"):
                for detailed in (True, False):
                    fields = [fld("t", "str"), fld("x", "any", dflt=("fac", dflt)),
                              fld("o", ("opt", ("list", "int")) if dflt[0] == "l" else ("opt", ("dict", "str", "int")), dflt=("fac", dflt))]
                    hc = dict(H.neutral_hc(), detailed=detailed)
                    conv = None
                    if route == "hook-flag":
                        hc["oid"] = True
                    elif route == "override":
                        hc["ovs"] = {"x": ovr(oid=True), "o": ovr(oid=True)}
                    else:
                        conv = {"oid": True, "forbid": False, "detailed": detailed, "tovs": []}
                    g = {"classes": [{"kind": kind, "frozen": False, "slots": True, "fields": fields, "hc": hc}], "enums": [],
                         "detailed": detailed, "conv": conv}
                    S = H.HookSession(drv, g)
                    if S.gen_error is not None:
                        chk.violation("C09 oracle: hook generation failed on a witness: " + repr(S.gen_error)[:200],
                                      {"check": "generation", "gworld": g})
                        continue
                    ty = ("cls", 0)
                    for v in others + [dflt]:
                        x = ("I", 0, [("t", ("s", "a")), ("x", v), ("o", ("N",) if v != dflt else dflt)])
                        xv = S.R.val(x)
                        ru = S.impl_un(ty, xv)
                        rs = S.impl_st(ty, ru[-1]) if ru[0] == "ok" else None
                        case = {"stream": "falsy-witness", "gworld": g, "class": 0, "ty": ty, "x": x, "f24_classes": [], "f25_classes": []}
                        n += 1
                        chk.count("falsy-witness" + H.gworld_sx(g) + terms.canon_sx(x), nontrivial=True)
                        chk.note("stream:falsy-witness")
                        for what, facts in judge(S, g, 0, ty, xv, ru, rs):
                            chk.violation("C09 oracle: " + what + f" [falsy-but-not-default witness, {kind}, {route}, "
                                          f"{'detailed' if detailed else 'fast'}]", dict(case, **facts))
                        a, b = H.impl_reply(S, ru), H.model_reply(S.model_un(ty, x))
                        if b[0] != "unmodelled" and a != b:
                            corr_fail.append((dict(case, op="HOOKUN"), a, b))
    chk.extra["falsy_witnesses_replayed"] = n


def probe_omitted_unstructurable(chk):
    """generation never fails (implementation only): a key / attribute that is omitted by `override(omit=True)` may have
    a type the converter has no structure hook for (a Callable, a plain class) -- that is what people omit.  Both
    templates must build the hooks, and must then agree on payloads (C09_genok's clause, on the code paths that look
    handlers up)."""
    import typing
    from typing import Callable
    from harness.realise import make_typeddict
    from cattrs.gen import make_dict_structure_fn, make_dict_unstructure_fn, override
    from cattrs.gen import typeddicts as td_gen
    from cattrs import Converter

    class Plain:  # no hook can be built for it
        pass

    rng = chk.rng
    bad_types = [("Callable", Callable[[int], int]), ("plain-class", Plain)]
    for kind in ("td", "attrs", "dc"):
        for bname, bad in bad_types:
            for _ in range(3):
                n_ok = rng.randint(0, 2)
                pos = rng.randint(0, n_ok)
                required = rng.random() < 0.5
                forbid = rng.random() < 0.5
                names = ["a", "b", "c"][:n_ok]
                order = names[:pos] + ["cb"] + names[pos:]
                outcomes = {}
                for detailed in (True, False):
                    conv = Converter(detailed_validation=detailed)
                    tag = f"{kind}/{bname}/pos{pos}/{'req' if required else 'opt'}/{'forbid' if forbid else 'plain'}/{'detailed' if detailed else 'fast'}"
                    try:
                        if kind == "td":
                            cl = make_typeddict("PO", [(n, bad if n == "cb" else int, required if n == "cb" else True) for n in order], 0)
                            u = td_gen.make_dict_unstructure_fn(cl, conv, cb=override(omit=True))
                            s_ = td_gen.make_dict_structure_fn(cl, conv, _cattrs_forbid_extra_keys=forbid,
                                                               _cattrs_detailed_validation=detailed, cb=override(omit=True))
                        else:
                            if kind == "attrs":
                                cl = attrs.make_class("PO", {n: (attrs.field(type=bad, default=None, kw_only=True) if n == "cb"
                                                                 else attrs.field(type=int, kw_only=True)) for n in order})
                            else:
                                cl = dataclasses.make_dataclass("PO", [((n, bad, dataclasses.field(default=None, kw_only=True)) if n == "cb"
                                                                        else (n, int, dataclasses.field(kw_only=True))) for n in order])
                            u = make_dict_unstructure_fn(cl, conv, cb=override(omit=True))
                            s_ = make_dict_structure_fn(cl, conv, _cattrs_forbid_extra_keys=forbid,
                                                        _cattrs_detailed_validation=detailed, cb=override(omit=True))
                    except Exception as e:  # noqa: BLE001
                        chk.violation(f"C09 oracle: hook generation failed for a class with an omitted key of an unstructurable type "
                                      f"[{tag}]: {e!r}"[:400], {"check": "generation", "stream": "omitted-unstructurable", "case": tag})
                        outcomes[detailed] = "generation-failed"
                        continue
                    payload = {n: i for i, n in enumerate(names)}
                    try:
                        v = s_(payload, cl)
                        outcomes[detailed] = ("ok", repr(v if kind == "td" else attrs.asdict(v) if kind == "attrs" else dataclasses.asdict(v)))
                    except Exception as e:  # noqa: BLE001
                        outcomes[detailed] = ("err", type(e).__name__)
                    chk.count("omitted-unstructurable:" + tag, nontrivial=True, sample={"stream": "omitted-unstructurable", "case": tag})
                    chk.note("stream:omitted-unstructurable", "omitted-unstructurable:" + kind + "/" + bname)
                if outcomes.get(True) != outcomes.get(False) and "generation-failed" not in outcomes.values():
                    chk.violation(f"C09 oracle: the two templates disagree on a class with an omitted key [{kind}/{bname}]: {outcomes}",
                                  {"check": "generation", "stream": "omitted-unstructurable", "case": f"{kind}/{bname}"})


def clean_world(HG, **kw):
    """a consistent world outside the recorded regions F24 / F25 (so that those cannot mask anything else)"""
    for _ in range(50):
        g = HG.gworld(**kw)
        if not any(in_f24(c, H.eff_hc(g, ci)) or in_f25(c, H.eff_hc(g, ci)) for ci, c in enumerate(g["classes"])):
            return g
    return g


def run(chk: framework.Check):
    HG = H.HGen(chk.rng, big=chk.tier != "quick")
    drv = lean.Driver()
    quick = chk.tier == "quick"
    corr_fail = []
    witnesses(chk, drv, HG, corr_fail)
    falsy_witnesses(chk, drv, HG, corr_fail)
    probe_omitted_unstructurable(chk)
    n_hook, n_conv, n_any, n_deep, n_reg = (260, 110, 120, 80, 40) if quick else (2600, 1100, 1200, 800, 400)
    for _ in range(n_hook):
        one_world(chk, drv, HG, clean_world(HG, want="consistent"), "per-hook", corr_fail, 3)
    for _ in range(n_conv):
        one_world(chk, drv, HG, clean_world(HG, want="consistent", conv_level=True), "converter", corr_fail, 3)
    for i in range(n_deep):
        g = clean_world(HG, n_classes=4, want="consistent", chain=True, conv_level=(i % 4 == 3))
        one_world(chk, drv, HG, g, "deep", corr_fail, 3, only_last=True)
    for _ in range(n_reg):
        # consistent customisations drawn without avoiding the recorded regions
        one_world(chk, drv, HG, HG.gworld(want="consistent"), "per-hook(regions allowed)", corr_fail, 2)
    for _ in range(n_any):
        one_world(chk, drv, HG, HG.gworld(want="any", forbid_p=0.3), UNJUDGED, corr_fail, 2)
    for case, a, b in corr_fail[:5]:
        chk.violation(
            "correspondence corr:C09:%s broken (theorems C09_* no longer tied to the code): impl=%s model=%s [%s]"
            % (case.get("op", case.get("check")), str(a)[:300], str(b)[:300], case.get("stream")),
            case, found_input=False)
    chk.extra["rule"] = ("class tables (attrs/dataclass/TypedDict/NamedTuple) x customisations x instances; non-trivial = some "
                         "override or flag is set; distinct by canonical text of (class table, customisation, instance)")
    chk.extra["correspondence_mismatches"] = len(corr_fail)
    drv.close()


def replay(case):
    drv = lean.Driver()
    if "gworld" not in case or case.get("check") in ("quote",):
        print(case)
        return 1
    g = H.gworld_from_json(case["gworld"])
    S = H.HookSession(drv, g)
    print("classes:", [(c["kind"], c["frozen"], [(f["name"], f["alias"], f["ty"], f["dflt"], f["init"]) for f in c["fields"]],
                        H.eff_hc(g, i)) for i, c in enumerate(g["classes"])])
    if S.gen_error is not None:
        print("hook generation failed:", repr(S.gen_error))
        return 1
    if "x" not in case:
        return 1
    ci, ty, x = case["class"], terms.tuple_ify(case["ty"]), terms.tuple_ify(case["x"])
    xv = S.R.val(x)
    ru = S.impl_un(ty, xv)
    rs = S.impl_st(ty, ru[-1]) if ru[0] in ("ok", "unrep") else None
    print("instance      :", xv)
    print("impl  un      :", ru[-1] if ru[0] != "err" else repr(ru[1]))
    print("model un      :", S.model_un(ty, x)[:600])
    print("expected keys :", expected_key_set(S, g, ci, xv))
    if rs is not None:
        print("impl  st(un x):", rs[-1] if rs[0] != "err" else repr(rs[1]))
        if ru[0] == "ok":
            print("model st(un x):", S.model_st(ty, ru[1])[:600])
    bad = judge(S, g, ci, ty, xv, ru, rs)
    print("oracle:", [w for w, _ in bad] or "holds")
    return 1 if bad else 0


if __name__ == "__main__":
    framework.main(run, "C09")
