"""C03 (part b) — `unstruct_collection_overrides` lattice and `dict_factory` of the converters.

`run_overrides(chk, drv)` is called from harness/props/c03.py.  Per case (a user override dict over the collection
ABCs / classes, a dict_factory, a strategy, 0-2 `copy()` steps):

  implementation observables   (a) `converter._unstruct_collection_overrides` after construction and after `copy()`;
                               (b)+(c) the output of `unstructure(v, unstructure_as=T)` for every declared collection
                               type (flat table) and for random nested types (collections in collections, classes at
                               every depth), reduced to a tree of container classes / tags;
  oracle (from docs/indepth.md "Customizing Collection Unstructuring" and the statement's defaults, independent of the
         model): the container of a declared type is the user's entry for the most specific documented supertype
         (`issubclass`) of its origin that has one, else list / tuple / set / frozenset / dict; class nodes are built by
         dict_factory (dict strategy) or are tuples;
  model  Lean op `OVR` (closed dict, its copy, container per declared type) and `DFACT`; the same tree is composed from
         the model's answers and compared with the implementation (correspondence corr:C03:OVR).
"""
from __future__ import annotations

import os
import random
import sys
import typing

sys.path.insert(0, os.environ.get("CATTRS_SRC", "/repo/src"))

from cattrs import BaseConverter, Converter, UnstructureStrategy  # noqa: E402

from harness import framework  # noqa: E402
from harness.props import c03_ovr_enc as E  # noqa: E402
from harness.props.c03_ovr_enc import KEEP  # noqa: E402

FACTORIES = {4: dict, 20: E.OrderedDict, 21: E.TagDict}
DEVIATIONS = {"F44": "override-not-propagated-to-dict-subclass",
              "F46": "converter-ignores-dict-factory"}


@framework.finding("override-not-propagated-to-dict-subclass")
def f44(case) -> bool:
    return isinstance(case, dict) and case.get("part") == "overrides" and (case.get("deviation") or [None])[0] == "F44"


@framework.finding("converter-ignores-dict-factory")
def f46(case) -> bool:
    return isinstance(case, dict) and case.get("part") == "overrides" and (case.get("deviation") or [None])[0] == "F46"


# ---------------------------------------------------------------- generation
def gen_user(rng):
    """-> entries [[key name, spelling#, target id]] in the user's order, pool {target id: callable}"""
    r = rng.random()
    if r < 0.06:
        keys = []
    elif r < 0.6:
        fam = rng.choice(E.FAMILIES)
        keys = rng.sample(fam, rng.randint(1, len(fam)))
    else:
        keys = [k for k in E.KEYS if rng.random() < 0.3]
    rng.shuffle(keys)
    pool, entries, nxt = {}, [], 10

    def target(k):
        nonlocal nxt
        mapping = k in E.FAMILIES[2]
        c = rng.random()
        if c < 0.45:
            return rng.choice([4, 0, 1] if mapping else [0, 1, 2, 3])
        nxt += 1
        pool[nxt] = (E.Tag(nxt) if c < 0.8 else E.SortedList(nxt) if c < 0.93 or not mapping else E.OrderedDict)
        return nxt

    for k in keys:
        entries.append([k, rng.randrange(len(E.KEYS[k][1])), target(k)])
    if entries and rng.random() < 0.1:  # a second spelling of a key already given: the later entry wins
        k, sp, _ = rng.choice(entries)
        sp2 = (sp + 1 + rng.randrange(len(E.KEYS[k][1]) - 1)) % len(E.KEYS[k][1])
        entries.insert(rng.randrange(len(entries) + 1), [k, sp2, target(k)])
    return entries, pool


def user_dict(entries, pool):
    return {E.KEYS[k][1][sp]: E.target_of_id(t, pool) for k, sp, t in entries}


def gen_type(rng, depth, ncls, base=False):
    if depth <= 0 or rng.random() < 0.2:
        return ["leaf", rng.choice(["int", "str", "enum"])]
    r = rng.random()
    sp = rng.randrange(4)
    hleaf = ["leaf", rng.choice(["int", "str", "enum"])]
    sets = E.SET_DECLS
    seqs = E.SEQ_DECLS
    maps = ["dict", "mapping", "mutMapping"] if base else E.MAP_DECLS
    if r < 0.2:
        return ["coll", rng.choice(sets), sp, hleaf]
    if r < 0.45:
        return ["coll", rng.choice(seqs), sp, gen_type(rng, depth - 1, ncls, base)]
    if r < 0.55 and not base:
        return ["het", sp, [gen_type(rng, depth - 1, ncls, base), gen_type(rng, depth - 1, ncls, base)]]
    if r < 0.75:
        d = rng.choice(maps)
        if d == "counter":
            return ["map", d, sp, ["leaf", rng.choice(["int", "str"])], ["leaf", "int"]]
        return ["map", d, sp, hleaf, gen_type(rng, depth - 1, ncls, base)]
    if r < 0.87 and ncls:
        return ["cls", rng.randrange(ncls)]
    if r < 0.94:
        inner = rng.choice([d for d in E.DECLS if d not in E.BARE_ABC] if not base
                           else ["list", "set", "frozenset", "dict", "deque"])
        if E.DECLS[inner][1] == "map":
            return ["any", ["map", inner, 0, ["leaf", "str"], ["leaf", "int"]]]
        return ["any", ["bare", inner, 0]]
    return ["bare", rng.choice([d for d in E.DECLS if E.DECLS[d][1] != "map"]), sp]


def gen_classes(rng, base=False):
    specs = []
    for i in range(rng.randint(0, 2)):
        specs.append({"kind": rng.choice(["attrs", "dc"]),
                      "fields": [[f"f{j}", gen_type(rng, 2, i, base)] for j in range(rng.randint(1, 3))]})
    return specs


def flat_types(rng):
    out = []
    for d in E.DECLS:
        kind = E.DECLS[d][1]
        if d in E.BARE_ABC:
            out.append(["bare", d, 0])
        elif kind == "map":
            out.append(["map", d, rng.randrange(2), ["leaf", "str"], ["leaf", "int"]])
        else:
            out.append(["coll", d, rng.randrange(2), ["leaf", rng.choice(["int", "enum"])]])
    out.append(["het", rng.randrange(2), [["leaf", "int"], ["leaf", "str"]]])
    return out


# ---------------------------------------------------------------- oracle (documentation)
def doc_choose(cfg, relax):
    user = {(typing.get_origin(k) or k): v for k, v in cfg["user"].items()}
    documented = [v[0] for v in E.KEYS.values()]

    def choose(decl, het, value):
        if not cfg["gen"]:
            return KEEP  # BaseConverter keeps the container class it finds
        origin = tuple if het else E.DECLS[decl][0]
        dflt = E.DOC_DEFAULT["het" if het else E.DECLS[decl][1]]
        if "F44" in relax and decl in ("orderedDict", "defaultDict"):
            return user.get(origin, dflt)
        cands = [k for k in user if k in documented and issubclass(origin, k)]
        for k in cands:  # "all lists are MutableSequences, so the override applies" unless a more specific one is given
            if all(issubclass(k, k2) for k2 in cands):
                return user[k]
        return dflt
    return choose


def doc_class_container(cfg, relax):
    def build(pairs):
        if cfg["tuple"]:
            return tuple(v for _, v in pairs)
        rv = dict() if ("F46" in relax and cfg["gen"]) else cfg["factory"]()
        for n, v in pairs:
            rv[n] = v
        return rv
    return build


# ---------------------------------------------------------------- model
def parse_sx(s):
    toks = s.replace("(", " ( ").replace(")", " ) ").split()
    pos = 0

    def rd():
        nonlocal pos
        t = toks[pos]
        pos += 1
        if t != "(":
            return t
        out = []
        while toks[pos] != ")":
            out.append(rd())
        pos += 1
        return out
    return rd()


def model_ovr(drv, entries):
    r = drv.ask("OVR (%s)" % " ".join(f"({k} {t})" for k, _, t in entries))
    if not r.startswith("(res"):
        raise RuntimeError("driver does not speak OVR: " + r[:200])
    sx = parse_sx(r)
    sec = {x[0]: x[1:] for x in sx[1:]}
    return {"closed": {k: int(t) for k, t in sec["closed"]}, "copy": {k: int(t) for k, t in sec["copy"]},
            "cont": {k: int(t) for k, t in sec["cont"]},
            "spec": {k: (None if t == "-" else int(t)) for k, t in sec["spec"]}}


def model_choose(cfg, m, pool):
    def choose(decl, het, value):
        if not cfg["gen"]:
            return KEEP
        return E.target_of_id(m["cont"][decl], pool)
    return choose


def model_class_container(cfg, drv):
    fid = [k for k, v in FACTORIES.items() if v is cfg["factory"]][0]
    t = int(drv.ask(f"DFACT {int(cfg['gen'])} {int(cfg['tuple'])} {fid}"))
    fac = tuple if t == 1 else FACTORIES[t]

    def build(pairs):
        if fac is tuple:
            return tuple(v for _, v in pairs)
        rv = fac()
        for n, v in pairs:
            rv[n] = v
        return rv
    return build


# ---------------------------------------------------------------- implementation
def build_converter(cfg):
    strat = UnstructureStrategy.AS_TUPLE if cfg["tuple"] else UnstructureStrategy.AS_DICT
    if cfg["gen"]:
        c = Converter(dict_factory=cfg["factory"], unstruct_strat=strat, unstruct_collection_overrides=cfg["user"])
    else:
        c = BaseConverter(dict_factory=cfg["factory"], unstruct_strat=strat)
    chain = [c]
    for _ in range(cfg["copies"]):
        chain.append(chain[-1].copy())
    return chain


def co_names(conv):
    """`_unstruct_collection_overrides` as {key name: callable}"""
    return {E.KEY_OF_CLASS.get(k, repr(k)): v for k, v in conv._unstruct_collection_overrides.items()}


def same_map(impl, model_ids, pool):
    return set(impl) == set(model_ids) and all(impl[k] is E.target_of_id(t, pool) for k, t in model_ids.items())


def make_cfg(case):
    pool = {}
    for _, _, t in case["entries"]:
        if t >= 10:
            kind = case["pool"][str(t)]
            pool[t] = {"Tag": E.Tag, "SortedList": E.SortedList}[kind](t) if kind != "OrderedDict" else E.OrderedDict
    return {"gen": case["gen"], "tuple": case["tuple"], "factory": FACTORIES[case["factory"]], "copies": case["copies"],
            "user": user_dict(case["entries"], pool), "pool": pool}


def pool_json(pool):
    return {str(k): (v.__name__ if isinstance(v, type) else type(v).__name__) for k, v in pool.items()}


# ---------------------------------------------------------------- the check
RELAXATIONS = [["F44"], ["F46"], ["F44", "F46"]]


def evaluate(cfg, conv, classes, t, vseed, m, drv):
    """-> (impl, doc, model, deviation)"""
    T = E.py_type(t, classes)
    v = E.gen_value(random.Random(vseed), t, classes)
    ri = E.guarded(lambda: conv.unstructure(v, unstructure_as=T))
    rd = E.guarded(lambda: E.encode(t, v, classes, doc_choose(cfg, ()), doc_class_container(cfg, ())))
    rm = E.guarded(lambda: E.encode(t, v, classes, model_choose(cfg, m, cfg["pool"]), model_class_container(cfg, drv)))
    dev = None
    if ri != rd:
        for rel in RELAXATIONS:
            if ri == E.guarded(lambda: E.encode(t, v, classes, doc_choose(cfg, rel), doc_class_container(cfg, rel))):
                dev = rel
                break
    return ri, rd, rm, dev


def run_overrides(chk: framework.Check, drv):
    rng = chk.rng
    n_cases = 400 if chk.tier == "quick" else 4000
    corr_fail, n_eval, n_dev = [], 0, 0
    for ci in range(n_cases):
        gen = rng.random() < 0.85
        entries, pool = gen_user(rng) if gen else ([], {})
        case0 = {"part": "overrides", "gen": gen, "tuple": rng.random() < 0.3, "factory": rng.choice([4, 4, 20, 21]),
                 "copies": rng.choice([0, 0, 1, 2]), "entries": entries, "pool": pool_json(pool),
                 "classes": gen_classes(rng, base=not gen)}
        cfg = make_cfg(case0)
        pool = cfg["pool"]
        chain = build_converter(cfg)
        conv = chain[-1]
        m = model_ovr(drv, entries)
        chk.note("ovr:" + ("Converter" if gen else "BaseConverter"), f"ovr:entries={len(entries)}",
                 "ovr:strategy=" + ("tuple" if case0["tuple"] else "dict"), f"ovr:copies={case0['copies']}",
                 "ovr:factory=" + cfg["factory"].__name__, *("ovr:key=" + k for k, _, _ in entries))
        if gen:
            # ---- (a) the override dict after construction and after copy()
            user_norm = {(typing.get_origin(k) or k): v for k, v in cfg["user"].items()}
            for i, c in enumerate(chain):
                co = co_names(c)
                what = "after construction" if i == 0 else f"after {i} copy()"
                for k, v in user_norm.items():  # oracle: an entry the user gave is there, unchanged
                    if co.get(E.KEY_OF_CLASS[k]) is not v:
                        chk.violation(f"C03 overrides oracle: explicit override for {E.KEY_OF_CLASS[k]} lost or replaced {what} "
                                      f"[{entries}]", dict(case0, what="explicit-entry"))
                if not same_map(co, m["closed"] if i == 0 else m["copy"], pool):
                    corr_fail.append((dict(case0, what="override-dict"), f"_unstruct_collection_overrides {what}: impl="
                                      + str({k: repr(v) for k, v in co.items()}) + " model=" + str(m["closed" if i == 0 else "copy"])))
            # the model's own specification column must agree with the model's closed dict outside the F44 keys
            for k, t in m["spec"].items():
                if k not in ("orderedDict", "defaultDict") and m["closed"].get(k) != t:
                    chk.violation("model contradicts theorem C03_override_lattice_doc_partial (driver/model out of sync): "
                                  + k, dict(case0, what="model-spec"), found_input=False)
        # ---- (b), (c) outputs
        classes = E.make_classes(case0["classes"])
        types = (flat_types(rng) if gen else []) + [gen_type(rng, 3, len(classes), base=not gen) for _ in range(6)]
        for t in types:
            vseed = rng.getrandbits(32)
            case = dict(case0, type=t, vseed=vseed)
            try:
                ri, rd, rm, dev = evaluate(cfg, conv, classes, t, vseed, m, drv)
            except RecursionError:
                raise
            n_eval += 1
            chk.count(repr((entries, case0["gen"], case0["tuple"], case0["factory"], t)),
                      nontrivial=bool(entries) or cfg["factory"] is not dict or t[0] not in ("leaf",),
                      sample={"overrides": entries, "type": repr(E.py_type(t, classes)), "impl": ri, "model": rm})
            chk.note("ovr:ty=" + (t[1] if t[0] in ("coll", "bare", "map") else t[0]), "ovr:outcome=" + ri[0])
            if ri != rd:
                n_dev += bool(dev)
                chk.violation(f"C03 overrides oracle: output differs from the documented container choice: got {ri} expected {rd} "
                              f"[{'Converter' if gen else 'BaseConverter'} overrides={entries} factory={cfg['factory'].__name__} "
                              f"{'tuple' if case0['tuple'] else 'dict'} strategy, copies={case0['copies']}, type={E.py_type(t, classes)!r}]",
                              dict(case, deviation=dev))
            if ri != rm:
                corr_fail.append((case, f"impl={ri} model={rm} type={E.py_type(t, classes)!r} overrides={entries}"))
    replay_witnesses(chk)
    for case, what in corr_fail[:5]:
        chk.violation("correspondence corr:C03:OVR broken (theorems C03_override_* no longer tied to the code): " + what[:600],
                      case, found_input=False)
    chk.extra["overrides"] = {"cases": n_cases, "evaluations": n_eval, "documented-deviations(F44,F46)": n_dev,
                              "rule": "random override dicts over the 15 collection keys (family-biased subsets, several "
                                      "spellings, builtin / tagging / sorting targets) x dict_factory x strategy x 0-2 copy(); "
                                      "flat table of the 20 declared collection types + 6 random nested types with classes"}


def replay_witnesses(chk):
    """the negative witnesses proved in Props/C03b.lean, replayed on the implementation"""
    import collections.abc as abc
    t = E.Tag(7)
    t2 = E.Tag(8)

    def kind(conv, v, T):
        r = conv.unstructure(v, unstructure_as=T)
        return r.n if isinstance(r, E.Tagged) else type(r).__name__
    c = Converter(unstruct_collection_overrides={dict: t})
    obs = {
        "C03_override_doc_gap_witness": (
            [kind(c, E.Counter("a"), E.Counter[str]), kind(c, E.OrderedDict(a=1), E.OrderedDict[str, int]),
             kind(c, E.defaultdict(int, a=1), E.defaultdict[str, int])], [7, "dict", "dict"]),
        "C03_override_duplicate_spelling_witness": (
            [kind(Converter(unstruct_collection_overrides={typing.Sequence: t, abc.Sequence: t2}), [1], list[int]),
             kind(Converter(unstruct_collection_overrides={abc.Sequence: t2, typing.Sequence: t}), [1], list[int])], [8, 7]),
        "C03_override_statement_order_witness": (
            [kind(Converter(unstruct_collection_overrides={abc.Set: t}), {1}, set[int])], [7]),
        "C03_override_bare_abc_same": (
            [kind(Converter(unstruct_collection_overrides={abc.Sequence: t}), (1,), abc.Sequence),
             kind(Converter(unstruct_collection_overrides={abc.Sequence: t}), (1,), abc.Sequence[int]),
             kind(Converter(unstruct_collection_overrides={abc.Set: t}), {1}, abc.MutableSet),
             kind(Converter(), (E.Col.RED,), abc.Sequence), Converter().unstructure((E.Col.RED,), unstructure_as=abc.Sequence)],
            [7, 7, 7, "list", [1]]),
        "C03_override_dict_factory_witness": (
            [type(C(dict_factory=E.TagDict, unstruct_strat=s).unstructure(E.make_classes(
                [{"kind": "attrs", "fields": [["a", ["leaf", "int"]]]}])[0]["cls"](1))).__name__
             for C in (Converter, BaseConverter) for s in (UnstructureStrategy.AS_DICT, UnstructureStrategy.AS_TUPLE)],
            ["dict", "tuple", "TagDict", "tuple"]),
    }
    for name, (got, want) in obs.items():
        chk.count("witness:" + name)
        if got == want:
            chk.note("ovr:witness-reproduced:" + name)
        else:
            chk.violation(f"correspondence corr:C03:OVR broken: witness {name} no longer describes the code: got {got}, the theorem "
                          f"says {want}", {"part": "overrides", "what": "witness", "name": name}, found_input=False)


def replay_overrides(case):
    from harness import lean
    drv = lean.Driver()
    cfg = make_cfg(case)
    conv = build_converter(cfg)[-1]
    m = model_ovr(drv, case["entries"])
    print("overrides:", case["entries"], "closed(model):", m["closed"])
    if "type" not in case:
        print("impl dict:", co_names(conv))
        return 0
    classes = E.make_classes(case["classes"])
    ri, rd, rm, dev = evaluate(cfg, conv, classes, case["type"], case["vseed"], m, drv)
    print("type  :", E.py_type(case["type"], classes))
    print("impl  :", ri)
    print("oracle:", rd, "" if ri == rd else f"  DIFFERS (documented deviation: {dev})")
    print("model :", rm)
    drv.close()
    return 0 if ri == rd else 1


def _run_alone(chk):
    from harness import lean
    drv = lean.Driver()
    run_overrides(chk, drv)
    drv.close()


if __name__ == "__main__":
    framework.main(_run_alone, "C03")
