"""C07 — hook precedence follows the documented rule after any registration history.

Implementation observable I: canonical result of structure / unstructure on every probe type after a random
registration history (user hooks tag their output, so the result shows which hook ran, also nested).
Model observable M: `call` on the model machine after the same history (RUNHIST), and `spec` (the theorem's
right-hand side, SPEC); hook terms are turned into the expected canonical result by `expect`.
Oracle P (independent of the model): `ref_choose`, a direct transcription of the documented rule.

Factories come in SHAPES (harness/dispatch_shapes.py: positional-only, optional second parameter, *args, **kwargs,
keyword-only parameters, functools.partial objects, callable instances, classes, lambdas, bound / class / static methods,
string annotations), plain and converter-taking; every factory records what it was called with, and the hook it makes
shows it.  Oracle: a factory receives the converter iff it exposes an additional REQUIRED positional parameter (the rule of
the documentation of `register_*_hook_factory`, declared per shape); the model decides the `Kind` of the registration from
the `inspect.signature` of the real callable (`SIGKIND`, Dispatch/Sig.lean, transcription of `_is_extended_factory`;
theorems C07_factory_kind / C07_factory_receives).  Shapes whose second parameter is `*args` / `**kwargs` are recorded
finding F61 (code and documentation part there; witness theorem C07_factory_kind_F61_witness).
Raising predicates raise a variety of exception classes (`dispatch_common.PRED_EXCEPTIONS`): each means "does not accept".

STORE histories: the converter the rule is checked on need not come from a constructor -- `copy()` / `deepcopy` /
`copy(detailed_validation=..)` / `copy(unstruct_strat=..)` steps (also a copy of a copy) sit anywhere in the history, with
registrations on the source and on the copies before and after.  The history of a copy = the registrations its source had
received when the copy was taken + its own (`dispatch_common.store_view`, written from the statement); every converter of
the store is probed on every universe type (the `Annotated[T, ...]` spellings included: they are resolved by the `is_annotated`
factory of the converter the hook is built for).  Model: the same store history through RUNHIST (`copyOf`), and the
right-hand side of theorem C07_precedence_store through SPECSTORE (`origins` + `spec`).
"""
import itertools
import json
import os
import random
import sys
import zlib

from harness import framework, lean
from harness import dispatch_common as dc
from harness import dispatch_shapes as shapes
from harness.dispatch_common import DIRS, ST, UN, ConvCfg, Impl, U

F61_SIG = "c07_factory_second_parameter_var_args_or_kwargs_filed_as_converter_taking"


@framework.finding(F61_SIG)
def _f61(case):
    """F61: `_is_extended_factory` looks only at whether the SECOND parameter of the factory's signature has a default, not
    at its kind: `def fac(typ, **opts)` / `def fac(typ, *rest)` / `def fac(*a, **k)` expose no additional required
    parameter (they do not ask for the converter), yet are registered as converter-taking.  `fac(typ, **opts)` can then
    not be called at all (every lookup of an accepted type raises TypeError: "takes 1 positional argument but 2 were
    given"); the other two are handed a converter they did not ask for.
    Recognised by the shape of the input only: the hook tree the documented rule selects for the probed type contains a
    factory whose signature has `*args` / `**kwargs` as its second parameter."""
    probe = case.get("probe") or {}
    return any(sh in shapes.F61 for sh in probe.get("p_shapes", ()))


def term_tags(term, acc=None):
    """tags of the user factories occurring in a hook term"""
    acc = set() if acc is None else acc
    if term[0] == "made":
        acc.add(term[1])
        for sub in term[4]:
            term_tags(sub, acc)
    return acc


def gen_cfg(rng):
    return ConvCfg(klass=rng.choice(["Converter", "Converter", "BaseConverter"]),
                   tuple_strat=rng.random() < 0.1,
                   fb_un=7001 if rng.random() < 0.25 else 0, fb_st=7002 if rng.random() < 0.25 else 0,
                   detailed=rng.random() < 0.7)


def run_case(drv, cc, preds, history, want_spec=True):
    """Returns list of rows {conv, dir, ty, I, M, P, terms} for every probe of every converter of the store that
    `history` (registrations and copy steps) builds from one converter constructed as `cc`."""
    impl = Impl(preds)
    impl.make(cc)
    cfgs, regs_of = dc.store_view(history, [cc])
    has_copy = len(cfgs) > 1
    # uses of the converters between the registrations (results ignored): "after any sequence of registrations" includes
    # sequences in which the types were already used; derived from the history text, so a replay repeats them
    wr = random.Random(zlib.crc32(repr([dc.describe(o) for o in history]).encode()))
    for op in history:
        impl.do(op)
        if wr.random() < 0.3:
            j = wr.randrange(len(impl.convs))
            for o in dc.probe_ops(j, wr.choice(DIRS), impl.cfgs[j]):
                impl.do(o)
    full = list(history)
    for j, cj in enumerate(cfgs):
        for d in DIRS:
            full += dc.probe_ops(j, d, cj)
    res_i = {}
    for n in range(len(history), len(full)):
        res_i[n] = impl.do(full[n])
    out = []
    fraise = dc.fraise_of(history)
    for d in DIRS:
        mt, _ = dc.run_model(drv, full, d, [cc], preds)
        ctxs = [dc.ModelCtx(cj, d, preds) for cj in cfgs]
        for c in ctxs:
            c.fraise = fraise
        st = {}
        if want_spec and not has_copy:   # theorem C07_precedence: `spec` over the history itself
            keys = [full[n]["ty"] for n in sorted(mt)]
            st = dict(zip(sorted(mt), dc.run_spec(drv, history, d, cc, preds, keys)[0]))
        elif want_spec:                  # theorem C07_precedence_store: `spec` over the origin of every converter
            rows = [(j, [full[n]["ty"] for n in sorted(mt) if full[n]["conv"] == j]) for j in range(len(cfgs))]
            ss = dc.run_spec_store(drv, history, d, [cc], preds, rows)
            st = {n: ss[(full[n]["conv"], full[n]["ty"])] for n in mt}
        for n in sorted(mt):
            op = full[n]
            key, j = op["ty"], op["conv"]
            ctx = ctxs[j]
            sample = Impl.sample(cfgs[j], d, U.types[key])
            m_term = dc.norm_term(ctx, mt[n])
            p_term = dc.norm_term(ctx, dc.ref_choose(regs_of[j], d, cfgs[j], preds, key, _ctx=ctx))
            s_term = st.get(n)
            lit = dc.norm_term(ctx, dc.ref_choose(regs_of[j], d, cfgs[j], preds, key, _ctx=ctx, literal=True))
            out.append({"conv": j, "dir": d, "ty": key, "I": res_i[n], "M": dc.expect(ctx, m_term, key, sample),
                        "P": dc.expect(ctx, p_term, key, sample), "m_term": m_term, "p_term": p_term,
                        "s_term": s_term, "ctx": ctx, "literal_differs": lit != p_term})
    dc.prune_linecache()
    for e in impl.reg_errors:
        out.append({"regerr": e})
    for w in impl.options_written():
        out.append({"regerr": "an option attribute of the converter was written by use: " + w})
    run_case.raised = impl.raised
    return out


def gen_copy_step(rng, src, cc):
    """a copy step for a precedence history: plain `copy()`, `copy.deepcopy`, or `copy(..)` overriding an option (the
    validation mode: dispatch-neutral; the unstructure strategy: changes the built-in hooks of attrs classes)"""
    r = rng.random()
    if r < 0.4:
        return dc.copy_op(src, cc, {}, "copy")
    if r < 0.7:
        return dc.copy_op(src, cc, {}, "deepcopy")
    if r < 0.9:
        return dc.copy_op(src, cc, {"detailed_validation": rng.random() < 0.5})
    return dc.copy_op(src, cc, {"unstruct_strat": rng.choice(["astuple", "asdict"])})


def gen_store_history(rng, cc, preds, max_ops):
    """registrations on the converters of a growing store with up to two copy steps (source = any converter that exists)
    at random positions: registrations before the copy, after it on the source, after it on the copy, on a copy of a copy"""
    cnt = itertools.count(1)
    cfgs = [cc]
    history = []
    n_ops = rng.randint(2, max_ops)
    copy_at = sorted(rng.sample(range(n_ops), min(n_ops, rng.choice([1, 1, 2]))))
    for i in range(n_ops):
        if i in copy_at:
            src = rng.randrange(len(cfgs))
            step = gen_copy_step(rng, src, cfgs[src])
            history.append(step)
            cfgs.append(ConvCfg.from_json(step["cfg"]))
        else:
            j = rng.randrange(len(cfgs))
            mine = [o for o in history if o.get("conv") == j]
            history.append(dc.gen_reg(rng, j, rng.choice(DIRS), preds, lambda: next(cnt), prev=mine, f61=0.04))
    return history


def abc_stream(chk, n_cases):
    """Implementation-only oracle for class registrations made for ABCs that a probe class satisfies only VIRTUALLY
    (structural `__subclasshook__`, nothing in its `__mro__`): outside the Lean model, whose `Facts.mro` is fixed per type.
    Rule (property statement + functools.singledispatch): if exactly one registered ABC is the most specific one the
    class satisfies, its latest hook applies; if the registered ABCs it satisfies are unrelated (ambiguous), no class
    registration applies and the choice falls through to predicates / built-in behaviour -- never an exception."""
    import collections.abc as cabc

    from cattrs import BaseConverter, Converter

    rng = chk.rng
    ABCS = {"Sized": cabc.Sized, "Container": cabc.Container, "Iterable": cabc.Iterable, "Hashable": cabc.Hashable,
            "Collection": cabc.Collection}
    METHODS = {"Sized": ["__len__"], "Container": ["__contains__"], "Iterable": ["__iter__"], "Hashable": [],
               "Collection": ["__len__", "__contains__", "__iter__"]}
    SUBS = {"Collection": {"Sized", "Container", "Iterable"}}   # Collection is more specific than these
    for ci in range(n_cases):
        regs = rng.sample(sorted(ABCS), rng.randint(1, 3))
        have = set(rng.sample(["__len__", "__contains__", "__iter__"], rng.randint(0, 3)))
        ns = {m: (lambda self, *a: 0) for m in have}
        if "__iter__" in have:
            ns["__iter__"] = lambda self: iter(())
        ns["__eq__"] = lambda self, o: type(o) is type(self)
        if rng.random() < 0.5:
            ns["__hash__"] = None          # not Hashable
        else:
            ns["__hash__"] = lambda self: 7
        Probe = type(f"Abc{chk.seed}_{ci}", (), ns)
        satisfied = [a for a in regs if issubclass(Probe, ABCS[a])]
        # most specific satisfied registered ABCs
        best = [a for a in satisfied if not any(a in SUBS.get(b, ()) for b in satisfied if b != a)]
        for d in DIRS:
            for klass in (Converter, BaseConverter):
                conv = klass()
                tags = {}
                for i, a in enumerate(regs):
                    tags[a] = 100 + i
                    if d == UN:
                        conv.register_unstructure_hook(ABCS[a], lambda v, t=100 + i: ("U", t))
                    else:
                        conv.register_structure_hook(ABCS[a], lambda v, _, t=100 + i: ("S", t))
                with_pred = rng.random() < 0.5
                if with_pred:
                    if d == UN:
                        conv.register_unstructure_hook_func(lambda t: t is Probe, lambda v: ("U", 999))
                    else:
                        conv.register_structure_hook_func(lambda t: t is Probe, lambda v, _: ("S", 999))
                x = Probe()
                try:
                    r = conv.unstructure(x, unstructure_as=Probe) if d == UN else conv.structure("payload", Probe)
                    out = ("ok", r)
                except Exception as e:  # noqa: BLE001
                    out = ("err", type(e).__name__, str(e)[:80])
                chk.count(("abc", ci, d, klass.__name__))
                chk.note("abc-stream:" + ("unique" if len(best) == 1 else "ambiguous" if len(best) > 1 else "none"))
                case = {"ext": True, "registered": regs, "probe_methods": sorted(have), "hashable": ns["__hash__"] is not None,
                        "dir": d, "converter": klass.__name__, "predicate_hook": with_pred, "got": repr(out)[:200]}
                letter = "U" if d == UN else "S"
                sat_hooks = [("ok", (letter, tags[a_])) for a_ in satisfied]
                if len(satisfied) == 1:
                    if out not in sat_hooks:
                        chk.violation(f"C07 oracle (ABC stream): class hooks for {regs}, probe satisfies only {satisfied}: expected its hook, got {out!r}", case)
                elif not satisfied:
                    if with_pred and out != ("ok", (letter, 999)):
                        chk.violation(f"C07 oracle (ABC stream): class hooks for {regs}, none satisfied by the probe: expected the predicate hook, got {out!r}", case)
                    if out[0] == "ok" and isinstance(out[1], tuple) and out[1][:1] == (letter,) and out[1][1] in tags.values():
                        chk.violation(f"C07 oracle (ABC stream): a class hook of an ABC the probe does not satisfy was applied: {out!r}", case)
                else:
                    # several registered ABCs are satisfied: functools.singledispatch picks the most specific one or declares
                    # the dispatch ambiguous, in which case no class registration applies -- never an exception
                    if out[0] == "err" and out[1] == "RuntimeError":
                        chk.violation(f"C07 oracle (ABC stream): class hooks for {regs}, probe satisfies {satisfied}: dispatch raised {out!r} "
                                      "instead of falling through", case)
                    elif out not in sat_hooks and with_pred and out != ("ok", (letter, 999)):
                        chk.violation(f"C07 oracle (ABC stream): class hooks for {regs}, probe satisfies {satisfied}: got {out!r}, expected one of "
                                      "their hooks or the predicate hook", case)


def spec_agrees(ctx, s_term, m_term):
    """`spec` gives the dispatched hook, the machine's `call` the call tree: a late built-in hook `builtin n`
    shows up as `made n t false children` in the call tree; everything else must coincide."""
    if s_term is None:
        return True
    return _agree(dc.norm_term(ctx, s_term), m_term)


def _agree(a, b):
    if a[0] == "builtin" and b[0] == "made":
        return a[1] == b[1]
    if a[0] == "made" and b[0] == "made":
        return a[1:4] == b[1:4] and len(a[4]) == len(b[4]) and all(_agree(x, y) for x, y in zip(a[4], b[4]))
    return a == b


def check_case(chk, drv, cc, preds, history, corr_fail, stats):
    case = {"cfg": cc.to_json(), "preds": dc.preds_to_json(preds), "history": history}
    rows = run_case(drv, cc, preds, history)
    regs = [op for op in history if op["op"] != "copy"]
    key = cc.name() + json.dumps(case["preds"], sort_keys=True) + "|".join(dc.describe(o) for o in history)
    chk.count(key, nontrivial=len(regs) > 0,
              sample={"cfg": cc.name(), "history": [dc.describe(o) for o in history][:12],
                      "probe": U.types[rows[0]["ty"]].name, "impl": repr(rows[0]["I"])[:120]})
    chk.note("cfg:" + cc.name().split("/")[0], "len:%02d" % len(history))
    shape_of = {}
    n_conv = 1
    for op in history:
        if op["op"] == "copy":
            chk.note("copy:" + op.get("how", "copy") + (":overrides" if op.get("kwargs") else "") + (":of-a-copy" if op["src"] else ""))
            n_conv += 1
            continue
        if n_conv > 1:
            chk.note("reg-after-copy:on-" + ("source" if any(o["op"] == "copy" and o["src"] == op["conv"] for o in history) else "copy"))
        chk.note("reg:" + op["op"] + (":ext" if op.get("extended") else "") + (":deco" if op.get("form") == "deco" else "")
                 + ":" + op["dir"])
        if op["op"] == "hook":
            chk.note("target:" + U.types[op["ty"]].shape)
        if op["op"] == "factory" and op.get("shape"):
            chk.note("factory-shape:" + op["shape"])
            shape_of[op["tag"]] = op["shape"]
    for cls, n in run_case.raised.items():
        chk.hist["predicate-raised:" + cls] += n
    for r in [r for r in rows if "regerr" in r]:
        chk.violation("C07 oracle: a registration raised: " + r["regerr"], case)
        stats["oracle_fail"] += 1
    rows = [r for r in rows if "regerr" not in r]
    for r in rows:
        stats["probes"] += 1
        tn = U.types[r["ty"]].name
        chk.note("chosen:" + r["m_term"][0] + ("/builtin" if r["m_term"][0] == "made" and r["m_term"][1] in r["ctx"].beh else ""))
        if r["I"] == dc.ERR:
            chk.note("outcome:err")
        if r["literal_differs"]:
            chk.note("note:union-structure-hook-ranked-below-older-or-newer-user-predicate")
        where = f"[{cc.name()} c{r['conv']} {r['dir']} probe={tn} history={' ; '.join(dc.describe(o) for o in history)}]"
        if r["conv"]:
            chk.note("probe-on-copy:" + ("annotated" if U.types[r["ty"]].shape == "annotated" else "other"))
        if r["I"] != r["P"]:
            p_shapes = sorted({shape_of[t] for t in term_tags(r["p_term"]) if t in shape_of})
            if chk.violation(f"C07 oracle: result {r['I']!r} is not what the documented rule selects {r['P']!r} "
                             f"(rule picks {r['p_term']!r}) {where}",
                             dict(case, probe={"conv": r["conv"], "dir": r["dir"], "ty": r["ty"], "p_shapes": p_shapes})):
                stats["oracle_fail"] += 1
            continue
        if r["I"] != r["M"] or not spec_agrees(r["ctx"], r["s_term"], r["m_term"]):
            corr_fail.append((case, r, where))


def run(chk: framework.Check):
    rng = chk.rng
    if os.environ.get("VERIF_C07_F61") and not any(f.get("signature") == F61_SIG for f in chk.known):
        chk.known.append({"id": "F61", "property": "C07", "kind": "finding", "signature": F61_SIG,
                          "what": "_is_extended_factory ignores the KIND of the second parameter: def fac(typ, **opts) / "
                                  "def fac(typ, *rest) are registered as converter-taking (entry assumed via VERIF_C07_F61)"})
    drv = lean.Driver()
    corr_fail = []
    stats = {"probes": 0, "oracle_fail": 0}
    quick = chk.tier == "quick"
    # ---- exhaustive short histories over a small alphabet (thorough) / a slice of them (quick)
    alpha_preds = {1: ({U.k("A"), U.k("B"), U.k("NA"), U.k("UAP"), U.k("list[A]"), U.k("int")}, {U.k("OA")})}
    tags = itertools.count(1)
    alphabet = []
    for d in DIRS:
        alphabet += [
            {"op": "hook", "conv": 0, "dir": d, "ty": U.k("A"), "form": "call"},
            {"op": "hook", "conv": 0, "dir": d, "ty": U.k("B"), "form": "deco"},
            {"op": "hook", "conv": 0, "dir": d, "ty": U.k("UAP"), "form": "call"},
            {"op": "func", "conv": 0, "dir": d, "pred": 1},
            {"op": "factory", "conv": 0, "dir": d, "pred": 1, "extended": True, "form": "call"},
            {"op": "factory", "conv": 0, "dir": d, "pred": 1, "extended": False, "form": "deco"},
        ]
    max_len = 2 if quick else 3
    for klass in ("Converter", "BaseConverter"):
        cc = ConvCfg(klass=klass)
        for d in DIRS:
            al = [a for a in alphabet if a["dir"] == d]
            for L in range(0, max_len + 1):
                for combo in itertools.product(al, repeat=L):
                    history = [dict(op, tag=i + 1) for i, op in enumerate(combo)]
                    check_case(chk, drv, cc, alpha_preds, history, corr_fail, stats)
    # ---- every factory shape, alone and in front of / behind an older registration on the same predicate
    for n, name in enumerate(sorted(shapes.SHAPES)):
        sh = shapes.SHAPES[name]
        for d in DIRS:
            for klass in (("Converter", "BaseConverter") if not quick else (("Converter", "BaseConverter")[(n + (d == ST)) % 2],)):
                fac = {"op": "factory", "conv": 0, "dir": d, "pred": 1, "extended": sh.asks, "shape": name,
                       "form": ("call", "deco")[n % 2], "tag": 2}
                older = {"op": "func", "conv": 0, "dir": d, "pred": 1, "tag": 1}
                check_case(chk, drv, ConvCfg(klass=klass), alpha_preds, [older, fac], corr_fail, stats)
    if not quick:  # length 4 over a 4-op alphabet, both directions mixed
        al = [a for a in alphabet if a["op"] in ("hook", "factory") and a.get("ty") != U.k("B")][:8]
        cc = ConvCfg()
        for combo in itertools.product([a for a in al if a["dir"] == ST][:4], repeat=4):
            history = [dict(op, tag=i + 1) for i, op in enumerate(combo)]
            check_case(chk, drv, cc, alpha_preds, history, corr_fail, stats)
    # ---- store histories: every kind of registration before a copy step, the same kind again after it on the source / on
    # the copy (the later one must win THERE and be invisible on the other side), every way of copying
    n_sys = 0
    for klass in ("Converter", "BaseConverter"):
        for d in DIRS:
            singles = [a for a in alphabet if a["dir"] == d] + [
                {"op": "hook", "conv": 0, "dir": d, "ty": U.k("NA"), "form": "call"},
                {"op": "hook", "conv": 0, "dir": d, "ty": U.k("int"), "form": "call"}]
            for reg in singles:
                for target in (0, 1):
                    n_sys += 1
                    if quick and (n_sys + chk.seed) % 2:
                        continue
                    cc = ConvCfg(klass=klass)
                    step = dc.copy_op(0, cc, {}, ("copy", "deepcopy")[n_sys % 2])
                    history = [dict(reg, tag=1), step, dict(reg, conv=target, tag=2)]
                    if n_sys % 3 == 0:   # ... and a copy of the copy taken afterwards
                        history.append(dc.copy_op(1, cc, {}, "copy"))
                        history.append(dict(reg, conv=2 - target, tag=3))
                    check_case(chk, drv, cc, alpha_preds, history, corr_fail, stats)
    for _ in range(300 if quick else 2500):
        cc = gen_cfg(rng)
        preds = dc.gen_preds(rng)
        check_case(chk, drv, cc, preds, gen_store_history(rng, cc, preds, 10 if quick else 16), corr_fail, stats)
    # ---- random histories
    n_rand = 1000 if quick else 12000
    max_ops = 12 if quick else 20
    for _ in range(n_rand):
        cc = gen_cfg(rng)
        preds = dc.gen_preds(rng)
        cnt = itertools.count(1)
        history = []
        for _ in range(rng.randint(0, max_ops)):
            history.append(dc.gen_reg(rng, 0, rng.choice(DIRS), preds, lambda: next(cnt), prev=history, f61=0.08))
        check_case(chk, drv, cc, preds, history, corr_fail, stats)
    if corr_fail and not stats["oracle_fail"]:
        for case, r, where in corr_fail[:5]:
            chk.violation("correspondence corr:C07:RUNHIST broken (theorems C07_* no longer tied to the code): "
                          f"impl={r['I']!r} model={r['M']!r} model-term={r['m_term']!r} spec-term={r['s_term']!r} {where}",
                          dict(case, probe={"conv": r["conv"], "dir": r["dir"], "ty": r["ty"]}), found_input=False)
    chk.extra["rule"] = ("registration histories (class/subclass/NewType/union/predicate/factory/extended factory in every "
                         "signature shape, call and decorator forms, both directions, overlapping predicates, predicates raising "
                         "20 exception classes) x {Converter, BaseConverter} x "
                         "{dict,tuple strategy} x fallback factories; store histories with copy()/deepcopy/copy(overrides) steps (also copies "
                         "of copies) and registrations on source and copies before and after; every converter of every history "
                         "probed on all universe types (also nested, also spelled Annotated[T, ...]); "
                         "non-trivial = at least one registration; distinct by configuration+history text")
    abc_stream(chk, 60 if quick else 600)
    chk.extra["probes"] = stats["probes"]
    chk.extra["correspondence_disagreements"] = len(corr_fail)
    drv.close()


def replay(case):
    drv = lean.Driver()
    cc = ConvCfg.from_json(case["cfg"])
    preds = dc.preds_from_json(case["preds"])
    history = case["history"]
    print("configuration:", cc.name())
    for p, (a, r) in preds.items():
        print(f"  predicate p{p}: accepts {[U.types[k].name for k in sorted(a)]} raises "
              f"{[(U.types[k].name, dc.pred_exception(p, k).__name__) for k in sorted(r)]}")
    for op in history:
        print("  ", dc.describe(op))
    rc = 0
    for r in run_case(drv, cc, preds, history):
        if "regerr" in r:
            print("registration raised:", r["regerr"])
            rc = 1
            continue
        if "probe" in case and (case["probe"].get("conv", 0), case["probe"]["dir"], case["probe"]["ty"]) != (r["conv"], r["dir"], r["ty"]):
            continue
        ok = r["I"] == r["P"]
        print(f"probe c{r['conv']} {r['dir']} {U.types[r['ty']].name}: impl={r['I']!r} rule={r['P']!r} model={r['M']!r} -> {'holds' if ok else 'VIOLATED'}")
        rc = rc or (0 if ok else 1)
    return rc


if __name__ == "__main__":
    framework.main(run, "C07")
