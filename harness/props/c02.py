"""C02 — structuring is sound: returns a value conforming to T, or raises, on any input.

Correspondence: outcome of `structure(payload, T)` (ok value / raised) on the real converters, over a
malformed stream (mutated valid payloads + junk), == the model's.  Oracle (implementation only): every
ACCEPTED result is re-checked against T by an independent conformance walker over the real Python
objects, written from the property statement (exact classes, arity, literal membership, key rules).
"""
from __future__ import annotations

import collections
import enum

from harness import framework, gen, lean, streams, terms
from harness.datapath import ALL_CFGS, Session, cfg_name, leaf_iterated, reply_canon, reply_kind

CFGS = ALL_CFGS + [{"gen": True, "tuple": False, "detailed": d, "forbid": True} for d in (True, False)]


def conforms_py(S, ty, v) -> bool:
    """Is the real Python object v a value of the abstract type ty, at every depth?"""
    w = S.world
    if ty is None or ty == "any":
        return True
    if isinstance(ty, str):
        return type(v) is {"int": int, "float": float, "str": str, "bytes": bytes, "bool": bool}[ty]
    k = ty[0]
    if k == "enum":
        return type(v) is S.R.enums[ty[1]]
    if k == "lit":
        if any(a[0] == "e" for a in ty[1]):
            # a literal containing enum members: exactly one of its arguments (the member itself / the plain value of the
            # same class) -- `_structure_enum_literal` hands out the literal's own argument (Lean `litConf`)
            args = [S.R.val(a) for a in ty[1]]
            return any(v is a if a.__class__ in S.R._enum_index else (type(v) is type(a) and v == a) for a in args)
        return any(v == S.R.val(a) for a in ty[1])
    if k in ("list", "seq", "mseq"):
        return type(v) is list and all(conforms_py(S, ty[1], e) for e in v)
    if k == "tup*":
        return type(v) is tuple and all(conforms_py(S, ty[1], e) for e in v)
    if k == "deque":
        return type(v) is collections.deque and all(conforms_py(S, ty[1], e) for e in v)
    if k in ("set", "mset"):
        return type(v) is set and all(conforms_py(S, ty[1], e) for e in v)
    if k == "fset":
        return type(v) is frozenset and all(conforms_py(S, ty[1], e) for e in v)
    if k == "tup":
        return type(v) is tuple and len(v) == len(ty[1]) and all(conforms_py(S, t, e) for t, e in zip(ty[1], v))
    if k in ("dict", "map", "mmap"):
        return type(v) is dict and all(conforms_py(S, ty[1], a) and conforms_py(S, ty[2], b) for a, b in v.items())
    # mapping types with a target class of their own: exactly that class (a Converter builds it; a BaseConverter would
    # return a plain dict -- such types are outside its support and not generated for it); a defaultdict carries the
    # value type as its default_factory; a Counter counts ints
    if k == "odict":
        return (type(v) is collections.OrderedDict
                and all(conforms_py(S, ty[1], a) and conforms_py(S, ty[2], b) for a, b in v.items()))
    if k == "ddict":
        return (type(v) is collections.defaultdict and v.default_factory == S.R.ty(ty[2])
                and all(conforms_py(S, ty[1], a) and conforms_py(S, ty[2], b) for a, b in v.items()))
    if k == "counter":
        return type(v) is collections.Counter and all(conforms_py(S, ty[1], a) and type(b) is int for a, b in v.items())
    if k == "opt":
        return v is None or conforms_py(S, ty[1], v)
    if k in ("new", "ann", "final", "alias"):
        return conforms_py(S, ty[1], v)
    if k == "cls":
        if type(v) is not S.R.classes[ty[1]]:
            return False
        for f in w["classes"][ty[1]]["fields"]:
            if not hasattr(v, f["name"]):
                return False
            if not conforms_py(S, f["ty"], getattr(v, f["name"])):
                return False
        return True
    if k == "nt":
        # an instance of exactly that NamedTuple class, of the declared arity, every item conforming to its field type
        fs = w["classes"][ty[1]]["fields"]
        return (type(v) is S.R.classes[ty[1]] and len(v) == len(fs)
                and all(conforms_py(S, f["ty"], e) for f, e in zip(fs, v)))
    if k == "union":
        # an instance of exactly one of the member classes (conforming as that class), or None when None is a member
        if v is None:
            return bool(ty[2])
        return any(type(v) is S.R.classes[m] and conforms_py(S, ("cls", m), v) for m in ty[1])
    if k == "td":
        if type(v) is not dict:
            return False
        for f in w["classes"][ty[1]]["fields"]:
            if f["name"] in v:
                if not conforms_py(S, f["ty"], v[f["name"]]):
                    return False
            elif f["required"]:
                return False
        return True
    raise ValueError(ty)


def missing_key_payloads(chk, S, ty, base):
    """the valid payload of a class / TypedDict position with each key removed in turn ("missing parts"): a missing
    required key must be rejected, never defaulted or skipped -- whatever way the class spells requiredness
    (TypedDict totality, inherited keys of a hierarchy with mixed totality, Required / NotRequired markers, defaults)"""
    t = gen.strip_wraps(ty)
    if isinstance(t, str) or t[0] not in ("td", "cls") or base[0] != "d":
        return []
    out = []
    for i in range(len(base[1])):
        p = ("d", base[1][:i] + base[1][i + 1:])
        try:
            pv, p2 = S.realise(p)
        except Exception:
            continue
        if not gen.lookalike_hazard(p2):
            out.append(("key-removed", p2, pv))
    return out


def run_type(chk, G, S, w, ty, x, xv, corr_fail):
    has_union = bool(gen.reach_unions(w, ty))
    enum_lit = gen.has_enum_lit(w, ty)
    for cfg in CFGS:
        if not gen.supported(cfg, w, ty):
            chk.note("unsupported-by-converter-class")
            continue
        u = S.impl_un(cfg, ty, x, x=xv)
        if u[0] != "ok":
            chk.note("unstructure-failed(skipped)")
            continue
        plist = list(streams.payloads(chk, G, S, w, u[1], n_mut=2, n_junk=1))
        plist += missing_key_payloads(chk, S, ty, u[1])
        plist += list(streams.validator_payloads(chk, G, S, w, ty, u[1]))
        # missing parts at every depth below the top (a present component that is invalid must never be passed through)
        plist += streams.deep_missing_key_payloads(chk, G, S, w, cfg, ty, u[1], limit=4, top=False)
        for kind, p, pv in plist:
            ri = S.impl_st(cfg, ty, p, payload=pv)
            case = {"world": w, "cfg": cfg, "ty": ty, "payload": p}
            key = cfg_name(cfg) + terms.ty_sx(ty) + terms.canon_sx(p)
            chk.count(key, nontrivial=not isinstance(ty, str),
                      sample={"cfg": cfg_name(cfg), "type": terms.ty_sx(ty), "payload": terms.canon_sx(p), "outcome": ri[0]})
            chk.note("payload:" + kind, "outcome:" + ri[0], "cfg:" + cfg_name(cfg),
                     "ty:" + (ty if isinstance(ty, str) else ty[0]))
            if has_union:
                chk.note("union-reachable:" + kind + ":" + ri[0])
            if enum_lit:
                chk.note("literal-with-enum-members-reachable:" + kind + ":" + ri[0])
            # ---- oracle: accepted results conform
            if ri[0] in ("ok", "unrep"):
                if not conforms_py(S, ty, ri[2] if ri[0] == "ok" else ri[1]):
                    got = terms.canon_sx(ri[1]) if ri[0] == "ok" else repr(ri[1])[:200]
                    chk.violation(f"C02 oracle: accepted a non-conforming value {got} "
                                  f"[{cfg_name(cfg)} {terms.ty_sx(ty)} payload {terms.canon_sx(p)}]", case)
                    continue
            if ri[0] == "unrep":
                continue
            # ---- correspondence
            rm = S.model_st(cfg, ty, p)
            km = reply_kind(rm)
            if leaf_iterated(w, cfg, ty, p):
                # a str / bytes payload at an iterating position (iterated into characters / ints)
                chk.note("str-bytes-iterated:" + ("unmodelled" if km == "unmodelled" else "compared:" + ri[0]))
            if km == "unmodelled":
                chk.unmodelled += 1
                continue
            oi = ("ok", terms.canon_sx(ri[1])) if ri[0] == "ok" else ("err",)
            om = ("ok", reply_canon(rm)) if km == "ok" else ("err",)
            if oi != om:
                corr_fail.append((case, oi, rm))


def replay_target_witness(chk, drv):
    """theorem C02_baseconverter_target_witness on the real code: `BaseConverter().structure({"a": 1}, OrderedDict[str, int])`
    returns a plain dict (`_structure_dict`) -- mapping types whose target class is not dict are outside a BaseConverter's
    support (the scope condition `MapsInScope` of C02_sound; the generator does not produce them for a BaseConverter) --
    and a Converter returns the OrderedDict / Counter itself (theorem C02_target_class)."""
    S = Session(drv, {"classes": [], "enums": []})
    p = ("d", [(("s", "a"), ("i", 1))])
    for detailed in (True, False):
        for ty, want in ((("odict", "str", "int"), collections.OrderedDict), (("counter", "str"), collections.Counter)):
            cb = {"gen": False, "tuple": False, "detailed": detailed, "forbid": False}
            cg = dict(cb, gen=True)
            chk.count("target-witness" + terms.ty_sx(ty) + str(detailed), nontrivial=True)
            rg = S.impl_st(cg, ty, p)
            if rg[0] != "ok" or type(rg[2]) is not want or not conforms_py(S, ty, rg[2]):
                chk.violation(f"C02 oracle: Converter.structure({{'a': 1}}, {terms.ty_sx(ty)}) gives {rg[0]} {rg[1]!r:.120} "
                              f"instead of a {want.__name__} [{cfg_name(cg)}]", {"world": S.world, "cfg": cg, "ty": ty, "payload": p})
            elif S.model_st(cg, ty, p) != "(ok %s)" % terms.obj_sx(rg[1]):
                chk.violation(f"correspondence corr:C02:ST broken on the target-class witness: impl={terms.canon_sx(rg[1])} "
                              f"model={S.model_st(cg, ty, p)} [{cfg_name(cg)} {terms.ty_sx(ty)}]",
                              {"world": S.world, "cfg": cg, "ty": ty, "payload": p}, found_input=False)
            if ty[0] != "odict":
                continue
            rb = S.impl_st(cb, ty, p)
            if rb[0] == "ok" and type(rb[2]) is dict and S.model_st(cb, ty, p) == "(ok %s)" % terms.obj_sx(rb[1]):
                chk.note("witness:baseconverter-returns-plain-dict-for-OrderedDict-reproduced")
            else:
                chk.note("witness:baseconverter-target-STALE")
                print(f"NOTE C02: the BaseConverter target-class witness no longer reproduces ({rb[0]} {rb[1]!r:.80}, model "
                      f"{S.model_st(cb, ty, p)}): the scope condition `MapsInScope` may have become unnecessary")


def run(chk: framework.Check):
    drv = lean.Driver()
    replay_target_witness(chk, drv)
    n_worlds = 200 if chk.tier == "quick" else 2500
    corr_fail = []
    for G, S, w in streams.worlds(chk, drv, n_worlds, unions=True, nt=True, coercible=True, enum_lits=True,
                                   map_targets=True, class_features=True):
        cases = list(streams.typed_values(chk, G, S, w, n_types=4, n_values=1))
        # every TypedDict class of the world as a type of its own (the type stream draws class types rarely): the ways of
        # spelling requiredness (totality, hierarchies of mixed totality, markers) are per class
        for ci, c in enumerate(w["classes"]):
            if c["kind"] == "td" and c["fields"]:
                try:
                    xv, x = S.realise(G.value(w, ("td", ci), 2, any_stable=True))
                except Exception:
                    continue
                if not gen.lookalike_hazard(x):
                    cases.append((("td", ci), x, xv))
                    chk.note("typeddict-class-as-type")
        if len(chk.violations) >= 8:
            break       # enough failing inputs recorded: stop exploring (a broken cattrs can also be arbitrarily slow)
        for ty, x, xv in cases:
            if S.stats.get("call-timeout"):
                chk.note("world-left-after-call-timeout")
                break
            run_type(chk, G, S, w, ty, x, xv, corr_fail)
    for case, oi, rm in corr_fail[:5]:
        chk.violation(
            f"correspondence corr:C02:ST broken (theorem C02_sound no longer tied to the code): impl={oi} model={rm[:300]} "
            f"[{cfg_name(case['cfg'])} {terms.ty_sx(case['ty'])} {terms.canon_sx(case['payload'])}]",
            case, found_input=False)
    chk.extra["rule"] = ("random worlds x types x {valid, mutated, junk} payloads x 10 converter configurations; "
                         "non-trivial = non-leaf type; distinct by canonical text of (cfg, type, payload)")
    # implementation-only extended stream (unions, NamedTuples, registry hooks, one-shot iterables)
    from harness import ext
    ext.run_c02(chk, 150 if chk.tier == "quick" else 1500)
    # implementation-only: unsupported types (no hook, no converter) at typed positions must raise
    ext.run_c02_unsupported(chk, 120 if chk.tier == "quick" else 1200)
    # implementation-only: hooks built with generator options (use_alias, include_init_false, override(omit=False / rename))
    ext.run_genopts(chk, 150 if chk.tier == "quick" else 1500, "C02")
    # implementation-only: Literal[...] over members of mix-in enums, position-wise equal literals in one process
    ext.run_enum_literals(chk, 40 if chk.tier == "quick" else 400, "C02")
    drv.close()


def replay(case):
    drv = lean.Driver()
    case = terms.case_from_json(case)
    S = Session(drv, case["world"])
    ri = S.impl_st(case["cfg"], case["ty"], case["payload"])
    print("type   :", terms.ty_sx(case["ty"]), "\npayload:", terms.canon_sx(case["payload"]))
    print("impl   :", ri[0], terms.canon_sx(ri[1]) if ri[0] == "ok" else repr(ri[1])[:300])
    print("model  :", S.model_st(case["cfg"], case["ty"], case["payload"]))
    if ri[0] == "ok":
        ok = conforms_py(S, case["ty"], ri[2])
        print("conforms:", ok)
        return 0 if ok else 1
    return 0


if __name__ == "__main__":
    framework.main(run, "C02")
