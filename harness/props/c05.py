"""C05 — detailed validation reports exactly the faulty paths, one leaf error per fault.

Cases: random worlds x types x conforming values; the value is unstructured by the real converter (a *valid
payload*), 1-4 independent faults are injected at random positions (a leaf replaced by a value its type rejects,
a container replaced by a scalar, a required key deleted, extra keys added on a forbid_extra_keys converter
- non-string keys included -, elements appended to a heterogeneous tuple), and the result is structured with
detailed_validation=True on Converter (forbid on/off) and, for class-free types, on BaseConverter.

Implementation observables: the SHAPE of the raised exception-group tree (group kind per node, the note's
name / index / key, which declared type the note's `type` is, leaf-vs-group; never the class or text of a leaf
exception) and the path list produced by the real `cattrs.transform_error`.

Oracle (from the property statement, implementation only): the multiset of reported paths == the multiset of
injected fault paths (hence one message per fault, none for valid siblings); transform_error did not raise; the
raised object is a validation group whose nodes are class-level at class / TypedDict positions and
iterable-level at collection / mapping positions, every noted child's note type is the position's declared type;
a fault-free payload raises nothing.

Correspondence (ties the Lean theorems C05_* to the code): annotated error tree and ordered path list of the
model (`PATHS`) == those of the implementation; the model's `inject` (`FAULTS`) == the harness' injection, and
the model's `app` (hypothesis of C05_exact_paths) holds for the generated fault sets.
"""
from __future__ import annotations

from harness import framework, gen, lean, terms
from harness.datapath import (AttributeValidationNote, ClassValidationError, ForbiddenExtraKeysError,
                              IterableValidationError, IterableValidationNote, Session, cfg_name, cattrs)
from harness.realise import Unrepresentable

from harness.datapath import cfg_key  # noqa: E402
from cattrs.gen import make_dict_structure_fn, make_dict_unstructure_fn, override  # noqa: E402

BaseValidationError = ClassValidationError.__mro__[1]

F_TWO_PHASE = "c05-init-false-faults-lost-behind-init-faults"


def cname(cfg):
    return cfg_name(cfg) + ("/prefer_attrib_converters" if cfg.get("prefer") else "") + (
        "/include_init_false" if cfg.get("incl") else "")


# ------------------------------------------------------------------ converter options that change the class template
# Two rarely used options select other branches of the detailed class template.  Each is run as a *variant*: the real
# classes are the ones of the world, the converter carries the option, and the model (and the fault enumeration) see the
# world through the option -- `view_world`.
#  prefer : Converter(prefer_attrib_converters=True): an attrs attribute with `converter=` has NO structure handler, the raw
#           value is handed to the class (`res[alias] = o[key]`): nothing below it can be faulty, but the key can be
#           missing.  View: such an attribute is an unannotated pass-through attribute (`ty = None`).
#  incl   : hooks made with `_cattrs_include_init_false=True` (or a per-attribute `override(omit=False)`): init=False
#           attributes are read from the payload and assigned after instantiation, inside their own try/annotate/collect
#           block.  View: such an attribute is an ordinary attribute (`init = True`).  The view is exact for fault sets that
#           do not put, at one class position, faults both before and after instantiation (see `two_phase`).

def lit_typed(t):
    t = gen.strip_wraps(t) if t is not None else None
    while t is not None and not isinstance(t, str) and t[0] == "opt":
        t = gen.strip_wraps(t[1])
    return t is not None and not isinstance(t, str) and t[0] == "lit"


def prefer_affected(w):
    return [ci for ci, c in enumerate(w["classes"]) if c["kind"] == "attrs" and any(f.get("idconv") for f in c["fields"])]


def incl_affected(w):
    return [ci for ci, c in enumerate(w["classes"])
            if c["kind"] in ("attrs", "dc") and not c["frozen"] and c.get("recursive") is None
            and any(not f["init"] for f in c["fields"])]


def view_world(w, variant):
    """-> (world as the option makes the template see it, affected classes) | None when the view would not be exact"""
    if variant == "prefer":
        aff = prefer_affected(w)
        if any(f.get("idconv") and lit_typed(f["ty"]) for ci in aff for f in w["classes"][ci]["fields"]):
            return None  # a Literal-typed attribute may be a union discriminator: its type must stay visible
        w2 = dict(w, classes=[dict(c, fields=[dict(f, ty=None) if (ci in aff and f.get("idconv")) else f for f in c["fields"]])
                              for ci, c in enumerate(w["classes"])])
    else:
        aff = incl_affected(w)
        w2 = dict(w, classes=[dict(c, fields=[dict(f, init=True, was_init_false=True) if (ci in aff and not f["init"]) else f
                                              for f in c["fields"]])
                              for ci, c in enumerate(w["classes"])])
    return (w2, aff) if aff else None


class _NoHooks:
    def __init__(self, e):
        self.e = e

    def unstructure(self, *a, **k):
        raise self.e

    structure = unstructure


class VariantSession(Session):
    """the classes and values of a base session, converters carrying the variant's option, the view world for the model"""

    def __init__(self, S, variant, w_view, affected, how):
        self.drv, self.R, self.base, self.base_world = S.drv, S.R, S, S.world
        self.world, self.variant, self.affected, self.how = w_view, variant, affected, how
        self.convs = {}

    def load(self):
        r = self.drv.ask("WORLD " + terms.world_sx(self.world))
        if r != "ok":
            raise RuntimeError("model rejected the view world: " + r)

    def conv(self, cfg):
        k = cfg_key(cfg)
        if k in self.convs:
            return self.convs[k]
        if self.variant == "prefer":
            c = cattrs.Converter(detailed_validation=cfg["detailed"], forbid_extra_keys=bool(cfg.get("forbid")),
                                 prefer_attrib_converters=True)
        else:
            c = cattrs.Converter(detailed_validation=cfg["detailed"], forbid_extra_keys=bool(cfg.get("forbid")))
            try:
                for ci in self.affected:  # (classes only refer to earlier ones: hooks of nested classes exist when looked up)
                    cl = self.R.classes[ci]
                    if self.how[ci] == "flag":
                        kw = {"_cattrs_include_init_false": True}
                    else:
                        kw = {f["name"]: override(omit=False) for f in self.base_world["classes"][ci]["fields"] if not f["init"]}
                    c.register_unstructure_hook(cl, make_dict_unstructure_fn(cl, c, **kw))
                    c.register_structure_hook(cl, make_dict_structure_fn(cl, c, **kw))
            except Exception as e:  # noqa: BLE001  a class of the world has no hooks at all (e.g. an ambiguous union inside)
                c = _NoHooks(e)
        self.convs[k] = c
        return c


def node_field(w, ty, path):
    """the attribute (class#, field) addressed by the LAST segment of `path` when it is an attribute segment"""
    t = ty
    out = None
    for s in path:
        out = None
        while t is not None and not isinstance(t, str) and (t[0] == "opt" or t[0] in WRAPS):
            t = t[1]
        if t is None or isinstance(t, str):
            return None
        if t[0] == "nt":
            t = nt_as_tup(w, t)
        if s[0] == "a":
            if t[0] not in ("cls", "td"):
                return None
            f = field_named(w["classes"][t[1]], s[1])
            if f is None:
                return None
            out = (t[1], f)
            t = f["ty"]
        elif t[0] == "tup":
            i = s[1][1] if s[1][0] == "i" else None
            if i is None or not (0 <= i < len(t[1])):
                return None
            t = t[1][i]
        elif t[0] in MAPS:
            t = t[2]
        elif t[0] in SEQ or t[0] in SETS:
            t = t[1]
        else:
            return None
    return out


def two_phase(w_view, ty, faults):
    """indices of the faults that sit at / below an attribute assigned AFTER instantiation (init=False, included) of a class
    position that also has a fault reported BEFORE instantiation (an init attribute, a missing key, extra keys)"""
    phases = {}       # class position -> {1: [...], 2: [...]}
    for ix, f in enumerate(faults):
        segs = f["path"]
        if f["kind"] in ("miss", "extra"):
            phases.setdefault(tuple(map(repr, segs)), {1: [], 2: []})[1].append(ix)
        for i, s in enumerate(segs):
            if s[0] != "a":
                continue
            nf = node_field(w_view, ty, segs[: i + 1])
            if nf is None:
                continue
            ph = 2 if nf[1].get("was_init_false") else 1
            phases.setdefault(tuple(map(repr, segs[:i])), {1: [], 2: []})[ph].append(ix)
    lost = set()
    for d in phases.values():
        if d[1] and d[2]:
            lost.update(d[2])
    return sorted(lost)


@framework.finding(F_TWO_PHASE)
def two_phase_pred(case) -> bool:
    """hooks that include init=False attributes; the ONLY deviation is that exactly the faults at / below init=False
    attributes of class positions that also have a pre-instantiation fault are not reported"""
    return (isinstance(case, dict) and (case.get("cfg") or {}).get("incl") is True and case.get("deviation") == "paths"
            and bool(case.get("lost_paths")) and not case.get("spurious_paths")
            and sorted(case.get("lost_paths")) == sorted(case.get("two_phase_paths") or []))

CFGS = [
    {"gen": True, "tuple": False, "detailed": True, "forbid": False},
    {"gen": True, "tuple": False, "detailed": True, "forbid": True},
    {"gen": False, "tuple": False, "detailed": True, "forbid": False},
]

SEQ = ("list", "seq", "mseq", "tup*", "deque")
SETS = ("set", "mset", "fset")
MAPS = ("dict", "map", "mmap")
WRAPS = ("new", "ann", "final", "alias")
COLL_TAGS = ("l", "t", "q", "S", "F")


# ------------------------------------------------------------------ paths

def seg_sx(s):
    return "(a %s)" % terms.esc(s[1]) if s[0] == "a" else "(i %s)" % terms.obj_sx(s[1])


def path_sx(p):
    return "(" + " ".join(seg_sx(s) for s in p) + ")"


def fault_sx(f):
    k = f["kind"]
    if k == "bad":
        return "(bad %s %s)" % (path_sx(f["path"]), terms.obj_sx(f["v"]))
    if k == "miss":
        return "(miss %s %s)" % (path_sx(f["path"]), terms.esc(f["key"]))
    if k == "extra":
        return "(extra %s %s)" % (path_sx(f["path"]), " ".join("(%s %s)" % (terms.obj_sx(a), terms.obj_sx(b)) for a, b in f["kvs"]))
    if k == "arity":
        return "(arity %s %s)" % (path_sx(f["path"]), " ".join(terms.obj_sx(x) for x in f["xs"]))
    raise ValueError(f)


def render_path(R, p):
    """the text transform_error must produce for this position: `$`, `.name` per attribute, `[repr]` per index / key"""
    out = "$"
    for s in p:
        out += "." + s[1] if s[0] == "a" else "[%r]" % (R.val(s[1]),)
    return out


def report_path(f):
    return f["path"] + [("a", f["key"])] if f["kind"] == "miss" else f["path"]


# ------------------------------------------------------------------ fault sites

def rejecting_value(rng, w, t, none_ok=False, in_set=False):
    """a value the leaf type t rejects with a plain exception (None if t accepts everything).
    none_ok: the position is Optional, None is a valid value there; in_set: the value must be hashable"""
    if isinstance(t, str):
        if t in ("int", "float"):
            c = [("s", "x"), ("N",), ("s", "1z"), ("l", []), ("s", ""), ("s", "-"), ("y", "78")]
        elif t == "bytes":
            c = [("s", "x"), ("N",), ("i", -1), ("f", 3), ("s", "")]
        else:
            return None  # str, bool, any accept everything
    elif t[0] == "enum":
        c = [("s", "qq"), ("i", 77), ("l", []), ("N",)]
    elif t[0] == "lit":
        c = [("s", "qq"), ("i", 77), ("N",), ("f", 9)]
    else:
        return None
    c = [v for v in c if not (none_ok and v[0] == "N") and not (in_set and v[0] == "l")]
    return rng.choice(c)


def sites(rng, w, cfg, t, p, path, out, in_set=False, none_ok=False):
    """enumerate the positions where a fault can be injected into the valid payload p of type t"""
    if len(path) > 6:
        return
    if isinstance(t, str) or t[0] in ("enum", "lit"):
        v = rejecting_value(rng, w, t, none_ok, in_set)
        if v is not None:
            out.append({"kind": "bad", "path": path, "v": v, "in_set": in_set, "what": "leaf"})
        return
    k = t[0]
    if k == "nt":
        # a NamedTuple position is the heterogeneous tuple of the field types (bad items by index, wrong arity)
        return sites(rng, w, cfg, nt_as_tup(w, t), p, path, out, in_set, none_ok)
    if k == "opt":
        if p[0] == "N":
            inner = gen.strip_wraps(t[1])
            if not isinstance(inner, str) and inner[0] == "opt":
                return
            v = rejecting_value(rng, w, inner, True, in_set)
            if v is not None:
                out.append({"kind": "bad", "path": path, "v": v, "in_set": in_set, "what": "leaf"})
            return
        return sites(rng, w, cfg, t[1], p, path, out, in_set, True)
    if k in WRAPS:
        return sites(rng, w, cfg, t[1], p, path, out, in_set, none_ok)
    if k == "union":
        # the union hook's decision function only takes mappings: a scalar is rejected with a bare exception, reported at
        # the union position itself.  Edits *below* a union position may change the member chosen: outside the fault model.
        if not in_set and p[0] in ("d", "N"):
            out.append({"kind": "bad", "path": path, "v": rng.choice([("i", 7), ("f", 3)]), "in_set": False,
                        "what": "scalar-for-union"})
        return
    scalar = rng.choice([("i", 7), ("f", 3)] + ([] if none_ok else [("N",)]))
    if k in SEQ or k in SETS:
        if p[0] not in COLL_TAGS or t[1] == "any":
            return
        if not in_set:
            out.append({"kind": "bad", "path": path, "v": scalar, "in_set": False, "what": "scalar-for-collection"})
        for i, x in enumerate(p[1]):
            sites(rng, w, cfg, t[1], x, path + [("i", ("i", i))], out, in_set or p[0] in ("S", "F"))
        return
    if k == "tup":
        if p[0] != "t":
            return
        out.append({"kind": "arity", "path": path, "xs": [rng.choice([("i", 1), ("s", "x"), ("N",)]) for _ in range(rng.randint(1, 2))],
                    "in_set": in_set, "what": "arity"})
        for i, (tt, x) in enumerate(zip(t[1], p[1])):
            sites(rng, w, cfg, tt, x, path + [("i", ("i", i))], out, in_set)
        return
    if k in MAPS:
        if p[0] != "d" or (t[1] == "any" and t[2] == "any"):
            return
        out.append({"kind": "bad", "path": path, "v": scalar, "in_set": in_set, "what": "scalar-for-mapping"})
        for kk, v in p[1]:
            sites(rng, w, cfg, t[2], v, path + [("i", kk)], out, in_set)
        return
    if k in ("cls", "td"):
        if p[0] != "d" or not cfg["gen"]:
            return
        c = w["classes"][t[1]]
        present = {kk[1]: v for kk, v in p[1] if kk[0] == "s"}
        names = [f["name"] for f in c["fields"]]
        for f in c["fields"]:
            if k == "cls" and not f["init"]:
                continue
            if f["name"] not in present:
                continue
            required = (f["dflt"] is None) if k == "cls" else f.get("required", True)
            if required:
                out.append({"kind": "miss", "path": path, "key": f["name"], "in_set": in_set, "what": "missing-key"})
            if f["ty"] is not None:
                sites(rng, w, cfg, f["ty"], present[f["name"]], path + [("a", f["name"])], out, in_set)
        if cfg.get("forbid"):
            pool = [("s", "zz"), ("s", "a2"), ("s", rng.choice(names) + "x" if names else "q"), ("i", 3), ("N",), ("b", True),
                    ("f", 5), ("y", "62"), ("s", "")]
            rng.shuffle(pool)
            kvs = []
            for cand in pool[: rng.randint(1, 3)]:
                if cand[0] == "s" and cand[1] in names:
                    continue
                if any(gen.py_eq(cand, k0) for k0, _ in p[1]) or any(gen.py_eq(cand, k0) for k0, _ in kvs):
                    continue
                kvs.append((cand, rng.choice([("i", 1), ("N",), ("s", "v"), ("l", [])])))
            if kvs:
                out.append({"kind": "extra", "path": path, "kvs": kvs, "in_set": in_set,
                            "what": "extra-keys" + ("(non-str)" if any(a[0] != "s" for a, _ in kvs) else "")})
        return


def nt_as_tup(w, t):
    return ("tup", [f["ty"] if f["ty"] is not None else "any" for f in w["classes"][t[1]]["fields"]])


def zone(f):
    """the subtree a fault claims for itself (no other fault may sit at or below it)"""
    if f["kind"] == "bad":
        return f["path"]
    if f["kind"] == "miss":
        return f["path"] + [("a", f["key"])]
    return None


def is_prefix(a, b):
    return len(a) <= len(b) and b[: len(a)] == a


def independent(f, chosen):
    for c in chosen:
        if f.get("in_set") and c.get("in_set") and f["path"][:-1] == c["path"][:-1] and gen.py_eq(f["v"], c["v"]):
            return False  # two equal values would collapse into one set element
        if f["kind"] == c["kind"] and f["path"] == c["path"] and f.get("key") == c.get("key"):
            return False
        zc, zf = zone(c), zone(f)
        if zc is not None and (is_prefix(zc, f["path"]) or (zf is not None and is_prefix(zc, zf))):
            return False
        if zf is not None and (is_prefix(zf, c["path"]) or (zc is not None and is_prefix(zf, zc))):
            return False
    return True


def choose_faults(rng, all_sites, k):
    rng.shuffle(all_sites)
    # prefer deep sites now and then, so that depth <= 4 is really reached
    if rng.random() < 0.5:
        all_sites.sort(key=lambda f: -len(f["path"]) + rng.random() * 2)
    chosen = []
    skip_top = len(all_sites) > 1 and rng.random() < 0.85  # a replaced root excludes every other fault
    for f in all_sites:
        if len(chosen) >= k:
            break
        if len(f["path"]) > 4 or (skip_top and not f["path"] and f["kind"] == "bad"):
            continue
        if independent(f, chosen):
            chosen.append(f)
    return chosen


# ------------------------------------------------------------------ the harness' own injection

def seg_key(s):
    return ("s", s[1]) if s[0] == "a" else s[1]


def inject_py(p, faults):
    here = [f for f in faults if not f["path"]]
    for f in here:
        if f["kind"] == "bad":
            return f["v"]
    tag = p[0]
    if tag in COLL_TAGS:
        xs = []
        for i, x in enumerate(p[1]):
            sub = [dict(f, path=f["path"][1:]) for f in faults if f["path"] and seg_key(f["path"][0]) == ("i", i)]
            xs.append(inject_py(x, sub) if sub else x)
        for f in here:
            if f["kind"] == "arity":
                xs += f["xs"]
        return (tag, xs)
    if tag == "d":
        missing = {f["key"] for f in here if f["kind"] == "miss"}
        kvs = []
        for kk, v in p[1]:
            if kk[0] == "s" and kk[1] in missing:
                continue
            sub = [dict(f, path=f["path"][1:]) for f in faults if f["path"] and seg_key(f["path"][0]) == kk]
            kvs.append((kk, inject_py(v, sub) if sub else v))
        for f in here:
            if f["kind"] == "extra":
                kvs += f["kvs"]
        return ("d", kvs)
    return p


# ------------------------------------------------------------------ implementation observables

def same_type(a, b):
    try:
        return a is b or a == b
    except Exception:  # noqa: BLE001
        return False


def first_note(exc, cls):
    for n in getattr(exc, "__notes__", []):
        if n.__class__ is cls:
            return n
    return None


def plain_tree(R, exc):
    if isinstance(exc, ClassValidationError):
        out = []
        for sub in exc.exceptions:
            n = first_note(sub, AttributeValidationNote)
            out.append("(%s %s %s)" % (terms.esc(n.name) if n is not None else "-", "?" if n is not None else "-", plain_tree(R, sub)))
        return "(" + " ".join(["cve"] + out) + ")"
    if isinstance(exc, IterableValidationError):
        out = []
        for sub in exc.exceptions:
            n = first_note(sub, IterableValidationNote)
            out.append("(%s %s %s)" % (idx_sx(R, n), "?" if n is not None else "-", plain_tree(R, sub)))
        return "(" + " ".join(["ive"] + out) + ")"
    if isinstance(exc, ForbiddenExtraKeysError):
        try:
            ks = sorted(terms.canon_sx(R.abs(k)) for k in exc.extra_fields)
        except Unrepresentable:
            ks = ["?"]
        return "(" + " ".join(["extra"] + ks) + ")"
    return "(leaf)"


def idx_sx(R, note):
    if note is None:
        return "-"
    try:
        return terms.canon_sx(R.abs(note.index))
    except Unrepresentable:
        return "?"


def iter_items(p):
    if p is None:
        return []
    if p[0] in COLL_TAGS:
        return p[1]
    if p[0] == "d":
        return [k for k, _ in p[1]]
    return []


def field_named(c, n):
    for f in c["fields"]:
        if f["name"] == n:
            return f
    return None


class Shape:
    """walks the raised exception next to the declared type; `bad` collects what the property forbids"""

    def __init__(self, S, w, cfg=None):
        self.S, self.R, self.w, self.cfg = S, S.R, w, cfg
        self.bad = []

    def role(self, note, expected_abs, name, lenient=False):
        try:
            exp = self.R.ty(expected_abs)
        except Exception:  # noqa: BLE001
            return name
        if same_type(note.type, exp) or lenient:
            return name
        self.bad.append("note type %r is not the declared type %r" % (note.type, exp))
        return "WRONG"

    def tree(self, t, p, exc, lenient=False):
        """lenient: we are inside an annotation that cattrs holds in resolved form (see below)"""
        R, w = self.R, self.w
        while not isinstance(t, str) and t is not None and (t[0] == "opt" or t[0] in WRAPS):
            t = t[1]
        if not isinstance(t, str) and t is not None and t[0] == "nt":
            t = nt_as_tup(w, t)  # the group raised at a NamedTuple position is the heterogeneous-tuple hook's
        is_group = isinstance(exc, BaseValidationError)
        kind = None if (t is None or isinstance(t, str)) else t[0]
        if isinstance(exc, IterableValidationError) and kind in SEQ + SETS + ("tup",) + MAPS:
            out = []
            items = iter_items(p)
            for sub in exc.exceptions:
                n = first_note(sub, IterableValidationNote)
                ix = idx_sx(R, n)
                if n is None:
                    if kind != "tup" or isinstance(sub, BaseValidationError):
                        self.bad.append("un-noted child in an iterable group at a %s position" % kind)
                    out.append("(- - %s)" % plain_tree(R, sub))
                    continue
                if kind in MAPS:
                    if p is None or p[0] != "d":
                        out.append("(%s ? %s)" % (ix, plain_tree(R, sub)))
                        continue
                    try:
                        ka = R.abs(n.index)
                    except Unrepresentable:
                        ka = None
                    ent = [(a, b) for a, b in p[1] if a == ka]
                    if not ent:
                        self.bad.append("note key is not a key of the payload")
                        out.append("(%s ? %s)" % (ix, plain_tree(R, sub)))
                        continue
                    a, b = ent[0]
                    if t[1] == t[2]:
                        r = self.role(n, t[2], "kv", lenient)
                        out.append("(%s %s %s)" % (ix, r, self.tree(t[2], b, sub, lenient)))
                    elif same_type(n.type, R.ty(t[2])) or (lenient and isinstance(sub, BaseValidationError)):
                        out.append("(%s val %s)" % (ix, self.tree(t[2], b, sub, lenient)))
                    elif same_type(n.type, R.ty(t[1])):
                        out.append("(%s key %s)" % (ix, self.tree(t[1], a, sub, lenient)))
                    elif lenient:
                        # resolved annotation differs from the declared one: decide by what failed
                        try:
                            self.S.conv(self.cfg).structure(R.val(b), R.ty(t[2]))
                            out.append("(%s key %s)" % (ix, self.tree(t[1], a, sub, lenient)))
                        except Exception:  # noqa: BLE001
                            out.append("(%s val %s)" % (ix, self.tree(t[2], b, sub, lenient)))
                    else:
                        self.bad.append("mapping note type %r is neither key nor value type" % (n.type,))
                        out.append("(%s WRONG %s)" % (ix, plain_tree(R, sub)))
                    continue
                i = n.index if n.index.__class__ is int else None
                if i is None or i < 0:
                    self.bad.append("index note %r at a sequence position" % (n.index,))
                    out.append("(%s ? %s)" % (ix, plain_tree(R, sub)))
                    continue
                if kind == "tup":
                    if i >= len(t[1]):
                        self.bad.append("index beyond the tuple type")
                        out.append("(%s ? %s)" % (ix, plain_tree(R, sub)))
                        continue
                    et = t[1][i]
                else:
                    et = t[1]
                r = self.role(n, et, "elem", lenient)
                out.append("(%s %s %s)" % (ix, r, self.tree(et, items[i] if i < len(items) else None, sub, lenient)))
            return "(" + " ".join(["ive"] + out) + ")"
        if isinstance(exc, ClassValidationError) and kind in ("cls", "td"):
            c = w["classes"][t[1]]
            out = []
            for sub in exc.exceptions:
                n = first_note(sub, AttributeValidationNote)
                if n is None:
                    if isinstance(sub, BaseValidationError):
                        self.bad.append("un-noted group inside a class-level group")
                    out.append("(- - %s)" % plain_tree(R, sub))
                    continue
                f = field_named(c, n.name)
                if f is None:
                    self.bad.append("attribute note %r names no attribute of the class" % (n.name,))
                    out.append("(%s ? %s)" % (terms.esc(n.name), plain_tree(R, sub)))
                    continue
                subp = None
                if p is not None and p[0] == "d":
                    for a, b in p[1]:
                        if a == ("s", f["name"]):
                            subp = b
                            break
                if f["ty"] is None:
                    out.append("(%s field %s)" % (terms.esc(n.name), plain_tree(R, sub)))
                    continue
                # a recursive class spells its own name as typing.Self / a string; cattrs then holds the annotations as
                # resolved by attrs.resolve_types / typing.get_type_hints (which also drop Annotated[...] from every
                # field of that class): compare leniently there
                len2 = bool(c.get("recursive"))
                r = self.role(n, f["ty"], "field", lenient=len2)
                out.append("(%s %s %s)" % (terms.esc(n.name), r, self.tree(f["ty"], subp, sub, len2)))
            return "(" + " ".join(["cve"] + out) + ")"
        if is_group:
            self.bad.append("%s at a %s position" % (exc.__class__.__name__, kind or t))
        return plain_tree(R, exc)


def impl_paths(exc):
    """paths of the messages of the real transform_error -> (list | None, error text)"""
    try:
        msgs = cattrs.transform_error(exc)
    except Exception as e:  # noqa: BLE001
        return None, "%s: %s" % (e.__class__.__name__, e)
    out = []
    for m in msgs:
        if not isinstance(m, str) or " @ " not in m:
            return None, "malformed message %r" % (m,)
        out.append(m.rsplit(" @ ", 1)[1])
    return out, None


# ------------------------------------------------------------------ one case

def class_free(w, t):
    return not gen.type_classes(t)


def model_paths(S, cfg, ty, p):
    return S.drv.ask("PATHS %s %s %s" % (terms.cfg_sx(cfg), terms.ty_sx(ty), terms.obj_sx(p)))


def model_faults(S, cfg, ty, p0, faults):
    return S.drv.ask("FAULTS %s %s %s %s" % (terms.cfg_sx(cfg), terms.ty_sx(ty), terms.obj_sx(p0),
                                             " ".join(fault_sx(f) for f in faults)))


def px_str(x):
    """parsed reply term -> canonical text again"""
    if isinstance(x, tuple):
        return terms.esc(x[1])
    if isinstance(x, list):
        return "(" + " ".join(px_str(y) for y in x) + ")"
    return x


def fix_set_indices(faults, p1):
    """Sets have no positions of their own: the index cattrs reports is the iteration position in the payload it
    was given.  Rewrite the index of every fault that sits in a set to the position its bad value has in the
    re-read payload p1."""
    out = []
    for f in faults:
        if not f.get("in_set"):
            out.append(f)
            continue
        node = p1
        path = []
        ok = True
        for si, s in enumerate(f["path"]):
            if node[0] in ("S", "F"):
                target = f["v"] if si == len(f["path"]) - 1 else None
                if target is None:
                    ok = False
                    break
                pos = [i for i, x in enumerate(node[1]) if x == target]
                if len(pos) != 1:
                    ok = False
                    break
                path.append(("i", ("i", pos[0])))
                node = node[1][pos[0]]
            elif node[0] in COLL_TAGS:
                i = s[1][1]
                path.append(s)
                node = node[1][i]
            elif node[0] == "d":
                nxt = [v for k, v in node[1] if k == seg_key(s)]
                if not nxt:
                    ok = False
                    break
                path.append(s)
                node = nxt[0]
            else:
                ok = False
                break
        if not ok:
            return None
        out.append(dict(f, path=path))
    return out


def run_case(chk, S, w, cfg, ty, p0, faults, corr_fail, case_extra=None):
    """-> True when the case was evaluated"""
    R = S.R
    p1_abs0 = inject_py(p0, faults)
    try:
        p1v, p1 = S.realise(p1_abs0)
    except Exception:  # noqa: BLE001
        chk.note("injected-payload-not-realisable")
        return False
    if gen.lookalike_hazard(p1):
        chk.unmodelled += 1
        return False
    any_set = any(f.get("in_set") for f in faults)
    eff = fix_set_indices(faults, p1) if any_set else faults
    if eff is None:
        chk.note("set-fault-not-locatable")
        return False
    case = {"world": getattr(S, "base_world", w), "cfg": cfg, "ty": ty, "payload": p0, "faults": faults}
    if isinstance(S, VariantSession):
        case["variant_how"] = {str(k): v for k, v in S.how.items()}
    label = "[%s %s payload=%s faults=%s]" % (cname(cfg), terms.ty_sx(ty), terms.canon_sx(p0)[:300],
                                             " ".join(fault_sx(f) for f in faults)[:400])
    expected = sorted(render_path(R, report_path(f)) for f in eff)

    # ---- implementation
    r = S.impl_st(cfg, ty, p1, payload=p1v)
    for f in faults:
        chk.note("fault:" + f["what"], "fault-depth:%d" % len(f["path"]))
    chk.note("faults:%d" % len(faults), "cfg:" + cname(cfg), "ty:" + (ty if isinstance(ty, str) else ty[0]))
    if isinstance(S, VariantSession):
        for f in faults:
            nf = node_field(S.base_world, ty, report_path(f)) if report_path(f) and report_path(f)[-1][0] == "a" else None
            if nf is not None and S.variant == "prefer" and nf[1].get("idconv") and f["kind"] == "miss":
                chk.note("fault:missing-key-of-a-handler-less-attribute")
            if S.variant == "incl" and any(
                    (node_field(S.world, ty, f["path"][: i + 1]) or (None, {}))[1].get("was_init_false")
                    for i, s_ in enumerate(f["path"]) if s_[0] == "a"):
                chk.note("fault:at-or-below-an-included-init=False-attribute")
    if gen.has_enum_lit(w, ty):
        chk.note("literal-with-enum-members-reachable")
    for t_ in set(t if isinstance(t, str) else t[0] for rt in gen.reach_types(w, ty) for t in gen.walk_types(rt)):
        if t_ in ("nt", "tup", "td", "cls", "union"):
            chk.note("reaches:" + t_)
    key = cname(cfg) + terms.ty_sx(ty) + terms.canon_sx(p1)
    nontrivial = not isinstance(ty, str)
    tp = two_phase(w, ty, eff) if cfg.get("incl") else []
    if r[0] != "err":
        chk.count(key, nontrivial=nontrivial)
        chk.violation("C05 oracle: %d injected fault(s) but structure() raised nothing %s" % (len(faults), label), case)
        return True
    exc = r[1]
    sh = Shape(S, w, cfg)
    itree = sh.tree(ty, p1, exc)
    ipaths, terr = impl_paths(exc)
    chk.count(key, nontrivial=nontrivial,
              sample=({"cfg": cname(cfg), "type": terms.ty_sx(ty), "payload": terms.canon_sx(p1)[:200],
                       "faults": [fault_sx(f) for f in faults], "paths": ipaths} if len(faults) >= 3 else None))
    # ---- oracle (implementation only)
    bad = False
    if terr is not None:
        bad = chk.violation("C05 oracle: transform_error raised %s %s" % (terr, label), case) or bad
    else:
        if sorted(ipaths) != expected:
            rest = list(ipaths)
            lost = []
            for e_ in expected:
                if e_ in rest:
                    rest.remove(e_)
                else:
                    lost.append(e_)
            facts = {"deviation": "paths", "lost_paths": lost, "spurious_paths": rest,
                     "two_phase_paths": [render_path(R, report_path(eff[i])) for i in tp]}
            bad = chk.violation("C05 oracle: reported paths %s != injected fault paths %s %s" % (sorted(ipaths), expected, label),
                                dict(case, **facts)) or bad
    top_is_leaf_fault = len(faults) == 1 and faults[0]["kind"] == "bad" and not faults[0]["path"]
    if not top_is_leaf_fault and not isinstance(exc, BaseValidationError):
        bad = chk.violation("C05 oracle: raised %s instead of a validation group %s" % (exc.__class__.__name__, label), case) or bad
    if sh.bad:
        bad = chk.violation("C05 oracle: group shape: %s %s" % ("; ".join(sh.bad[:3]), label), case) or bad
    if tp:
        # faults on both sides of the instantiation at one class position: outside what the view world models (the recorded
        # finding about the two reporting phases); the oracle above has judged the case
        chk.note("scope:two-phase(oracle only)")
        return True
    # ---- correspondence
    rf = model_faults(S, cfg, ty, p0, faults)
    if rf == "unmodelled" or not rf.startswith("("):
        chk.unmodelled += 1
        chk.note("model:unmodelled")
        return True
    pf = terms.parse_sx(rf)
    inj = terms.canon_sx(terms.obj_of_px(pf[0][1]))
    app, valid = pf[1][1] == "1", pf[2][1] == "1"
    rp = sorted(x[1] for x in pf[3][1:])
    if inj != terms.canon_sx(p1):
        corr_fail.append((case, "FAULTS", "inject: model %s harness %s" % (inj[:300], terms.canon_sx(p1)[:300])))
        return True
    if not valid:
        corr_fail.append((case, "FAULTS", "model rejects the fault-free payload that the implementation accepts"))
        return True
    if not app:
        chk.note("scope:not-applicable-in-model")
        chk.extra["out_of_scope"] = chk.extra.get("out_of_scope", 0) + 1
    else:
        chk.note("scope:applicable")
        if not any_set and rp != sorted(render_path(R, report_path(f)) for f in faults):
            corr_fail.append((case, "FAULTS", "report paths: model %s harness %s" % (rp, expected)))
            return True
    rm = model_paths(S, cfg, ty, p1)
    if rm == "unmodelled":
        chk.unmodelled += 1
        chk.note("model:unmodelled")
        return True
    if not rm.startswith("(err"):
        corr_fail.append((case, "PATHS", "impl raised, model %s" % rm[:200]))
        return True
    pm = terms.parse_sx(rm)
    mtree = px_str(pm[1])
    mpaths = [x[1] for x in pm[2][1:]]
    mleaves = int(pm[3][1])
    mshape = pm[4][1] == "1"
    if mtree != itree:
        corr_fail.append((case, "PATHS", "tree: impl %s model %s" % (itree[:400], mtree[:400])))
    elif ipaths is not None and mpaths != ipaths:
        corr_fail.append((case, "PATHS", "paths: impl %s model %s" % (ipaths, mpaths)))
    elif app and (not mshape or mleaves != len(faults)):
        corr_fail.append((case, "PATHS", "model breaks its own theorem: shape=%s leaves=%d faults=%d" % (mshape, mleaves, len(faults))))
    return True


def valid_payload(chk, S, w, cfg, ty, x, xv, spurious):
    """unstructure x with the real converter; the payload must structure back without any error"""
    u = S.impl_un(cfg, ty, x, x=xv)
    if u[0] != "ok":
        chk.note("unstructure-failed(skipped)")
        return None
    p0 = u[1]
    if gen.lookalike_hazard(p0):
        chk.unmodelled += 1
        return None
    r = S.impl_st(cfg, ty, p0, payload=u[2])
    if r[0] == "err":
        # C05_no_spurious: a fault-free payload raises nothing.  If only the detailed template raises, that is ours.
        rfast = S.impl_st(dict(cfg, detailed=False), ty, p0, payload=u[2])
        if rfast[0] != "err":
            spurious.append(({"world": getattr(S, "base_world", w), "cfg": cfg, "ty": ty, "payload": p0, "faults": []}, r[1]))
        else:
            chk.note("valid-payload-rejected-in-both-modes(skipped)")
        return None
    return p0


def case_types(chk, G, S, w, n_types):
    """types and conforming values; half of the types are built around a class of the world so that class-level
    groups, missing and extra keys are exercised at every nesting"""
    rng = chk.rng
    for _ in range(n_types):
        if w["classes"] and rng.random() < 0.55:
            ci = rng.randrange(len(w["classes"]))
            ty = ({"td": "td", "nt": "nt"}.get(w["classes"][ci]["kind"], "cls"), ci)
            for _ in range(rng.randint(0, 2)):
                c = rng.random()
                if c < 0.3:
                    ty = (rng.choice(SEQ), ty)
                elif c < 0.5:
                    ty = (rng.choice(MAPS), rng.choice(["str", "int"]), ty)
                elif c < 0.65:
                    ty = ("tup", [ty, G.type(w, 1)] if rng.random() < 0.5 else [G.type(w, 0), ty])
                elif c < 0.8 and ty[0] != "opt":
                    ty = ("opt", ty)
                else:
                    ty = (rng.choice(WRAPS), ty)
        else:
            ty = G.type(w, rng.randint(1, 4))
        x0 = G.value(w, ty, 3, any_stable=True)
        try:
            xv, x = S.realise(x0)
        except Exception:  # noqa: BLE001
            chk.note("value-not-realisable")
            continue
        if gen.lookalike_hazard(x):
            chk.unmodelled += 1
            continue
        yield ty, x, xv


def worlds(chk, drv, n_worlds):
    """like streams.worlds; generator features that belong to other properties are normalised away: a bare `Final`
    attribute (dispatch on the class of the default) is spelled `Final[<that class>]`"""
    G = gen.Gen(chk.rng, max_depth=4, unions=True, nt=True, enum_lits=True)
    made = attempts = 0
    while made < n_worlds and attempts < n_worlds * 3:
        attempts += 1
        w = G.world()
        for c in w["classes"]:
            for f in c["fields"]:
                f.pop("bare_final", None)
            if c["kind"] == "attrs" and chk.rng.random() < 0.4:
                # attrs attributes with `converter=` (the identity: invisible to a default converter), required ones
                # included -- under prefer_attrib_converters=True they have no structure handler
                for f in c["fields"]:
                    if chk.rng.random() < 0.5 and not lit_typed(f["ty"]):
                        f["idconv"] = True
        try:
            S = Session(drv, w)
        except Exception:  # noqa: BLE001
            chk.note("world-rejected-by-python")
            continue
        made += 1
        yield G, S, w


def two_phase_witness(chk):
    """the Lean witness C05_two_phase_witness on the implementation, on every run (implementation only): does the real
    detailed template still drop the fault of an included init=False attribute behind a fault of an init attribute?"""
    import attrs

    @attrs.define
    class W2P:
        a: int
        b: int = attrs.field(default=5, init=False)

    out = {}
    for how, kw in (("flag", {"_cattrs_include_init_false": True}), ("override", {"b": override(omit=False)})):
        c = cattrs.Converter(detailed_validation=True)
        c.register_structure_hook(W2P, make_dict_structure_fn(W2P, c, **kw))
        res = []
        for payload in ({"a": "q", "b": "q"}, {"a": 1, "b": "q"}, {"a": 1, "b": 2}):
            try:
                c.structure(payload, W2P)
                res.append([])
            except Exception as e:  # noqa: BLE001
                res.append(sorted(impl_paths(e)[0] or ["?"]))
        out[how] = res
        chk.count("two-phase-witness:" + how, nontrivial=True)
        if res[1] != ["$.b"] or res[2] != []:
            chk.violation("C05 oracle: an included init=False attribute: bad value alone reported as %s (expected ['$.b']), valid payload "
                          "reported as %s [%s]" % (res[1], res[2], how), {"check": "two-phase-witness", "how": how})
    reproduced = all(r[0] == ["$.a"] for r in out.values())
    chk.extra["two_phase_witness"] = {"paths": out, "reproduced": reproduced}
    if not reproduced and any(f.get("signature") == F_TWO_PHASE for f in chk.known):
        print("NOTE C05: the recorded two-phase finding no longer reproduces on its witness (stale entry?)")


def reach_classes(w, ty):
    out = set()
    for t in gen.reach_types(w, ty):
        out.update(gen.type_classes(t))
    return out


def variant_site(V, ty, f):
    """is the fault site one that only the variant's branch of the class template handles?"""
    if V.variant == "prefer":
        if f["kind"] != "miss":
            return False
        nf = node_field(V.base_world, ty, report_path(f))
        return nf is not None and bool(nf[1].get("idconv"))
    return any((node_field(V.world, ty, f["path"][: i + 1]) or (None, {}))[1].get("was_init_false")
               for i, s_ in enumerate(f["path"]) if s_[0] == "a")


VARIANT_CFGS = {
    "prefer": [{"gen": True, "tuple": False, "detailed": True, "forbid": False, "prefer": True},
               {"gen": True, "tuple": False, "detailed": True, "forbid": True, "prefer": True}],
    "incl": [{"gen": True, "tuple": False, "detailed": True, "forbid": False, "incl": True},
             {"gen": True, "tuple": False, "detailed": True, "forbid": True, "incl": True}],
}


def views(chk, S, w):
    """the base session, then one view per converter option that selects another branch of the detailed class template"""
    yield S, w, CFGS
    for variant in ("prefer", "incl"):
        vw = view_world(w, variant)
        if vw is None:
            continue
        how = {ci: chk.rng.choice(["flag", "override"]) for ci in vw[1]} if variant == "incl" else {}
        yield VariantSession(S, variant, vw[0], vw[1], how), vw[0], VARIANT_CFGS[variant]


def run(chk: framework.Check):
    drv = lean.Driver()
    quick = chk.tier == "quick"
    n_worlds = 420 if quick else 5000
    corr_fail = []
    spurious = []
    rng = chk.rng
    two_phase_known = any(f.get("signature") == F_TWO_PHASE for f in chk.known)
    two_phase_witness(chk)
    for G, S, w in worlds(chk, drv, n_worlds):
        cases = list(case_types(chk, G, S, w, 4))
        for V, wv, cfgs in views(chk, S, w):
            if V is not S:
                V.load()
            for ty, x, xv in cases:
                if V is not S and not (set(reach_classes(w, ty)) & set(V.affected)):
                    continue
                for cfg in cfgs:
                    if not gen.supported(cfg, w, ty):
                        chk.note("unsupported-by-converter-class")
                        continue
                    if not cfg["gen"] and not class_free(w, ty):
                        chk.note("baseconverter:class-position(skipped)")
                        continue
                    p0 = valid_payload(chk, V, wv, cfg, ty, x, xv, spurious)
                    if p0 is None:
                        continue
                    chk.note("no-fault-payload-accepted")
                    all_sites = []
                    sites(rng, wv, cfg, ty, p0, [], all_sites)
                    if V is not S:
                        # the variant's own sites first: what the option's branch of the template reads
                        own = [f for f in all_sites if variant_site(V, ty, f)]
                        chk.note("variant:%s:%s" % (V.variant, "own-sites" if own else "no-own-site"))
                    if not all_sites:
                        chk.note("no-fault-site")
                        continue
                    for _ in range(2 if quick else 3):
                        faults = choose_faults(rng, list(all_sites), rng.randint(1, 4))
                        if V is not S and own and rng.random() < 0.7:
                            f0 = rng.choice(own)
                            faults = [f0] + [f for f in faults if independent(f, [f0])]
                            faults = [f for i, f in enumerate(faults) if independent(f, faults[:i])]
                        if cfg.get("incl") and not two_phase_known:
                            # (until the finding about the two reporting phases is recorded: one phase per class position)
                            drop = set(two_phase(wv, ty, faults))
                            faults = [f for i, f in enumerate(faults) if i not in drop]
                        if faults:
                            run_case(chk, V, wv, cfg, ty, p0, faults, corr_fail)
    for case, exc in spurious[:3]:
        chk.violation("C05 oracle: a fault-free payload raises with detailed_validation=True only (%s) [%s %s %s]" % (
            exc.__class__.__name__, cname(case["cfg"]), terms.ty_sx(case["ty"]), terms.canon_sx(case["payload"])[:300]), case)
    oracle_failed = any(v[2] for v in chk.violations)
    for case, op, what in corr_fail[:5]:
        chk.violation("correspondence corr:C05:%s broken (theorems C05_* no longer tied to the code): %s [%s %s faults=%s]" % (
            op, what, cname(case["cfg"]), terms.ty_sx(case["ty"]), " ".join(fault_sx(f) for f in case["faults"])[:300]),
            case, found_input=False)
    chk.extra["rule"] = ("random worlds x types (depth<=4) x valid payloads x 1-4 independent injected faults x {Converter, Converter+forbid, "
                         "BaseConverter on class-free types}, detailed validation; non-trivial = non-leaf type; distinct by canonical text")
    chk.extra["variants"] = ("prefer_attrib_converters=True (attrs attributes with converter= have no structure handler) and hooks with "
                             "_cattrs_include_init_false / override(omit=False) are run against the same model through a view of the "
                             "world (handler-less attribute = unannotated pass-through attribute; included init=False attribute = "
                             "ordinary attribute); fault sets with faults on both sides of the instantiation at one class position "
                             "are judged by the oracle only")
    chk.extra["correspondence_disagreements"] = len(corr_fail)
    chk.extra["oracle_failed"] = oracle_failed
    drv.close()


def replay(case):
    drv = lean.Driver()
    case = terms.case_from_json(case)
    faults = []
    for f in case["faults"]:
        f = dict(f)
        f["path"] = [(s[0], s[1] if s[0] == "a" else terms.tuple_ify(s[1])) for s in f["path"]]
        for k in ("v",):
            if k in f:
                f[k] = terms.tuple_ify(f[k])
        if "kvs" in f:
            f["kvs"] = [(terms.tuple_ify(a), terms.tuple_ify(b)) for a, b in f["kvs"]]
        if "xs" in f:
            f["xs"] = [terms.tuple_ify(x) for x in f["xs"]]
        faults.append(f)
    S = Session(drv, case["world"])
    cfg, ty, p0 = case["cfg"], case["ty"], case["payload"]
    variant = "prefer" if cfg.get("prefer") else "incl" if cfg.get("incl") else None
    if variant is not None:
        vw = view_world(case["world"], variant)
        how = {int(k): v for k, v in (case.get("variant_how") or {}).items()}
        S = VariantSession(S, variant, vw[0], vw[1], how or {ci: "flag" for ci in vw[1]})
        S.load()
        case = dict(case, world=vw[0])
    p1v, p1 = S.realise(inject_py(p0, faults))
    print("converter:", cname(cfg), "\ntype     :", terms.ty_sx(ty), "\nvalid    :", terms.canon_sx(p0),
          "\nfaults   :", " ".join(fault_sx(f) for f in faults), "\ninjected :", repr(p1v)[:600])
    r = S.impl_st(cfg, ty, p1, payload=p1v)
    rc = 0
    if r[0] != "err":
        print("structure() raised nothing")
        rc = 1
    else:
        sh = Shape(S, case["world"], cfg)
        print("impl tree :", sh.tree(ty, p1, r[1]))
        ip, terr = impl_paths(r[1])
        exp = sorted(render_path(S.R, report_path(f)) for f in (fix_set_indices(faults, p1) or faults))
        print("impl paths:", ip, terr or "", "\nexpected  :", exp, "\nshape     :", sh.bad or "ok")
        if terr or sorted(ip) != exp or sh.bad:
            rc = 1
    if faults:
        print("model FAULTS:", model_faults(S, cfg, ty, p0, faults)[:600])
    print("model PATHS :", model_paths(S, cfg, ty, p1)[:600])
    return rc


if __name__ == "__main__":
    framework.main(run, "C05")
