"""C17 — generic classes behave like their monomorphised copies.

Abstract program ("world"): a chain of generic classes (attrs / dataclass / TypedDict, written with
`typing.Generic[...]` or PEP 695 syntax, PEP 696 defaults, generic aliases -- one parameter `A[X] = list[X]`, parameters
in another order than they appear `R[X, Y] = dict[Y, X]`, an unused parameter `Q[X, Y] = list[Y]` --, a nested generic
`In[T]`, a class that is merely *called* `T`; any level may additionally list a plain non-generic mixin base before or
after its parametrised base (multiple inheritance); attrs fields may carry a tagging / identity field converter; keys
of TypedDicts may be `NotRequired`; PLAIN subclasses -- `class Leaf(IntNode)` below `class IntNode(Node[NT])`: no
`__orig_bases__` of their own, the binding is inherited by attribute lookup -- at the head of the chain or below a class
that adds a parameter, `class Tagged(Leaf, Generic[W])`; PEP 696 defaults including `None`; among the arguments a
`NewType` `NT` for which EVERY converter of the check has registered hooks, so that a field dispatched by run-time class
instead of by its declared type shows), a target (`G[args]` or the bare class) and two argument tuples.  The world is realised by
`exec` of generated source; the non-generic monomorphised copy is generated from the same description by substituting
the arguments (harness-side substitution, written from the property statement, independent of the Lean model).
Round 3: PEP 696 defaults x inheritance (shape `defaults-inherit`: `class G(B[<closed>, U], Generic[U])` over `class B(Generic[T, U])`
with defaults on a suffix of B's parameters, optionally a third level; arguments different from the defaults, equal to them,
trailing ones left out, the bare class; Lean: `C17_defaults_inert_when_bound`, regression witness `C17_default_override_witness`)
and SPELLINGS of the type arguments (`SPELLED_ARGS`: PEP 604 unions -- which the generators name after `str(arg)` -- of scalars,
classes, builtin generics with one / two / nested arguments; `Literal[...]` leaves (`LITERALS`: strings, negative numbers,
several values, enum members); `Annotated[...]` with several / non-identifier metadata and around parametrised types), in the
random argument generator and as the systematic families `systematic-defaults-inherit` / `systematic-arg-spelling`
(Lean: `C17_names_identifier`).

Oracle P (implementation only): `structure` / `unstructure` of `G[args]` — on ONE converter shared by both
parametrisations and on fresh ones, detailed validation on and off, valid and mutated payloads — give exactly the
results of the copy (in the copy generic aliases are expanded by the harness's own substitution); an unbound parameter
without default is refused FOR EVERY PAYLOAD (full, minimal = None / empty collections / absent NotRequired keys, random):
the refusal must not depend on whether the payload reaches the parameter.

Correspondence (model vs implementation, pure functions, compared directly):
  corr:C17:DCW      `deep_copy_with(t, mapping, self_is)`        == model `deepCopyWith`
  corr:C17:GENMAP   `generate_mapping(cl)`                         == model `generateMapping`
  corr:C17:RESOLVE  field types bound into the generated hook      == model `structGen` (and refusal == `refuses`)
  corr:C17:RESOLVEUN types whose hooks the unstructure generator requests == model `unstructGen`
  corr:C17:MONO     field types of the harness's copy              == model `monoFields` (ties the Lean spec to the oracle)
  corr:C17:ALIAS    type handed on by `type_alias_structure_factory` == model `aliasResolve` (aliases with 1-3 parameters,
                    declared in any order, used any number of times or not at all; theorem `C17_alias`)
  corr:C17:MANGLE   `__name__` of the generated structure hook     == model `mangle`
A plain level is presented to the model merged into its parent (for every function of the model it IS the parent class
with more fields: `__orig_bases__` and `__parameters__` are the parent's); worlds with a class that lists an
unsubscripted generic class among the bases of a class statement that has `__orig_bases__` of its own (`Tagged` above) are
outside the model: oracle only (`unmodelled-world`).
Recorded findings F27-F29 are recognised by the *shape of the input* (predicates below); their Lean negative witnesses
are replayed on the real code in every run.  F40 (recursive TypedDicts: the outcome depended on the call-stack depth,
see `DepthScan`; found by this check, repaired in /repo) is not about generics: the oracle compares depth-stable
outcomes and reports any depth dependence as a violation of its own.  (F30 — string annotations of generic attrs classes — and F33 —
unstructuring ignoring closed bindings of the base — were found by this check and are repaired in /repo.)
"""
from __future__ import annotations

import dataclasses
import inspect
import json
import linecache
import os
import sys
import types
import typing

sys.path.insert(0, os.environ.get("CATTRS_SRC", "/repo/src"))

from harness import framework, lean  # noqa: E402
from harness.terms import esc  # noqa: E402

import attrs  # noqa: E402
import typing_extensions  # noqa: E402
from cattrs import Converter  # noqa: E402
from cattrs._generics import deep_copy_with  # noqa: E402
from cattrs.errors import StructureHandlerNotFoundError  # noqa: E402
from cattrs.gen._generics import generate_mapping  # noqa: E402

# =====================================================================================================
# annotation terms:  ["tv",n] ["lf",n] ["app",c,[args]] ["ann",inner,[meta]] ["self"] ["pu",[members]]
# =====================================================================================================



def _sort_unions(a):
    """canonical annotation with the members of every Union sorted (member order is not an observable of typing)"""
    if isinstance(a, (list, tuple)):
        if len(a) == 3 and a[0] == "app" and a[1] == "Union":
            return ["app", "Union", sorted((_sort_unions(x) for x in a[2]), key=json.dumps)]
        if len(a) == 2 and a[0] == "pu":   # a PEP 604 union object: equal (==) to the typing.Union of the same members
            return ["app", "Union", sorted((_sort_unions(x) for x in a[1]), key=json.dumps)]
        return [_sort_unions(x) for x in a]
    return a


def TV(n):
    return ["tv", n]


def LF(n):
    return ["lf", n]


def APP(c, *a):
    return ["app", c, list(a)]


def OPT(a):
    return ["app", "Union", [a, LF("None")]]


def ANN(i, *m):
    return ["ann", i, list(m)]


SELF = ["self"]


def PU(*m):
    return ["pu", list(m)]


def ann_sx(a):
    k = a[0]
    if k == "tv":
        return "(tv %s)" % esc(a[1])
    if k == "lf":
        return "(lf %s)" % esc(a[1])
    if k == "app":
        return "(" + " ".join(["app", esc(a[1])] + [ann_sx(x) for x in a[2]]) + ")"
    if k == "ann":
        return "(" + " ".join(["ann", ann_sx(a[1])] + [esc(m) for m in a[2]]) + ")"
    if k == "self":
        return "self"
    if k == "pu":
        return "(" + " ".join(["pu"] + [ann_sx(x) for x in a[1]]) + ")"
    raise ValueError(a)


def pairs_sx(ps):
    return "(" + " ".join("(%s %s)" % (esc(n), ann_sx(a)) for n, a in ps) + ")"


def parse_sx(s):
    """tiny S-expression reader for driver replies -> nested lists / ('str', s) / atoms"""
    pos = 0
    n = len(s)

    def rd():
        nonlocal pos
        while pos < n and s[pos] == " ":
            pos += 1
        if s[pos] == "(":
            pos += 1
            out = []
            while True:
                while pos < n and s[pos] == " ":
                    pos += 1
                if s[pos] == ")":
                    pos += 1
                    return out
                out.append(rd())
        if s[pos] == '"':
            j = pos + 1
            buf = []
            while s[j] != '"':
                if s[j] == "\\":
                    if s[j + 1] == "u":
                        buf.append(chr(int(s[j + 2:j + 6], 16)))
                        j += 6
                        continue
                    buf.append(s[j + 1])
                    j += 2
                    continue
                buf.append(s[j])
                j += 1
            pos = j + 1
            return ("str", "".join(buf))
        j = pos
        while j < n and s[j] not in " ()":
            j += 1
        tok = s[pos:j]
        pos = j
        return tok

    return rd()


def ann_of(p):
    if p == "self":
        return ["self"]
    h = p[0]
    if h == "tv":
        return ["tv", p[1][1]]
    if h == "lf":
        return ["lf", p[1][1]]
    if h == "app":
        return ["app", p[1][1], [ann_of(x) for x in p[2:]]]
    if h == "ann":
        return ["ann", ann_of(p[1]), [m[1] for m in p[2:]]]
    if h == "pu":
        return ["pu", [ann_of(x) for x in p[1:]]]
    raise ValueError(p)


def pairs_of(p):
    return [(x[0][1], ann_of(x[1])) for x in p]


def subst(a, sigma, self_to=None):
    """the oracle's own substitution (capture-free, everywhere)"""
    k = a[0]
    if k == "tv":
        return sigma.get(a[1], a)
    if k == "lf":
        return a
    if k == "app":
        return ["app", a[1], [subst(x, sigma, self_to) for x in a[2]]]
    if k == "ann":
        return ["ann", subst(a[1], sigma, self_to), a[2]]
    if k == "self":
        return self_to if self_to is not None else a
    if k == "pu":
        return ["pu", [subst(x, sigma, self_to) for x in a[1]]]
    raise ValueError(a)


def walk(a):
    yield a
    k = a[0]
    if k == "app":
        for x in a[2]:
            yield from walk(x)
    elif k == "ann":
        yield from walk(a[1])
    elif k == "pu":
        for x in a[1]:
            yield from walk(x)


def fold_union_spelling(a):
    """`X | None` and `Optional[X]` are `==` with equal hashes, and typing interns `C[args]` by `==` of the arguments:
    which of the two spellings a cached `In[...]` / `List[...]` shows depends on which was built first in the process.
    This folds both spellings into one (used only to recognise that artefact, never to compare results)."""
    k = a[0]
    if k == "pu":
        return ["app", "Union", sorted((fold_union_spelling(x) for x in a[1]), key=json.dumps)]
    if k == "app":
        args = [fold_union_spelling(x) for x in a[2]]
        return ["app", a[1], sorted(args, key=json.dumps) if a[1] == "Union" else args]
    if k == "ann":
        return ["ann", fold_union_spelling(a[1]), a[2]]
    return a


def differ_beyond_union_spelling(chk, got, want):
    """got / want: JSON texts (or lists of JSON texts) of canonical annotations.  True if they differ by more than the
    `X | None` vs `Optional[X]` spelling that typing's interning makes unobservable (see `fold_union_spelling`)"""
    if got == want:
        return False
    gl, wl = (got, want) if isinstance(got, list) else ([got], [want])
    if len(gl) == len(wl) and all(json.dumps(fold_union_spelling(json.loads(g))) == json.dumps(fold_union_spelling(json.loads(w)))
                                  for g, w in zip(gl, wl)):
        chk.note("typing-interned-union-spelling")
        return False
    return True


def is_closed(a):
    return all(x[0] not in ("tv", "self") for x in walk(a))


def has_self(a):
    return any(x[0] == "self" for x in walk(a))


def tvars(a):
    return {x[1] for x in walk(a) if x[0] == "tv"}


# PEP 695 generic aliases every world defines: name -> (declared parameters, value).  `R` uses its parameters in another
# order than it declares them, `Q` does not use its first parameter at all.
ALIASES = {
    "A": (["X"], ["app", "list", [["tv", "X"]]]),
    "R": (["X", "Y"], ["app", "dict", [["tv", "Y"], ["tv", "X"]]]),
    "Q": (["X", "Y"], ["app", "list", [["tv", "Y"]]]),
}


def expand_aliases(a):
    """the oracle's own reading of a generic alias: `Alias[args]` IS its value with every parameter replaced by the
    argument given for that parameter (matched by declared position)"""
    k = a[0]
    if k == "app":
        args = [expand_aliases(x) for x in a[2]]
        if a[1] in ALIASES:
            ps, value = ALIASES[a[1]]
            return subst(value, dict(zip(ps, args)))
        return ["app", a[1], args]
    if k == "ann":
        return ["ann", expand_aliases(a[1]), a[2]]
    if k == "pu":
        return ["pu", [expand_aliases(x) for x in a[1]]]
    return a


# =====================================================================================================
# source generation
# =====================================================================================================

PRELUDE = """
from typing import *
import typing, typing_extensions, attrs, dataclasses, enum
from typing_extensions import Self, NotRequired
from attrs import define
from dataclasses import dataclass


def _ktag(v):
    return ("K", v)


def _kid(v):
    return v
"""


CONVERTERS = {"tag": "_ktag", "id": "_kid"}

BUILTIN_LEAVES = {"int": "int", "str": "str", "float": "float", "bool": "bool", "None": "None", "...": "..."}

# `Literal[...]` types are leaves of the annotation language (closed, without type arguments): name -> valid raw payloads.
# Their reprs contain quotes, `-`, `<`, `:` -- characters the function-name sanitiser of the generators does not rewrite.
LITERALS = {
    "Literal['a']": ["a"],
    "Literal[-1]": [-1],
    "Literal[1, 2]": [1, 2],
    "Literal['x', 'y-z']": ["x", "y-z"],
    "Literal[Col.R]": ["r"],
    "Literal[Col.R, Col.G]": ["r", "g"],
}


def literal_name(t):
    """canonical leaf name of a real `Literal[...]` object (enum members are written `Col.<member>`)"""
    import enum
    return "Literal[%s]" % ", ".join("Col.%s" % a.name if isinstance(a, enum.Enum) else repr(a) for a in typing.get_args(t))


def src(a, names):
    """Python source of an annotation; `names` maps leaf/constructor names to identifiers in the exec namespace"""
    k = a[0]
    if k == "tv":
        return a[1]
    if k == "lf":
        if a[1].startswith("Literal["):
            return a[1].replace("Col.", names["Col"] + ".")
        return BUILTIN_LEAVES.get(a[1]) or names[a[1]]
    if k == "self":
        return "Self"
    if k == "ann":
        return "Annotated[%s, %s]" % (src(a[1], names), ", ".join(repr(m) for m in a[2]))
    if k == "pu":
        return " | ".join("(%s)" % src(x, names) for x in a[1])
    c, args = a[1], a[2]
    inner = ", ".join(src(x, names) for x in args)
    if c == "Union":
        return "Union[%s]" % inner
    if c in ("list", "dict", "tuple", "set", "frozenset"):
        return "%s[%s]" % (c, inner)
    if c == "List":  # typing.List: same origin as list
        return "List[%s]" % inner
    if c == "NotRequired":
        return "NotRequired[%s]" % inner
    return "%s[%s]" % (names[c], inner)


_uid = [0]


def fresh_suffix():
    _uid[0] += 1
    return "_w%d" % _uid[0]


def field_line(fn, a, names, kind, dflt_none, conv):
    """one annotated assignment of a class body; `conv`: name of a field converter (attrs classes only)"""
    if conv and kind == "attrs":
        return "    %s: %s = attrs.field(%sconverter=%s)" % (fn, src(a, names), "default=None, " if dflt_none else "",
                                                             CONVERTERS[conv])
    return "    %s: %s%s" % (fn, src(a, names), " = None" if dflt_none and kind != "typeddict" else "")


def mixin_source(kind, name, fields, names):
    """a non-generic base class: a plain Python class (an empty TypedDict for TypedDicts) when it has no fields,
    otherwise a class of the world's kind"""
    if kind == "typeddict":
        return "class %s(TypedDict):\n    pass\n" % name
    if not fields:
        return "class %s:\n    def describe(self):\n        return type(self).__name__\n" % name
    deco = {"attrs": "@define\n", "dataclass": "@dataclass\n"}[kind]
    return deco + "class %s:\n%s\n" % (name, "\n".join("    %s: %s" % (fn, src(a, names)) for fn, a in fields))


class World:
    """Realised world.  spec = {kind, style, helpers.., levels:[{name, params, defaults, generic_base, own, base_args,
    dflt_none:[field names with `= None`], conv:{field name: 'tag'|'id'} (attrs only),
    mixin: None | {pos: 'before'|'after', fields:[(name, closed annotation)]}}], target: 'alias'|'bare'}

    A mixin is a non-generic base listed before / after the parametrised base.  Its fields (attrs / dataclass, position
    `before` only) are collected after the parametrised base's and before the class's own (reversed MRO): the model is
    told about them as leading own fields of that level (`model_own`)."""

    def __init__(self, spec):
        self.spec = spec
        self.sfx = fresh_suffix()
        sfx = self.sfx
        kind = spec["kind"]
        self.names = {}
        self.names["NT"] = "NT" + sfx
        lines = [PRELUDE, "NT%s = NewType('NT%s', int)" % (sfx, sfx)]
        # type variables
        tv_names = set()
        for lv in spec["levels"]:
            tv_names |= set(lv["params"])
            for _, a in lv["own"]:
                tv_names |= tvars(a)
            for a in lv["base_args"]:
                tv_names |= tvars(a)
        tv_names |= {"T", "X", "Y", "Z"}
        dflts = {}
        for lv in spec["levels"]:
            dflts.update(lv["defaults"])
        # helper classes
        self.names["Leaf"] = "Leaf" + sfx
        self.names["In"] = "In" + sfx
        self.names["T!cls"] = "TCls" + sfx
        self.names["Col"] = "Col" + sfx
        for al in ALIASES:
            self.names[al] = al + sfx
        for i, lv in enumerate(spec["levels"]):
            self.names[lv["name"]] = lv["name"] + sfx
            self.names["Mx%d" % i] = "Mx%d%s" % (i, sfx)
        for n in sorted(tv_names):
            if n in dflts:
                lines.append("%s = typing_extensions.TypeVar(%r, default=%s)" % (n, n, src(dflts[n], self.names)))
            else:
                lines.append("%s = TypeVar(%r)" % (n, n))
        lines.append("class Col%s(enum.Enum):\n    R = 'r'\n    G = 'g'\n" % sfx)
        lines.append("@define\nclass Leaf%s:\n    v: int\n" % sfx)
        lines.append("@define\nclass In%s(Generic[T]):\n    v: T\n" % sfx)
        lines.append("TCls%s = attrs.make_class('T', {'v': attrs.field(type=int)})" % sfx)
        for al, (ps, value) in ALIASES.items():
            lines.append("type %s%s[%s] = %s" % (al, sfx, ", ".join(ps), src(value, self.names)))
        deco = {"attrs": "@define\n", "dataclass": "@dataclass\n", "typeddict": ""}[kind]
        levels = spec["levels"]
        for i in range(len(levels) - 1, -1, -1):
            lv = levels[i]
            bases = []
            mx = lv.get("mixin")
            if mx:
                lines.append(mixin_source(kind, self.names["Mx%d" % i], mx["fields"], self.names))
                if mx["pos"] == "before":
                    bases.append(self.names["Mx%d" % i])
            if i + 1 < len(levels):
                b = levels[i + 1]
                bases.append("%s[%s]" % (self.names[b["name"]], ", ".join(src(a, self.names) for a in lv["base_args"]))
                             if lv["base_args"] else self.names[b["name"]])
            elif kind == "typeddict" and not mx:
                bases.append("TypedDict")
            if mx and mx["pos"] == "after":
                bases.append(self.names["Mx%d" % i])
            pep695 = spec["style"] == "pep695" and lv["params"]
            if lv["generic_base"] and not pep695 and lv["params"]:
                bases.append("Generic[%s]" % ", ".join(lv["params"]))
            head = "class %s%s%s:" % (self.names[lv["name"]],
                                      "[%s]" % ", ".join(lv["params"]) if pep695 else "",
                                      "(%s)" % ", ".join(bases) if bases else "")
            body = []
            for fn, a in lv["own"]:
                body.append(field_line(fn, a, self.names, kind, fn in lv.get("dflt_none", []), lv.get("conv", {}).get(fn)))
            lines.append(deco + head + "\n" + ("\n".join(body) if body else "    pass") + "\n")
        self.source = "\n".join(lines)
        self.ns = {}
        exec(compile(self.source, "<c17 world%s>" % sfx, "exec", flags=0, dont_inherit=True), self.ns)
        self.cls = self.ns[self.names[levels[0]["name"]]]
        self.copies = {}
        self.normalised = self._normalise()

    def _normalise(self):
        """replace every annotation of the description by the canonical form of what `typing` actually built
        (`In[T] | None` is a typing.Optional, `Union[int, int]` is `int`, `typing.List` has origin `list`, …)"""
        import copy
        spec = copy.deepcopy(self.spec)
        changed = False
        for lv in spec["levels"]:
            cl = self.ns[self.names[lv["name"]]]
            annots = cl.__dict__.get("__annotations__", {})
            own = []
            for fn, a in lv["own"]:
                c = self.canon(annots[fn]) if fn in annots else a
                changed |= c != a
                own.append((fn, c))
            lv["own"] = own
            if lv["base_args"]:
                ob = [b for b in getattr(cl, "__orig_bases__", ()) if typing.get_origin(b) is not None
                      and typing.get_origin(b) is not typing.Generic]
                if ob:
                    ba = [self.canon(x) for x in typing.get_args(ob[0])]
                    changed |= ba != lv["base_args"]
                    lv["base_args"] = ba
        self.spec = spec
        return changed

    # ---- canonical form of real typing objects (inverse of `src`)
    def canon(self, t):
        if isinstance(t, typing.TypeVar) or type(t).__name__ == "TypeVar":
            return ["tv", t.__name__]
        if t is typing_extensions.Self:
            return ["self"]
        if t is type(None) or t is None:
            return ["lf", "None"]
        if t is Ellipsis:
            return ["lf", "..."]
        if isinstance(t, types.UnionType):
            return ["pu", [self.canon(x) for x in t.__args__]]
        if type(t) is typing._AnnotatedAlias:
            return ["ann", self.canon(t.__origin__), [str(m) for m in t.__metadata__]]
        origin = typing.get_origin(t)
        if origin is typing.Literal:
            return ["lf", literal_name(t)]
        if origin is not None:
            if origin is typing.Union:
                c = "Union"
            else:
                c = self.unname(getattr(origin, "__name__", None) or str(origin))
            args = [self.canon(x) for x in typing.get_args(t)]
            if c == "Union":
                # typing compares and caches unions regardless of member order: which order an interned
                # `Union[...]` object shows depends on what was built first in this process
                args = sorted(args, key=json.dumps)
            return ["app", c, args]
        if t is self.ns.get(self.names["T!cls"]):
            return ["lf", "T!cls"]
        if isinstance(t, type) or hasattr(t, "__name__"):
            return ["lf", self.unname(t.__name__)]
        return ["lf", repr(t)]

    def converter(self, detailed=True):
        """every converter of the check: hooks for the NewType `NT` registered -- a field typed `NT` (after substitution)
        that is dispatched by the run-time class of its value (`int`) instead gives a different result"""
        c = Converter(detailed_validation=detailed)
        nt = self.ns[self.names["NT"]]
        c.register_structure_hook(nt, lambda v, _: int(v) + 1000)
        c.register_unstructure_hook(nt, lambda v: {"nt": v})
        return c

    def modelled(self):
        """False if some class statement with `__orig_bases__` of its own lists an unsubscripted class that inherits a
        binding (`class Tagged(Leaf, Generic[W])`): `generate_mapping(Leaf)` is then applied to a BARE class in the loop
        of `make_dict_structure_fn`, which the model does not describe"""
        lv = self.spec["levels"]
        if self.spec["kind"] == "typeddict" and shape_unsubscripted_base(self.spec):
            return False   # (F63: TypedDicts do not inherit `__orig_bases__`; the merge of plain levels does not describe them)
        return not any(lv[i]["params"] and not lv[i]["base_args"] and len(lv) > i + 2 for i in range(len(lv) - 1))

    def unname(self, n):
        return n[:-len(self.sfx)] if n.endswith(self.sfx) else n

    def real(self, a, extra=None):
        ns = dict(self.ns)
        if extra:
            ns.update(extra)
        return eval(compile(src(a, self.names), "<c17 ann>", "eval", flags=0, dont_inherit=True), ns)

    # ---- chain as the model sees it
    @staticmethod
    def model_own(lv):
        mx = lv.get("mixin")
        return (list(mx["fields"]) if mx else []) + list(lv["own"])

    def model_levels(self):
        """the chain as the model sees it: mixin fields lead the own fields of their level; plain levels merged"""
        return collapse_plain([dict(lv, own=self.model_own(lv), mixin=(dict(lv["mixin"], fields=[]) if lv.get("mixin") else None))
                               for lv in self.spec["levels"]])

    def chain_sx(self):
        out = []
        for lv in self.model_levels():
            mx = lv.get("mixin")
            # non-generic entries of __orig_bases__ before / after the parametrised base
            plain = " %d %d" % (mx["pos"] == "before", mx["pos"] == "after") if mx else ""
            out.append("(lvl %s (%s) %s %d %s (%s)%s)" % (
                esc(lv["name"]), " ".join(esc(p) for p in lv["params"]),
                pairs_sx(sorted(lv["defaults"].items())),
                1 if (lv["generic_base"] or (self.spec["style"] == "pep695" and lv["params"])) else 0,
                pairs_sx(self.model_own(lv)), " ".join(ann_sx(a) for a in lv["base_args"]), plain))
        return "(" + " ".join(out) + ")"

    # ---- the monomorphised copy (oracle side)
    def mono_fields(self, args, self_to=None):
        """field types of the copy: at each level bind parameters to the (substituted) arguments from below"""
        levels = self.spec["levels"]
        per_level = []
        cur = list(args)
        for lv in levels:
            sigma = dict(zip(lv["params"], cur))
            per_level.append([(fn, subst(a, sigma, self_to)) for fn, a in self.model_own(lv)])
            cur = [subst(a, sigma) for a in lv["base_args"]]
        out = []
        for fs in reversed(per_level):
            out += fs
        return out

    def copy_class(self, args):
        key = json.dumps(args)
        if key in self.copies:
            return self.copies[key]
        kind = self.spec["kind"]
        name = "Copy%s_%d" % (self.sfx, len(self.copies))
        fields = self.mono_fields(args)  # Self stays Self: it denotes the copy
        dn = set()
        conv = {}
        for lv in self.spec["levels"]:
            dn |= set(lv.get("dflt_none", []))
            conv.update(lv.get("conv", {}))
        deco = {"attrs": "@define\n", "dataclass": "@dataclass\n", "typeddict": ""}[kind]
        body = []
        for fn, a in fields:
            # the copy is written without generic aliases: `Alias[args]` is replaced by its substituted value
            body.append(field_line(fn, expand_aliases(a), self.names, kind, fn in dn, conv.get(fn)))
        code = deco + "class %s%s:\n%s\n" % (name, "(TypedDict)" if kind == "typeddict" else "",
                                               "\n".join(body) if body else "    pass")
        ns = dict(self.ns)
        exec(compile(code, "<c17 copy %s>" % name, "exec", flags=0, dont_inherit=True), ns)
        self.copies[key] = (ns[name], code, fields)
        return self.copies[key]

    def target(self, args):
        """the real type to un/structure: G[args] or the bare class"""
        if args is None:
            return self.cls
        return self.cls[tuple(self.real(a) for a in args)] if len(args) != 1 else self.cls[self.real(args[0])]


# =====================================================================================================
# generators
# =====================================================================================================

SCALARS = ["int", "str", "float", "bool"]


def gen_closed_arg(rng, depth=1):
    r = rng.random()
    if r < 0.5 or depth <= 0:
        return LF(rng.choice(SCALARS))
    if rng.random() < 0.3:
        return spelled_arg(rng)[1]
    r = rng.random()
    if r < 0.12:
        return LF("NT")   # a NewType with registered hooks: declared-type dispatch != run-time dispatch
    if r < 0.2:
        return APP("list", gen_closed_arg(rng, depth - 1))
    if r < 0.3:
        return APP("dict", LF("str"), gen_closed_arg(rng, depth - 1))
    if r < 0.45:
        return OPT(LF(rng.choice(SCALARS)))
    if r < 0.6:
        return LF("Leaf")
    if r < 0.75:
        return APP("In", LF(rng.choice(SCALARS)))
    if r < 0.85:
        return ANN(LF(rng.choice(SCALARS)), "q")
    if r < 0.93:
        return APP("tuple", LF("int"), LF("str"))
    return LF("T!cls")


# PEP 604 unions (`types.UnionType`: no `__name__`, the generators name their functions after `str(arg)`), among them
# unions whose member is a builtin generic with two or more arguments; `Literal[...]`; `Annotated[...]` with several /
# non-identifier metadata and around a parametrised type
SPELLED_ARGS = [
    ("pep604-scalar", lambda rng: PU(LF(rng.choice(SCALARS)), LF("None"))),
    ("pep604-list", lambda rng: PU(APP("list", LF(rng.choice(SCALARS))), LF("None"))),
    ("pep604-dict", lambda rng: PU(APP("dict", LF("str"), LF(rng.choice(SCALARS))), LF("None"))),
    ("pep604-tuple2", lambda rng: PU(APP("tuple", LF("int"), LF(rng.choice(["float", "str"]))), LF("None"))),
    ("pep604-tuple-var", lambda rng: PU(APP("tuple", LF("int"), LF("...")), LF("None"))),
    ("pep604-dict-list", lambda rng: PU(APP("dict", LF("str"), APP("list", LF("int"))), LF("None"))),
    ("pep604-none-first", lambda rng: PU(LF("None"), APP("dict", LF("str"), LF("int")))),
    ("pep604-class", lambda rng: PU(LF("Leaf"), LF("None"))),
    ("literal", lambda rng: LF(rng.choice(sorted(LITERALS)))),
    ("literal", lambda rng: LF(rng.choice(sorted(LITERALS)))),
    ("annotated-meta2", lambda rng: ANN(LF(rng.choice(SCALARS)), "a-b", "c d")),
    ("annotated-generic", lambda rng: ANN(APP("list", LF("int")), "x y")),
    ("annotated-dict", lambda rng: ANN(APP("dict", LF("str"), LF("int")), "m")),
    ("dict-of-tuple", lambda rng: APP("dict", LF("str"), APP("tuple", LF("int"), LF("float")))),
]


def spelled_arg(rng):
    name, f = rng.choice(SPELLED_ARGS)
    return name, f(rng)


def gen_base_arg(rng):
    """a closed argument for a parameter of a parametrised BASE: biased towards types whose declared-type hook differs from
    run-time dispatch on the stored value (the NewType `NT` with registered hooks, bare and inside containers) -- an
    inherited field bound through the base must use the hook of the declared argument, on the unstructure side too"""
    if rng.random() < 0.3:
        return rng.choice([LF("NT"), LF("NT"), APP("list", LF("NT")), OPT(LF("NT")), APP("dict", LF("str"), LF("NT"))])
    return gen_closed_arg(rng)


def occurrence(rng, v, allow_self=False, pep604_bad=False):
    """an annotation mentioning type variable `v` (or none), with the name of its shape"""
    T = TV(v)
    table = [
        ("bare", lambda: T),
        ("list", lambda: APP("list", T)),
        ("List", lambda: APP("List", T)),
        ("dict", lambda: APP("dict", LF("str"), T)),
        ("tuple", lambda: APP("tuple", T, LF("int"))),
        ("tuple*", lambda: APP("tuple", T, LF("..."))),
        ("optional", lambda: OPT(T)),
        ("annotated", lambda: ANN(T, "m")),
        ("list-annotated", lambda: APP("list", ANN(T, "m"))),
        ("annotated-list", lambda: ANN(APP("list", T), "m", "k")),
        ("nested-generic", lambda: APP("In", T)),
        ("list-nested-generic", lambda: APP("list", APP("In", T))),
        ("nested-nested", lambda: APP("In", APP("In", T))),
        ("optional-nested", lambda: OPT(APP("In", T))),
        ("dict-list", lambda: APP("dict", LF("str"), APP("list", T))),
        ("union3", lambda: APP("Union", T, LF("None"))),
        ("alias", lambda: APP("A", T)),
        ("alias-permuted", lambda: APP("R", T, LF("str"))),           # dict[str, T]
        ("alias-permuted-key", lambda: APP("R", LF("int"), T)),       # dict[T, int]
        ("alias-unused-param", lambda: APP("Q", LF("int"), T)),       # list[T]
        ("alias-only-unused", lambda: APP("Q", T, LF("int"))),        # list[int]: T only at the unused position
        ("list-alias-permuted", lambda: APP("list", APP("R", T, LF("str")))),
        ("set", lambda: APP("set", T)),
        ("frozenset", lambda: APP("frozenset", T)),
        ("optional-list", lambda: OPT(APP("list", T))),
        ("optional-set", lambda: OPT(APP("set", T))),
        ("concrete", lambda: LF(rng.choice(SCALARS))),
        ("concrete-generic", lambda: APP("In", LF("int"))),
        ("pep604-closed", lambda: PU(LF("int"), LF("None"))),
        ("pep604-closed-generic", lambda: PU(APP("list", LF("int")), LF("None"))),
        ("class-named-T", lambda: APP("list", LF("T!cls"))),
        ("list-optional", lambda: APP("list", OPT(T))),
    ]
    if allow_self:
        table += [("optional-self", lambda: OPT(SELF)), ("list-self", lambda: APP("list", SELF))] * 3
    if pep604_bad:
        table = [("pep604-generic-member", lambda: PU(APP("list", T), LF("None"))),
                 ("pep604-nested", lambda: APP("dict", LF("str"), PU(APP("list", T), LF("None")))),
                 ("pep604-dict-member", lambda: PU(APP("dict", LF("str"), T), LF("None")))]
    name, f = rng.choice(table)
    return name, f()


SHAPES = [
    # (name, weight)
    ("single", 40), ("inherit-closed", 12), ("inherit-pass", 10), ("inherit-mixed", 12), ("chain3-pass", 6),
    ("defaults", 6), ("defaults-inherit", 8), ("self-nongeneric", 4), ("plain-sub", 6), ("generic-over-plain", 6),
    ("F27-pep604", 5), ("F28-renamed", 3), ("F28-capture", 2), ("F28-composed", 2), ("F28-deep", 2), ("F29-self", 4),
]


def gen_spec(rng, shape=None):
    if shape is None:
        tot = sum(w for _, w in SHAPES)
        r = rng.random() * tot
        for shape, w in SHAPES:
            r -= w
            if r < 0:
                break
    kind = rng.choice(["attrs", "attrs", "dataclass", "typeddict"])
    style = rng.choice(["generic", "generic", "pep695"])
    if shape in ("defaults", "defaults-inherit"):
        style = "generic"   # (PEP 696 defaults in PEP 695 syntax need Python 3.13)
    fcount = [0]

    def fields(params, n=None, allow_self=False, bad=False):
        out, shapes = [], []
        n = n or rng.randint(1, 3)
        vs = list(params) or [None]
        for i in range(n):
            v = vs[i % len(vs)]
            fcount[0] += 1
            if v is None:
                nm, a = "concrete", LF(rng.choice(SCALARS))
                if allow_self and i == 0:
                    nm, a = "optional-self", OPT(SELF)
            else:
                nm, a = occurrence(rng, v, allow_self=allow_self and i == n - 1, pep604_bad=bad and i == 0)
            if kind == "typeddict" and not has_self(a) and rng.random() < 0.25:
                nm, a = "notrequired-" + nm, APP("NotRequired", a)
            out.append(("f%d" % fcount[0], a))
            shapes.append(nm)
        return out, shapes

    def level(name, params, own, base_args=(), generic_base=True, defaults=None):
        lv = {"name": name, "params": list(params), "defaults": dict(defaults or {}), "generic_base": generic_base,
              "own": own, "base_args": list(base_args), "dflt_none": [], "conv": {}, "mixin": None}
        if kind == "attrs":
            # attrs field converters (tagging / identity): the hook of the SUBSTITUTED field type must still run before them
            for fn, _ in own:
                if rng.random() < 0.2:
                    lv["conv"][fn] = rng.choice(["tag", "id", "id"])
        return lv

    occ = []
    nparams = rng.choice([1, 1, 2, 2, 3])
    P = ["T", "U", "V"][:nparams]
    target = "alias"
    if shape in ("single", "F27-pep604", "F29-self"):
        own, occ = fields(P, n=max(nparams, rng.randint(1, 4)), allow_self=(shape == "F29-self"), bad=(shape == "F27-pep604"))
        if shape == "F29-self" and not any(has_self(a) for _, a in own):
            own.append(("fs", OPT(SELF)))
            occ.append("optional-self")
        levels = [level("G", P, own)]
    elif shape == "defaults":
        own, occ = fields(P, n=nparams + 1)
        # `TypeVar(default=None)` IS a default.  (Not for TypedDicts: `typing` turns a key annotated `None` into `NoneType`,
        # for which cattrs has no structure hook -- the non-generic copy fails where the generic class works)
        dchoice = SCALARS + (["NT"] if kind == "typeddict" else ["None", "None", "NT"])
        dfl = {P[-1]: LF(rng.choice(dchoice))}
        if rng.random() < 0.4:
            dfl = {p: LF(rng.choice(dchoice)) for p in P}
        levels = [level("G", P, own, defaults=dfl)]
        if len(dfl) == len(P) and rng.random() < 0.6:
            target = "bare"
    elif shape == "defaults-inherit":
        # PEP 696 defaults x inheritance: `class G(B[<closed>, U], Generic[U])` over `class B(Generic[T, U])`, a suffix of B's
        # parameters has defaults; G hands a subset of B's parameters on under the same names and binds the others to
        # closed types; optionally a third class `H(G[U], Generic[U])` handing everything on.  An explicit argument must
        # win over the default at every level; the default applies only where no argument is given.
        BP = ["T", "U", "V"][:max(2, nparams)]
        ndef = rng.randint(1, len(BP))
        dchoice = SCALARS + (["NT"] if kind == "typeddict" else ["None", "NT"])
        dfl = {p: LF(rng.choice(dchoice)) for p in BP[len(BP) - ndef:]}
        passed = [p for p in BP if rng.random() < 0.6]
        if not any(p in dfl for p in passed):
            passed = sorted(set(passed) | {BP[-1]}, key=BP.index)
        bown, occ = fields(BP)
        cown, occ2 = fields(passed)
        occ += occ2 + ["defaults-inherit"]
        levels = [level("G", passed, cown, [TV(p) if p in passed else gen_base_arg(rng) for p in BP],
                        defaults={p: d for p, d in dfl.items() if p in passed}),
                  level("B", BP, bown, defaults=dfl)]
        if passed == BP and rng.random() < 0.5:
            # (a third level above a class that binds a base parameter to a closed type is the recorded shape F28 "deep")
            hown, occ3 = fields(passed)
            occ += occ3 + ["defaults-inherit-chain3"]
            levels.insert(0, level("H", passed, hown, [TV(p) for p in passed],
                                   defaults={p: d for p, d in dfl.items() if p in passed}))
        P = passed
    elif shape in ("inherit-closed", "self-nongeneric"):
        bown, occ = fields(P, allow_self=(shape == "self-nongeneric"))
        cown, occ2 = fields([], n=rng.randint(0, 2), allow_self=(shape == "self-nongeneric"))
        occ += occ2 + ["inherited-closed"]
        levels = [level("C", [], cown, [gen_base_arg(rng) for _ in P], generic_base=False), level("B", P, bown)]
        target = "bare"
    elif shape in ("plain-sub", "generic-over-plain"):
        # Node(Generic[P]) <- Mid(Node[closed args]) <- 1-2 plain subclasses [<- Tagged(<plain>, Generic[W])]
        bown, occ = fields(P)
        mown, occ2 = fields([], n=rng.randint(0, 2))
        levels = [level("Mid", [], mown, [gen_base_arg(rng) for _ in P], generic_base=False), level("B", P, bown)]
        for k in range(rng.choice([1, 1, 2])):
            pown, _ = fields([], n=rng.randint(0, 1) or (1 if rng.random() < 0.5 else 0))
            levels.insert(0, level("Leaf%d" % k, [], pown, [], generic_base=False))
        occ += occ2 + ["plain-subclass"]
        target = "bare"
        if shape == "generic-over-plain":
            gown, occ3 = fields(["W"])
            levels.insert(0, level("G", ["W"], gown, []))
            occ += occ3 + ["generic-over-plain"]
            P = ["W"]
            target = "alias"
    elif shape == "inherit-pass":
        bown, occ = fields(P)
        cown, occ2 = fields(P)
        occ += occ2 + ["inherited-pass"]
        levels = [level("G", P, cown, [TV(p) for p in P], generic_base=(style == "pep695" or rng.random() < 0.5)),
                  level("B", P, bown)]
    elif shape == "inherit-mixed":
        # class G(B[T, <closed>], Generic[T]) with B's second parameter named differently from G's own
        bown, occ = fields(["T", "W"])
        cown, occ2 = fields(["T"])
        occ += occ2 + ["inherited-mixed"]
        levels = [level("G", ["T"], cown, [TV("T"), gen_base_arg(rng)]), level("B", ["T", "W"], bown)]
        P = ["T"]
    elif shape == "chain3-pass":
        a, o1 = fields(P)
        b, o2 = fields(P)
        c, o3 = fields(P)
        occ = o1 + o2 + o3 + ["chain3"]
        levels = [level("G", P, c, [TV(p) for p in P]), level("M", P, b, [TV(p) for p in P]), level("B", P, a)]
    elif shape == "F28-renamed":
        bown, occ = fields(["T"])
        cown, occ2 = fields(["U"])
        occ += occ2 + ["F28-renamed"]
        levels = [level("G", ["U"], cown, [TV("U")]), level("B", ["T"], bown)]
        P = ["U"]
    elif shape == "F28-capture":
        bown, occ = fields(["T"])
        cown, occ2 = fields(["T"])
        occ += occ2 + ["F28-capture"]
        levels = [level("G", ["T"], cown, [gen_closed_arg(rng, 0)]), level("B", ["T"], bown)]
        P = ["T"]
    elif shape == "F28-composed":
        bown, occ = fields(["W"])
        cown, occ2 = fields(["T"])
        occ += occ2 + ["F28-composed"]
        levels = [level("G", ["T"], cown, [APP("list", TV("T"))]), level("B", ["W"], bown)]
        P = ["T"]
    elif shape == "F28-deep":
        a, o1 = fields(["W"])
        b, o2 = fields(["T"])
        occ = o1 + o2 + ["F28-deep"]
        levels = [level("C", [], [("fz", LF("int"))], [gen_closed_arg(rng, 0)], generic_base=False),
                  level("M", ["T"], b, [gen_closed_arg(rng, 0)]), level("B", ["W"], a)]
        P = []
        target = "bare"
    else:
        raise ValueError(shape)
    # multiple inheritance: a plain (non-generic) mixin before / after the parametrised base (or `Generic[...]`)
    for i, lv in enumerate(levels):
        if rng.random() < ((0.6 if shape == "inherit-mixed" else 0.3) if i == 0 else 0.1):
            mx = {"pos": rng.choice(["before", "before", "after"]), "fields": []}
            if kind != "typeddict" and mx["pos"] == "before" and rng.random() < 0.5:
                mx["fields"] = [("mx%d" % i, LF(rng.choice(SCALARS)))]
            lv["mixin"] = mx
            occ.append("mixin-" + mx["pos"] + ("-fields" if mx["fields"] else ""))
    # trailing Optional fields of the head class may get `= None` (exercises the templates' optional-argument loop)
    head = levels[0]
    if kind != "typeddict":
        for fn, a in reversed(head["own"]):
            if a[0] == "app" and a[1] == "Union" and rng.random() < 0.5:
                head["dflt_none"].append(fn)
            else:
                break
    nargs = len(levels[0]["params"])
    argsets = []
    for _ in range(2):
        argsets.append([gen_closed_arg(rng) for _ in range(nargs)])
    if nargs and json.dumps(argsets[0]) == json.dumps(argsets[1]):
        argsets[1] = [LF("str") if a == LF("int") else LF("int") for a in argsets[1]]
    if shape == "defaults" and target == "alias" and rng.random() < 0.5:
        # leave the defaulted trailing parameter out: typing fills the default in
        argsets = [a[:len(a) - 1] if len(levels[0]["defaults"]) == 1 else a for a in argsets]
    if shape == "defaults-inherit":
        hd = levels[0]
        # first tuple: every defaulted parameter gets an argument DIFFERENT from its default
        for i, p in enumerate(hd["params"]):
            if p in hd["defaults"] and json.dumps(argsets[0][i]) == json.dumps(hd["defaults"][p]):
                argsets[0][i] = LF("str") if hd["defaults"][p] != LF("str") else LF("float")
        # second tuple: equal to the defaults / trailing defaulted parameters left out (typing fills them in) / other arguments
        ntrail = 0
        while ntrail < len(hd["params"]) and hd["params"][len(hd["params"]) - 1 - ntrail] in hd["defaults"]:
            ntrail += 1
        how = rng.choice(["equal", "omit", "other"])
        if how == "equal":
            # (never `None` as an explicit argument: typing turns it into `NoneType`, for which cattrs has no structure hook,
            # while a field of the copy annotated `None` counts as untyped -- not about type parameters)
            argsets[1] = [a if hd["defaults"].get(p, a) == LF("None") else hd["defaults"].get(p, a) for p, a in zip(hd["params"], argsets[1])]
        elif how == "omit" and 0 < ntrail < len(hd["params"]):
            argsets[1] = argsets[1][:len(argsets[1]) - rng.randint(1, ntrail)]
        occ.append("defaults-inherit-second:" + how)
        if ntrail == len(hd["params"]) and rng.random() < 0.3:
            target = "bare"
    return {"shape": shape, "kind": kind, "style": style, "levels": levels, "target": target,
            "argsets": argsets if target == "alias" else [None], "occ": occ}


# ---- payloads ----------------------------------------------------------------------------------------

def payload(rng, a, W, depth=0, self_fields=None, none_ok=True, minimal=False):
    """a payload for annotation `a`.  `none_ok=False`: never None at an Optional (the payload reaches every position);
    `minimal`: None at every Optional, every collection empty (the payload reaches as few positions as possible)"""
    k = a[0]
    rec = lambda x, d: payload(rng, x, W, d, self_fields, none_ok, minimal)  # noqa: E731
    if k == "lf":
        n = a[1]
        if n in ("int", "NT"):
            return rng.choice([rng.randint(-9, 99), str(rng.randint(0, 50)), rng.randint(0, 5)])
        if n == "str":
            return rng.choice(["a", "bc", str(rng.randint(0, 9)), rng.randint(0, 9)])
        if n == "float":
            return rng.choice([1.5, 2, "3.5", rng.randint(0, 9) + 0.25])
        if n == "bool":
            return rng.choice([True, False, 1, 0])
        if n == "None":
            return None
        if n in ("Leaf", "T!cls"):
            return {"v": rng.choice([1, "2", 3])}
        if n in LITERALS:
            return rng.choice(LITERALS[n])
        raise ValueError(a)
    if k == "ann":
        return rec(a[1], depth)
    if k == "self":
        if depth >= 2 or self_fields is None:
            return None
        return {fn: rec(t, depth + 1) for fn, t in self_fields}
    if k == "pu":
        ms = [m for m in a[1] if m != LF("None")]
        if len(ms) < len(a[1]) and (minimal or (none_ok and rng.random() < 0.3)):
            return None
        return rec(ms[0], depth)
    c, args = a[1], a[2]
    if c in ALIASES:
        return rec(expand_aliases(a), depth)
    if c in ("list", "List", "set", "frozenset"):
        if minimal:
            return []
        xs = [rec(args[0], depth + 1) for _ in range(rng.randint(0, 2) if depth and none_ok else rng.randint(1, 2))]
        if c in ("set", "frozenset"):
            # element payloads of a set must be hashable: otherwise both sides fail alike and nothing is compared
            xs = [x for x in xs if isinstance(x, (int, str, float, bool))] or xs
        return xs
    if c == "dict":
        if minimal:
            return {}
        out = {}
        for _ in range(rng.randint(1, 2)):
            key = rec(args[0], depth + 1) if args[0][0] == "lf" and args[0][1] in SCALARS and args[0][1] != "str" \
                else rng.choice(["k", "l", "m"])
            out[key] = rec(args[1], depth + 1)
        return out
    if c == "tuple":
        if len(args) == 2 and args[1] == LF("..."):
            return [] if minimal else [rec(args[0], depth + 1) for _ in range(rng.randint(0 if none_ok else 1, 2))]
        return [rec(x, depth + 1) for x in args]
    if c == "Union":
        ms = [m for m in args if m != LF("None")]
        if len(ms) < len(args) and (minimal or depth >= 2 and has_self(a) or (none_ok and rng.random() < 0.3)):
            return None
        if len(ms) != 1:
            raise Unpayloadable(a)
        return rec(ms[0], depth)
    if c == "In":
        return {"v": rec(args[0], depth + 1)}
    if c == "NotRequired":
        return rec(args[0], depth)
    raise Unpayloadable(a)


def is_notrequired(a):
    return a[0] == "app" and a[1] == "NotRequired"


def class_payload(rng, fields, W, self_fields, mode):
    """a payload for a whole class.  mode: 'random' | 'full' (reaches every position: no None, every NotRequired key
    present) | 'minimal' (None, empty collections, NotRequired keys absent)"""
    out = {}
    for fn, t in fields:
        if is_notrequired(t) and (mode == "minimal" or (mode == "random" and rng.random() < 0.3)):
            continue
        out[fn] = payload(rng, t, W, 0, self_fields, none_ok=(mode != "full"), minimal=(mode == "minimal"))
    return out


class Unpayloadable(Exception):
    pass


def mutate(rng, p):
    """one structural mutation somewhere in the payload (may or may not make it invalid)"""
    paths = []

    def rec(x, path):
        paths.append(path)
        if isinstance(x, dict):
            for k in x:
                rec(x[k], path + [k])
        elif isinstance(x, list):
            for i in range(len(x)):
                rec(x[i], path + [i])

    rec(p, [])
    path = rng.choice(paths)
    op = rng.choice(["junk-str", "none", "delete", "list", "dict", "int", "nest"])
    import copy
    q = copy.deepcopy(p)
    if not path:
        if op == "delete" and isinstance(q, dict) and q:
            q.pop(rng.choice(sorted(q)))
            return q, op
        return {"junk-str": "zz", "none": None, "list": [], "dict": {}, "int": 7, "nest": [[1]], "delete": "zz"}[op], op
    cur = q
    for s in path[:-1]:
        cur = cur[s]
    last = path[-1]
    if op == "delete":
        if isinstance(cur, dict):
            del cur[last]
        else:
            cur.pop(last)
    else:
        cur[last] = {"junk-str": "zz", "none": None, "list": [], "dict": {}, "int": 7, "nest": [[1]]}[op]
    return q, op


# =====================================================================================================
# observables
# =====================================================================================================

def canon_val(v, W):
    """exact-class canonical form; instances of the copy and of the generic class are identified"""
    if attrs.has(type(v)) or dataclasses.is_dataclass(v) and not isinstance(v, type):
        cn = type(v).__name__
        if cn.startswith("Copy" + W.sfx):
            cn = W.names[W.spec["levels"][0]["name"]]
        if attrs.has(type(v)):
            fs = [(f.name, getattr(v, f.name)) for f in attrs.fields(type(v))]
        else:
            fs = [(f.name, getattr(v, f.name)) for f in dataclasses.fields(v)]
        return ["I", cn, [[n, canon_val(x, W)] for n, x in fs]]
    if isinstance(v, dict):
        return ["d", type(v).__name__, [[canon_val(k, W), canon_val(x, W)] for k, x in v.items()]]
    if isinstance(v, (list, tuple)):
        return [type(v).__name__, [canon_val(x, W) for x in v]]
    if isinstance(v, (set, frozenset)):
        return [type(v).__name__, sorted(json.dumps(canon_val(x, W)) for x in v)]
    return [type(v).__name__, repr(v)]


def attempt(f):
    try:
        return ("ok", f())
    except RecursionError:
        raise
    except Exception as e:  # noqa: BLE001
        return ("err", type(e).__name__)


def obs(r, W):
    return ["ok", canon_val(r[1], W)] if r[0] == "ok" else ["err"]


def _at_depth(k, f):
    return f() if k == 0 else _at_depth(k - 1, f)


class DepthScan:
    """Found by this check and repaired in /repo (F40): TypedDict structure hooks have no `already_generating` set, so a
    TypedDict that refers to itself (`Self`) ends the recursion by really overflowing the Python stack;
    `MultiStrategyDispatch` used to swallow a RecursionError raised inside `functools.singledispatch`
    (`except Exception: pass`) and reported the leaf type as unsupported instead — depending only on the caller's
    stack depth.  For such worlds every structure call is therefore evaluated at 10 consecutive depths: the comparison
    with the copy uses the depth-stable (majority) outcome, and any depth dependence is itself a VIOLATION."""

    def __init__(self, W, active):
        self.W = W
        self.active = active
        self.varied = None  # first (description, outcomes) seen

    def attempt(self, f, what=""):
        if not self.active:
            return attempt(f)
        rs = [attempt(lambda k=k: _at_depth(k, f)) for k in range(10)]
        keys = [json.dumps(obs(r, self.W)) for r in rs]
        best = max(sorted(set(keys)), key=keys.count)
        if len(set(keys)) > 1 and self.varied is None:
            self.varied = (what, [k[:40] for k in keys])
        return rs[keys.index(best)]


# =====================================================================================================
# finding predicates (on the SHAPE of the input, never on the failure)
# =====================================================================================================

def _all_field_anns(spec):
    for lv in spec["levels"]:
        for _, a in lv["own"]:
            yield a


def shape_pep604(spec):
    """some field contains a PEP 604 union with a member that is not closed (mentions a type variable or Self);
    for a generic alias: additionally, the alias value itself is a PEP 604 union (closed or not)"""
    if spec.get("kind") == "alias" and spec["levels"][0]["own"][0][1][0] == "pu":
        return True
    for a in _all_field_anns(spec):
        for x in walk(a):
            if x[0] == "pu" and not all(is_closed(m) for m in x[1]):
                return True
    return False


def is_plain_level(levels, i):
    """level i is a plain subclass: no parameters, parent (without parameters) listed unsubscripted -> no
    `__orig_bases__` of its own, the parent's are found by attribute lookup"""
    return i + 1 < len(levels) and not levels[i]["params"] and not levels[i]["base_args"] and not levels[i + 1]["params"]


def collapse_plain(levels):
    """merge every plain level into its parent: the parent's parameters, defaults, base arguments, `Generic[...]` flag
    and mixin positions; the child's name, and its fields after the parent's"""
    levels = [dict(lv) for lv in levels]
    plain = [is_plain_level(levels, i) for i in range(len(levels))]
    i = len(levels) - 2
    while i >= 0:
        if plain[i]:
            child, parent = levels[i], levels[i + 1]
            levels[i:i + 2] = [dict(parent, name=child["name"], own=list(parent["own"]) + list(child["own"]))]
        i -= 1
    return levels


def shape_base_binding(spec):
    """the class has a parametrised base whose arguments mention a TypeVar other than by same-name pass-through, or a
    closed argument bound to a base parameter named like one of the class's own, or a chain deeper than one level in
    which a level >= 1 binds anything but the same-named variable"""
    lv = collapse_plain(spec["levels"])
    if len(lv) < 2:
        return False
    own = set(lv[0]["params"])
    bps = lv[1]["params"]
    for bp, a in zip(bps, lv[0]["base_args"]):
        if a[0] == "tv":
            if a[1] != bp:
                return True
        elif not is_closed(a):
            return True
        elif bp in own:
            return True
    for i in range(1, len(lv) - 1):
        for bp, a in zip(lv[i + 1]["params"], lv[i]["base_args"]):
            if not (a[0] == "tv" and a[1] == bp):
                return True
    return False


def shape_self_generic(spec):
    """the structured class is generic (has parameters) and some field mentions Self"""
    return bool(spec["levels"][0]["params"]) and any(has_self(a) for a in _all_field_anns(spec))


@framework.finding("c17_pep604_union_with_parametrised_member")
def _f27(case):
    return bool(case.get("spec")) and shape_pep604(case["spec"]) and case.get("op") in ("structure", "resolve", "alias", "refusal")


@framework.finding("c17_base_binding_by_name_not_composed")
def _f28(case):
    return bool(case.get("spec")) and shape_base_binding(case["spec"]) and not shape_pep604(case["spec"])


@framework.finding("c17_self_in_generic_class_is_unparametrised_origin")
def _f29(case):
    return (bool(case.get("spec")) and shape_self_generic(case["spec"]) and not shape_pep604(case["spec"])
            and not shape_base_binding(case["spec"]))


F50_SIG = "c17_generic_alias_unstructured_by_unsubstituted_value"


def mentions_alias(a):
    return any(x[0] == "app" and x[1] in ALIASES for x in walk(a))


@framework.finding(F50_SIG)
def _f50(case):
    """F50: the UNSTRUCTURE hook of a parametrised PEP 695 generic alias is the hook of the alias' unsubstituted value
    (`lambda t: self.get_unstructure_hook(get_type_alias_base(t))`): the arguments are ignored.  Recognised only on the
    unstructure side, and only when every field whose unstructured form differs from the copy's is annotated with a type
    that mentions a generic alias (or `Self`: a nested instance of the same class, provided an alias-typed field differs too)."""
    if case.get("op") == "alias-unstructure":
        return True
    if case.get("op") != "unstructure" or not case.get("spec") or not case.get("diff_fields"):
        return False
    anns = {fn: a for lv in case["spec"]["levels"] for fn, a in lv["own"]}
    df = case["diff_fields"]
    # (a field typed with `Self` holds a nested instance of the same class, alias-typed fields included)
    # ... and when ONLY Self-typed fields differ (the outer alias-typed field held an empty / identical payload), the
    # difference sits in the alias-typed field of the NESTED instance: the class must have such a field
    return (all(fn in anns and (mentions_alias(anns[fn]) or has_self(anns[fn])) for fn in df)
            and (any(mentions_alias(anns[fn]) for fn in df)
                 or (any(has_self(anns[fn]) for fn in df) and any(mentions_alias(a) for a in anns.values()))))


F51_SIG = "c17_bare_subclass_of_passthrough_base_refused_only_when_reached"


def shape_passthrough(spec):
    """the head class hands one of its own parameters on to its parametrised base (`class G(B[T], Generic[T])`)"""
    lv = spec["levels"]
    return len(lv) >= 2 and any(a[0] == "tv" and a[1] in lv[0]["params"] for a in lv[0]["base_args"])


@framework.finding(F51_SIG)
def _f51(case):
    """F51: for the BARE class `G` of `class G(B[T], Generic[T])`, `generate_mapping` records `T -> ~T` (the loop over
    `__orig_bases__` does not skip TypeVar arguments), so "Missing type for generic argument" never fires and whether
    structuring is refused depends on whether the payload reaches `T`.  Recognised by the shape of the input only:
    refusal probe of the bare class whose head hands a parameter on to its base."""
    return (case.get("op") == "refusal" and case.get("unbound") == "bare" and bool(case.get("spec"))
            and shape_passthrough(case["spec"]))


F63_SIG = "c17_typeddict_subclass_does_not_inherit_base_binding"


def shape_unsubscripted_base(spec):
    """some class lists its parent unsubscripted: a plain subclass (`class Leaf(IntNode)`) or a class that only adds
    a parameter (`class Tagged(Leaf, Generic[W])`), above a class that binds a parameter of ITS base"""
    lv = spec["levels"]
    return any(not lv[i]["base_args"] and len(lv) > i + 2 for i in range(len(lv) - 1))


@framework.finding(F63_SIG)
def _f63(case):
    """F63: every TypedDict class gets `__orig_bases__` of its own (its literal bases), so a TypedDict that lists its
    parent unsubscripted does not see the parent's `Node[NT]`: the inherited binding T -> NT is lost (attrs classes and
    dataclasses find the parent's `__orig_bases__` by attribute lookup).  Recognised by the shape of the input only:
    a TypedDict hierarchy with an unsubscripted parent above a class that binds a parameter."""
    return bool(case.get("spec")) and case["spec"].get("kind") == "typeddict" and shape_unsubscripted_base(case["spec"])


def finding_shape(spec):
    return shape_pep604(spec) or shape_base_binding(spec) or shape_self_generic(spec)


def diff_fields(oG, oM):
    """names of the fields whose unstructured forms differ (None when that cannot be told)"""
    try:
        uG, uM = oG[2], oM[2]
        if uG[0] != "ok" or uM[0] != "ok" or uG[1][0] != "d" or uM[1][0] != "d":
            return None
        dG = {json.dumps(k): json.dumps(v) for k, v in uG[1][2]}
        dM = {json.dumps(k): json.dumps(v) for k, v in uM[1][2]}
        return sorted(json.loads(k)[1].strip("'") for k in set(dG) | set(dM) if dG.get(k) != dM.get(k))
    except (IndexError, TypeError, KeyError):
        return None


# =====================================================================================================
# the per-world evaluation
# =====================================================================================================

def resolved_types_real(W, hook):
    """field types bound into a generated structure hook (defaults named __c_type_<field|index>)"""
    sig = inspect.signature(hook)
    out = {}
    for n, p in sig.parameters.items():
        if n.startswith("__c_type_"):
            out[n[len("__c_type_"):]] = p.default
    return out


class _SpyConverter(Converter):
    """records the types whose unstructure hooks a generator asks for (the unstructure templates bind handlers, not
    types, so this is the only place where the rewritten field types of the unstructure side can be observed)"""

    def get_unstructure_hook(self, t, cache_result=True):
        if getattr(self, "spy_on", False):
            self.seen.append(t)
            return _spy_hook
        return super().get_unstructure_hook(t, cache_result)


    def get_structure_hook(self, t, cache_result=True):
        if getattr(self, "spy_on", False):
            self.seen.append(t)
            return _spy_struct_hook
        return super().get_structure_hook(t, cache_result)


def _spy_hook(v):
    return v


def _spy_struct_hook(v, t):
    return v


def structure_types_real(tgt, td, detailed):
    """the types for which the structure generator itself asks for handlers (independent of whether hooks for those
    types can be created): the field types it binds, in field order"""
    from cattrs.gen import make_dict_structure_fn
    from cattrs.gen.typeddicts import make_dict_structure_fn as make_td_structure_fn
    spy = _SpyConverter(detailed_validation=detailed)
    spy.seen = []
    spy.spy_on = True
    (make_td_structure_fn if td else make_dict_structure_fn)(tgt, spy, _cattrs_detailed_validation=detailed)
    return spy.seen


def unstructure_types_real(tgt, td):
    from cattrs.gen import make_dict_unstructure_fn
    from cattrs.gen.typeddicts import make_dict_unstructure_fn as make_td_unstructure_fn
    spy = _SpyConverter()
    spy.seen = []
    spy.spy_on = True
    (make_td_unstructure_fn if td else make_dict_unstructure_fn)(tgt, spy)
    return spy.seen


def strip_nr(a):
    return a[2][0] if a[0] == "app" and a[1] == "NotRequired" else a


def is_generic_real(W, args):
    from cattrs._compat import is_generic
    return is_generic(W.target(args))


def eval_world(chk, drv, spec, n_payloads, corr_fail, label=None):
    """returns list of P failures [(what, case)] (not yet reported)"""
    rng = chk.rng
    try:
        W = World(spec)
    except Exception as e:  # noqa: BLE001  python itself rejects the class statement
        chk.note("world-rejected-by-python:" + type(e).__name__)
        return []
    spec = W.spec
    if W.normalised:
        chk.note("annotations-normalised-by-typing")
    kind = spec["kind"]
    fails = []
    chain = W.chain_sx()
    td = kind == "typeddict"
    scan = DepthScan(W, td and any(has_self(a) for a in _all_field_anns(spec)))
    shared = {True: W.converter(True), False: W.converter(False)}
    modelled = W.modelled()
    if not modelled:
        chk.note("unmodelled-world")
    first_results = {}
    for ai, args0 in enumerate(spec["argsets"]):
        try:
            tgt = W.target(args0)
        except Exception as e:  # noqa: BLE001
            chk.note("target-rejected-by-typing:" + type(e).__name__)
            continue
        # what get_args returns is supplied to the model by the harness (typing fills PEP 696 defaults in)
        if args0 is None:
            full_args = None
            eff_args = [spec["levels"][0]["defaults"][p] for p in spec["levels"][0]["params"]] \
                if all(p in spec["levels"][0]["defaults"] for p in spec["levels"][0]["params"]) else []
            tg_sx = "bare"
        else:
            full_args = [W.canon(x) for x in typing.get_args(tgt)]
            eff_args = full_args
            tg_sx = "(alias " + " ".join(ann_sx(a) for a in full_args) + ")"
        case0 = {"spec": spec, "args": args0, "label": label, "target_kind": "bare" if args0 is None else "alias"}
        in_scope = modelled and drv.ask("SCOPE %s (%s) %s" % (chain, " ".join(ann_sx(a) for a in eff_args), tg_sx)) == "1" \
            and all(drv.ask("INSCOPE " + ann_sx(a)) == "1" for a in _all_field_anns(spec))
        if args0 is None and spec["levels"][0]["params"] and not eff_args:
            in_scope = False
        fshape = finding_shape(spec)
        if in_scope and fshape:
            raise lean.InfraError("finding predicate matches an in-scope case: " + json.dumps(spec))
        if not in_scope and not fshape and modelled:
            chk.note("out-of-scope-without-finding-shape")
        chk.note("scope:" + ("in" if in_scope else "out"))
        Copy, copy_code, mono = W.copy_class(eff_args)
        key = json.dumps([spec["levels"], args0, kind, spec["style"]])
        chk.count(key, nontrivial=True,
                  sample={"shape": spec["shape"], "kind": kind, "style": spec["style"], "target": str(tgt), "copy": copy_code})

        rh = ("err", "unmodelled")
        if modelled:
            # ---------- correspondence: MONO (Lean spec == the oracle's copy)
            self_spec = LF(spec["levels"][0]["name"]) if not spec["levels"][0]["params"] else APP(spec["levels"][0]["name"], *eff_args)
            rm = drv.ask("MONO %s (%s) %s" % (chain, " ".join(ann_sx(a) for a in eff_args), ann_sx(self_spec)))
            mono_model = pairs_of(parse_sx(rm))
            mono_oracle = W.mono_fields(eff_args, self_to=self_spec)
            chk.note("corr:MONO")
            if [[n, a] for n, a in mono_model] != [[n, a] for n, a in mono_oracle]:
                corr_fail.append(("MONO", dict(case0, op="mono"), json.dumps(mono_oracle), rm))

            # ---------- correspondence: GENMAP
            if is_generic_real(W, args0):
                ri = attempt(lambda: generate_mapping(tgt))
                rm = drv.ask("GENMAP %s %s" % (chain, tg_sx))
                if ri[0] == "ok":
                    real_map = sorted((k, json.dumps(W.canon(v))) for k, v in ri[1].items())
                    model_map = sorted((k, json.dumps(W.canon(W.real(a)))) for k, a in pairs_of(parse_sx(rm)))
                    chk.note("corr:GENMAP")
                    if real_map != model_map:
                        corr_fail.append(("GENMAP", dict(case0, op="genmap"), repr(real_map), rm))
                else:
                    corr_fail.append(("GENMAP", dict(case0, op="genmap"), "raised " + ri[1], rm))

            # ---------- correspondence: RESOLVE, on the generator alone (both templates): the types it asks handlers for
            for det in (True, False):
                gop = ("STRUCTGENTD" if det else "STRUCTGENTDFAST") if td else "STRUCTGEN"
                rmg = drv.ask("%s %s %s" % (gop, chain, tg_sx))
                rs = attempt(lambda: structure_types_real(tgt, td, det))
                chk.note("corr:RESOLVE-generator")
                gcase = dict(case0, op="resolve", detailed=det)
                if rmg == "refused":
                    if rs[0] == "ok":
                        corr_fail.append(("RESOLVE", gcase, "generator did not refuse", rmg))
                elif rs[0] != "ok":
                    corr_fail.append(("RESOLVE", gcase, "generator raised " + rs[1], rmg))
                else:
                    mg = pairs_of(parse_sx(rmg)[1])
                    if td and not det:
                        # the fast TypedDict template asks for the handlers of the required keys first, then for the others
                        nr = {fn for lv in spec["levels"] for fn, a in lv["own"] if is_notrequired(a)}
                        mg = [x for x in mg if x[0] not in nr] + [x for x in mg if x[0] in nr]
                    if not td:
                        # a field whose (substituted) type is `None` counts as untyped: the attrs / dataclass template asks for no handler
                        mg = [x for x in mg if x[1] != LF("None")]
                    want_g = [json.dumps(W.canon(W.real(strip_nr(a)))) for _, a in mg]
                    got_g = [json.dumps(W.canon(t)) for t in rs[1]]
                    if differ_beyond_union_spelling(chk, got_g, want_g):
                        corr_fail.append(("RESOLVE", gcase, json.dumps(got_g), rmg))

            # ---------- correspondence: RESOLVE (types bound into the real hook)
            convd = W.converter(True)
            rh = scan.attempt(lambda: convd.get_structure_hook(tgt), "get_structure_hook(%s)" % tgt)
            # (the real hook inspected is the detailed-validation one; for TypedDicts that template rewrites twice)
            rm = drv.ask("%s %s %s" % ("STRUCTGENTD" if td else "STRUCTGEN", chain, tg_sx))
            refuses = drv.ask("%s %s %s" % ("REFUSESTD" if td else "REFUSES", chain, tg_sx)) == "1"
            chk.note("corr:RESOLVE")
            if rm == "refused":
                if rh[0] == "ok":
                    corr_fail.append(("RESOLVE", dict(case0, op="resolve"), "hook created", rm))
            else:
                model_fields = pairs_of(parse_sx(rm)[1])
                if rh[0] == "ok":
                    real_t = resolved_types_real(W, rh[1])
                    if real_t:  # a refactor may rename the generated parameters: then this observable is unavailable
                        names = [fn for fn, _ in model_fields]
                        for ix, (fn, a) in enumerate(model_fields):
                            k = str(ix) if td else fn
                            if k not in real_t:
                                continue
                            want = json.dumps(W.canon(W.real(strip_nr(a))))
                            got = json.dumps(W.canon(real_t[k]))
                            if differ_beyond_union_spelling(chk, got, want):
                                corr_fail.append(("RESOLVE", dict(case0, op="resolve"), "%s: real=%s model(normalised)=%s" % (fn, got, want), rm))
                                break
                    else:
                        chk.note("resolve-observable-unavailable")
                elif not refuses:
                    # the hook could not be created although the generator itself accepts the class (checked above) and no
                    # type variable is left: a handler for one of the bound types cannot be created.  Inside the theorems'
                    # scope that is a broken correspondence; in a recorded finding's shape it is the finding's consequence
                    # (e.g. F29: `list[Self]` in `G[int]` is bound as `list[G]`, and the bare `G` is refused)
                    if in_scope and attempt(lambda: W.converter(True).get_structure_hook(Copy))[0] != "ok":
                        # not about type parameters: the non-generic copy has a field type without a hook, too
                        # (e.g. `Optional[U]` with U := None is `NoneType`, for which cattrs has no structure hook)
                        chk.note("hook-creation-fails-for-the-copy-too")
                    elif in_scope:
                        corr_fail.append(("RESOLVE", dict(case0, op="resolve"), "raised " + rh[1], rm))
                    else:
                        chk.note("hook-creation-failed-downstream-of-a-finding-shape")

            # ---------- correspondence: RESOLVEUN (types whose hooks the unstructure generator asks for)
            ru = attempt(lambda: unstructure_types_real(tgt, td))
            rmu = parse_sx(drv.ask("UNSTRUCTGEN %s %s" % (chain, tg_sx)))[1]
            want_u = [json.dumps(W.canon(W.real(strip_nr(ann_of(x[1]))))) for x in rmu if x[1] != "late"]
            chk.note("corr:RESOLVEUN")
            if ru[0] != "ok":
                corr_fail.append(("RESOLVEUN", dict(case0, op="resolve"), "raised " + ru[1], json.dumps(want_u)))
            else:
                got_u = [json.dumps(W.canon(t)) for t in ru[1]]
                if td and rmu and rmu[0][1] != "late":
                    # the TypedDict generator first probes for an all-identity class and stops at the first handler that is not
                    got_u = got_u[1:]
                if differ_beyond_union_spelling(chk, got_u, want_u):
                    corr_fail.append(("RESOLVEUN", dict(case0, op="resolve"), json.dumps(got_u), json.dumps(want_u)))

            # ---------- correspondence: MANGLE (function name of the generated hook)
            if rh[0] == "ok" and args0 is not None and kind != "typeddict":
                m = generate_mapping(tgt) if is_generic_real(W, args0) else {}
                nm = []
                for p in W.cls.__parameters__:
                    nb = m.get(p.__name__)
                    nm.append(getattr(nb, "__name__", None) or str(nb))
                if all(m.get(p.__name__) is not None for p in W.cls.__parameters__) and not fshape:
                    rmn = drv.ask("MANGLE %s (%s)" % (esc(W.cls.__name__), " ".join(esc(x) for x in nm)))
                    chk.note("corr:MANGLE")
                    if parse_sx(rmn)[1] != rh[1].__name__:
                        corr_fail.append(("MANGLE", dict(case0, op="mangle"), rh[1].__name__, rmn))

        # ---------- oracle P: G[args] behaves like the copy
        self_fields = mono
        pls = []
        for _ in range(n_payloads):
            try:
                pl = class_payload(rng, mono, W, self_fields, "random")
            except Unpayloadable:
                chk.note("unpayloadable")
                continue
            pls.append(("valid", pl))
            for _ in range(2):
                q, op = mutate(rng, pl)
                pls.append(("mut:" + op, q))
        # a tagging field converter leaves values in the instance that do not have the declared type of their field:
        # unstructuring such an instance says nothing (and cannot be localised); those worlds are compared on structure only
        with_un = not any(v == "tag" for lv in spec["levels"] for v in lv.get("conv", {}).values())
        for det in (True, False):
            fresh_copy = W.converter(det)
            for pk, pl in pls:
                outs = {}
                for cn, conv in (("shared", shared[det]), ("fresh", W.converter(det))):
                    rG = scan.attempt(lambda: conv.structure(pl, tgt), "structure(%r, %s)" % (pl, tgt))
                    oG = obs(rG, W)
                    if rG[0] == "ok" and with_un:
                        uG = attempt(lambda: conv.unstructure(rG[1], tgt))
                        oG.append(["ok", canon_val(uG[1], W)] if uG[0] == "ok" else ["err"])
                    outs[cn] = oG
                rM = scan.attempt(lambda: fresh_copy.structure(pl, Copy), "structure(%r, <copy of %s>)" % (pl, tgt))
                oM = obs(rM, W)
                if rM[0] == "ok" and with_un:
                    uM = attempt(lambda: fresh_copy.unstructure(rM[1], Copy))
                    oM.append(["ok", canon_val(uM[1], W)] if uM[0] == "ok" else ["err"])
                chk.note("payload:" + pk.split(":")[0], "copy:" + oM[0])
                chk.evaluations += 1
                for cn in ("shared", "fresh"):
                    if outs[cn] != oM:
                        which = "structure" if outs[cn][:2] != oM[:2] else "unstructure"
                        df = diff_fields(outs[cn], oM) if which == "unstructure" else None
                        fails.append((
                            "C17 oracle: %s of %s on a %s converter (detailed=%s) differs from the monomorphised copy%s: "
                            "payload=%r generic=%s copy=%s" % (which, tgt, cn, det, " in fields %s" % df if df else "", pl,
                                                               json.dumps(outs[cn][2:] if df else outs[cn])[:400],
                                                               json.dumps(oM[2:] if df else oM)[:400]),
                            dict(case0, op=which, payload=repr(pl), detailed=det, converter=cn, in_scope=in_scope, diff_fields=df)))
                        break
                if ai == 0 and pk == "valid" and (det, "first") not in first_results:
                    first_results[(det, "first")] = (pl, tgt, outs["shared"])
        # interference: the first parametrisation again, after the second one was used on the same converter
        if ai == len(spec["argsets"]) - 1 and ai > 0:
            for det in (True, False):
                if (det, "first") in first_results:
                    pl, tgt1, before = first_results[(det, "first")]
                    rG = scan.attempt(lambda: shared[det].structure(pl, tgt1))
                    oG = obs(rG, W)
                    if rG[0] == "ok" and with_un:
                        uG = attempt(lambda: shared[det].unstructure(rG[1], tgt1))
                        oG.append(["ok", canon_val(uG[1], W)] if uG[0] == "ok" else ["err"])
                    chk.note("interference-recheck")
                    if oG != before:
                        fails.append(("C17 oracle: result for %s changed after another parametrisation was used on the same converter"
                                      % tgt1, dict(case0, op="interference", payload=repr(pl), detailed=det, in_scope=in_scope)))

        # ---------- oracle P: an unbound parameter without default is refused -- whatever the payload
        lv0 = spec["levels"][0]
        if args0 is not None and lv0["params"] and not lv0["defaults"]:
            # a field with an attrs converter is exempt: when no hook can be found for its type the documented rule
            # (C20) hands the raw value to the converter; the refusal is owed to the fields without converter
            used = set()
            for fn, a in lv0["own"]:
                if fn not in lv0.get("conv", {}):
                    used |= tvars(a)
            for unb in ("bare", "tvar"):
                if not (set(lv0["params"]) & used):
                    continue
                if unb == "bare":
                    t_unb = W.cls
                    tgu = "bare"
                else:
                    cand = [i for i, p in enumerate(lv0["params"]) if p in used]
                    keep = rng.choice(cand)
                    mixed = [TV(p) if i == keep else a for i, (p, a) in enumerate(zip(lv0["params"], args0))]
                    t_unb = W.target(mixed)
                    tgu = "(alias " + " ".join(ann_sx(a) for a in mixed) + ")"
                mref = drv.ask("%s %s %s" % ("REFUSESTD" if td else "REFUSES", chain, tgu)) if modelled else "1"
                # the generator alone (both templates): the model refuses iff generating the hook raises
                for det in ((True, False) if modelled else ()):
                    gop = ("STRUCTGENTD" if det else "STRUCTGENTDFAST") if td else "STRUCTGEN"
                    rmg = drv.ask("%s %s %s" % (gop, chain, tgu))
                    rs = attempt(lambda: structure_types_real(t_unb, td, det))
                    chk.note("corr:RESOLVE-generator-unbound")
                    if (rmg == "refused") != (rs[0] != "ok") and in_scope:
                        corr_fail.append(("RESOLVE", dict(case0, op="resolve", detailed=det, unbound=tgu),
                                          "generator " + ("raised " + str(rs[1]) if rs[0] != "ok" else "did not refuse"), rmg))
                # payloads that reach the parameter, payloads that do not (None / empty collections / absent keys), random ones
                for mode in ("full", "minimal", "random"):
                    try:
                        pl = class_payload(rng, mono, W, self_fields, mode)
                    except Unpayloadable:
                        continue
                    for det in (True, False):
                        r = scan.attempt(lambda: W.converter(det).structure(pl, t_unb))
                        chk.note("unbound:" + unb, "unbound-payload:" + mode, "unbound-result:" + r[0])
                        chk.evaluations += 1
                        if r[0] == "ok":
                            fails.append(("C17 oracle: structuring %s with an unbound type parameter was not refused (%s payload): payload=%r result=%r"
                                          % (t_unb, mode, pl, r[1]),
                                          dict(case0, op="refusal", unbound=unb, payload=repr(pl), payload_mode=mode, detailed=det, in_scope=in_scope)))
                        elif mref != "1" and in_scope:
                            corr_fail.append(("RESOLVE", dict(case0, op="resolve"), "refused", "model does not refuse " + tgu))
    if scan.varied is not None:
        chk.note("depth-dependent-world")
        fails.append(("C17 oracle (determinism): the outcome of %s depends on the call-stack depth: %s" % scan.varied,
                      {"spec": spec, "op": "depth-dependence", "label": label}))
    for k in [k for k in linecache.cache if k.startswith("<cattrs generated")]:
        del linecache.cache[k]
    return fails


# =====================================================================================================
# deep_copy_with / alias differential
# =====================================================================================================

def gen_ann(rng, depth, vars_):
    r = rng.random()
    if depth <= 0 or r < 0.25:
        return rng.choice([TV(rng.choice(vars_)), LF(rng.choice(SCALARS)), LF("None"), SELF, LF("Leaf"), LF("T!cls"), LF("In")])
    r = rng.random()
    if r < 0.2:
        return APP(rng.choice(["list", "List"]), gen_ann(rng, depth - 1, vars_))
    if r < 0.3:
        return APP("dict", LF("str"), gen_ann(rng, depth - 1, vars_))
    if r < 0.4:
        return APP("tuple", gen_ann(rng, depth - 1, vars_), rng.choice([LF("..."), LF("int"), gen_ann(rng, depth - 1, vars_)]))
    if r < 0.52:
        return OPT(gen_ann(rng, depth - 1, vars_))
    if r < 0.6:
        return APP("Union", gen_ann(rng, depth - 1, vars_), LF("int"), LF("None"))
    if r < 0.72:
        return ANN(gen_ann(rng, depth - 1, vars_), *rng.choice([["m"], ["m", "k"]]))
    if r < 0.82:
        return APP("In", gen_ann(rng, depth - 1, vars_))
    if r < 0.88:
        al = rng.choice(sorted(ALIASES))
        return APP(al, *[gen_ann(rng, depth - 1, vars_) for _ in ALIASES[al][0]])
    a = gen_ann(rng, depth - 1, vars_)
    if not (a[0] == "app" and a[1] in ("list", "dict", "tuple")) and not (a[0] == "lf" and a[1] in SCALARS):
        # only classes and builtin generic aliases make a types.UnionType with `|`; `T | None`, `Self | None`,
        # `List[T] | None`, `In[T] | None` are typing.Optional
        a = APP("list", a)
    return PU(a, LF("None"))


DCW_SPEC = {"shape": "dcw", "kind": "attrs", "style": "generic", "target": "alias", "argsets": [], "occ": [],
            "levels": [{"name": "G", "params": ["T", "U"], "defaults": {}, "generic_base": True, "own": [("a", TV("T")), ("b", TV("U"))],
                        "base_args": [], "dflt_none": []}]}


def dcw_round(chk, drv, n, corr_fail):
    rng = chk.rng
    W = World(DCW_SPEC)
    from attrs import NOTHING
    for _ in range(n):
        t = gen_ann(rng, rng.randint(1, 3), ["T", "U", "V"])
        m = {}
        for v in ("T", "U", "V"):
            if rng.random() < 0.7:
                m[v] = gen_closed_arg(rng)
        use_self = rng.random() < 0.5
        try:
            rt = W.real(t)
            real_m = {k: W.real(v) for k, v in m.items()}
        except Exception:  # noqa: BLE001  typing refuses to build the annotation
            chk.note("dcw-unrealisable")
            continue
        t_c = W.canon(rt)  # typing may normalise the annotation (Union flattening …): feed the model what typing built
        ri = attempt(lambda: deep_copy_with(rt, real_m, W.cls if use_self else NOTHING))
        rm = drv.ask("DCW %s %s %s" % (pairs_sx(sorted(m.items())), "(lf \"G\")" if use_self else "none", ann_sx(t_c)))
        chk.count("dcw" + ann_sx(t_c) + json.dumps(m, sort_keys=True) + str(use_self), nontrivial=t[0] != "lf",
                  sample={"op": "DCW", "t": str(rt), "mapping": {k: str(v) for k, v in real_m.items()}, "model": rm})
        chk.note("corr:DCW", "dcw-top:" + t_c[0])
        case = {"op": "dcw", "t": t_c, "mapping": m, "self": use_self}
        if rm == "err":
            if ri[0] != "err":
                corr_fail.append(("DCW", case, "ok " + str(ri[1]), rm))
            continue
        mo = ann_of(parse_sx(rm)[1])
        if ri[0] == "err":
            corr_fail.append(("DCW", case, "raised " + ri[1], rm))
            continue
        got = json.dumps(W.canon(ri[1]))
        try:
            want = json.dumps(W.canon(W.real(mo)))
        except Exception:  # noqa: BLE001
            want = json.dumps(mo)
        if got != want:
            if json.dumps(fold_union_spelling(json.loads(got))) == json.dumps(fold_union_spelling(json.loads(want))):
                chk.note("dcw-typing-interned-union-spelling")
                continue
            corr_fail.append(("DCW", case, got, rm))
        # the specification agrees wherever the model says the shape is in scope (C17_subst_partial, sampled)
        # (deep_copy_with proper is only ever called on parametrised annotations; a bare TypeVar is the templates' job)
        if t_c[0] in ("app", "ann") and drv.ask("INSCOPE " + ann_sx(t_c)) == "1":
            sp = drv.ask("SUBST %s %s %s" % (pairs_sx(sorted(m.items())), "(lf \"G\")" if use_self else "self", ann_sx(t_c)))
            try:
                spec_c = json.dumps(W.canon(W.real(ann_of(parse_sx(sp)))))
            except Exception:  # noqa: BLE001
                spec_c = None
            if spec_c is not None and spec_c != got and \
                    json.dumps(fold_union_spelling(json.loads(spec_c))) != json.dumps(fold_union_spelling(json.loads(got))):
                corr_fail.append(("DCW", dict(case, op="dcw-vs-spec"), got, sp))


def alias_value(rng, ps):
    """the value of a generic alias with declared parameters `ps`: a random subset of them (at least one), each used
    once or several times, in an order unrelated to the declaration order -> (shape name, annotation)"""
    used = rng.sample(ps, rng.randint(1, len(ps)))
    rng.shuffle(used)
    if len(used) == 1:
        return occurrence(rng, used[0], pep604_bad=rng.random() < 0.15)

    def leaf(v):
        r = rng.random()
        if r < 0.6:
            return TV(v)
        return rng.choice([APP("list", TV(v)), OPT(TV(v)), ANN(TV(v), "m"), APP("In", TV(v)), APP("tuple", TV(v), LF("..."))])

    a, b = used[0], used[1]
    if len(used) == 3:
        c = used[2]
        return rng.choice([
            ("tuple3", APP("tuple", leaf(a), leaf(b), leaf(c))),
            ("dict-tuple", APP("dict", TV(a), APP("tuple", leaf(b), leaf(c)))),
            ("list-tuple3-repeat", APP("list", APP("tuple", leaf(c), leaf(a), leaf(b), TV(c)))),
        ])
    return rng.choice([
        ("dict2", APP("dict", TV(a), leaf(b))),
        ("tuple2", APP("tuple", leaf(a), leaf(b))),
        ("dict-list", APP("dict", TV(a), APP("list", leaf(b)))),
        ("tuple-repeat", APP("tuple", leaf(b), leaf(a), TV(b))),
        ("optional-dict", OPT(APP("dict", TV(a), leaf(b)))),
        ("list-tuple", APP("list", APP("tuple", leaf(a), leaf(b)))),
        ("annotated-dict", ANN(APP("dict", TV(a), leaf(b)), "m")),
        ("dict-str-tuple", APP("dict", LF("str"), APP("tuple", leaf(a), leaf(b)))),
        ("nested-generic-tuple", APP("In", APP("tuple", leaf(a), leaf(b)))),
        ("table", APP("dict", TV(a), APP("list", APP("tuple", leaf(b), OPT(TV(a)))))),
    ])


def alias_round(chk, drv, n, corr_fail, fails):
    """PEP 695 generic aliases used directly: structure(payload, Alias[args]) == structure(payload, value with every
    parameter replaced by the argument given for THAT parameter).  1-3 parameters, declared in any order relative to
    their first appearance in the value, used several times or not at all."""
    rng = chk.rng
    for _ in range(n):
        W = World(DCW_SPEC)
        ps = rng.sample(["X", "Y", "Z"], rng.choice([1, 1, 2, 2, 2, 3]))
        name, value = alias_value(rng, ps)
        if any(x[0] == "app" and x[1] in ALIASES for x in walk(value)):
            continue
        # pairwise distinct arguments (a permutation of equal arguments is invisible)
        pool = [LF(x) for x in SCALARS]
        rng.shuffle(pool)
        args = [pool[i] if rng.random() < 0.7 else gen_closed_arg(rng) for i in range(len(ps))]
        aname = "AL" + W.sfx
        try:
            exec(compile("type %s[%s] = %s" % (aname, ", ".join(ps), src(value, W.names)), "<c17 alias>", "exec",
                         flags=0, dont_inherit=True), W.ns)
            AL = W.ns[aname]
            value = W.canon(AL.__value__)
            tgt = AL[tuple(W.real(a) for a in args)]
        except Exception:  # noqa: BLE001
            chk.note("alias-rejected-by-python")
            continue
        mono = subst(value, dict(zip(ps, args)))
        decl = "type AL[%s] = %s" % (", ".join(ps), src(value, W.names))
        spec = {"shape": "alias", "levels": [{"name": "AL", "params": ps, "own": [("value", value)], "base_args": [],
                                              "defaults": {}, "generic_base": True}], "kind": "alias"}
        bad = shape_pep604(spec)
        case = {"spec": spec, "op": "alias", "args": args}
        rm = drv.ask("ALIAS (%s) %s (%s)" % (" ".join(esc(p) for p in ps), ann_sx(value), " ".join(ann_sx(a) for a in args)))
        first_seen = []
        for x in walk(value):
            if x[0] == "tv" and x[1] not in first_seen:
                first_seen.append(x[1])
        chk.note("corr:ALIAS", "alias-occ:" + name, "alias-params:%d" % len(ps),
                 "alias-order:" + ("declared" if first_seen == ps else "unused-parameter" if len(first_seen) < len(ps) else "permuted"))
        # correspondence: the type the factory hands on (bound as a default of the hook it returns)
        hk = attempt(lambda: Converter().get_structure_hook(tgt))
        dflt = getattr(hk[1], "__defaults__", None) if hk[0] == "ok" else None
        if rm == "err":
            if not (hk[0] == "err" and hk[1] == "AttributeError"):
                corr_fail.append(("ALIAS", case, repr(hk)[:100], rm))
        elif hk[0] == "ok" and dflt and len(dflt) == 1:
            # (typing caches subscriptions by EQUALITY of the arguments and Union[a, b] == Union[b, a]: which member
            #  order a substituted union shows depends on what the process created earlier -- compared order-free)
            want = json.dumps(_sort_unions(W.canon(W.real(ann_of(parse_sx(rm)[1])))))
            got = json.dumps(_sort_unions(W.canon(dflt[0])))
            if want != got and not bad:
                corr_fail.append(("ALIAS", case, got, rm))
        else:
            chk.note("alias-observable-unavailable" if hk[0] == "ok" else "alias-hook-not-created")
        try:
            pl = payload(rng, mono, W, 0, None)
        except Unpayloadable:
            continue
        for det in (True, False):
            c = Converter(detailed_validation=det)
            rG = attempt(lambda: c.structure(pl, tgt))
            rM = attempt(lambda: Converter(detailed_validation=det).structure(pl, W.real(mono)))
            chk.count("alias" + ann_sx(value) + " ".join(ps) + " ".join(ann_sx(a) for a in args),
                      sample={"alias": decl, "args": [src(a, W.names) for a in args]})
            chk.evaluations += 1
            if obs(rG, W) != obs(rM, W):
                fails.append(("C17 oracle: structuring the generic alias %s as AL[%s] differs from its substituted value %s: payload=%r alias=%s value=%s"
                              % (decl, ", ".join(src(a, W.names) for a in args), src(mono, W.names), pl, obs(rG, W), obs(rM, W)),
                              dict(case, payload=repr(pl), in_scope=not bad)))
            elif rM[0] == "ok" and det:
                # the unstructure side (recorded finding F50: the alias' arguments are ignored there)
                uG = attempt(lambda: c.unstructure(rM[1], tgt))
                uM = attempt(lambda: Converter().unstructure(rM[1], W.real(mono)))
                chk.note("alias-unstructure:" + ("same" if obs(uG, W) == obs(uM, W) else "differs"))
                if obs(uG, W) != obs(uM, W):
                    fails.append(("C17 oracle: unstructuring as the generic alias %s, AL[%s], differs from its substituted value %s: value=%r alias=%s substituted=%s"
                                  % (decl, ", ".join(src(a, W.names) for a in args), src(mono, W.names), rM[1], obs(uG, W), obs(uM, W)),
                                  dict(case, op="alias-unstructure", payload=repr(pl))))


# =====================================================================================================
# recorded findings: the Lean negative witnesses, replayed on the real code in every run
# =====================================================================================================

def _lv(name, params, own, base_args=(), gb=True, defaults=None):
    return {"name": name, "params": params, "defaults": defaults or {}, "generic_base": gb, "own": own,
            "base_args": list(base_args), "dflt_none": []}


WITNESSES = [
    ("F27", "C17_subst_pep604_witness / C17_field_pep604_witness",
     {"shape": "F27-pep604", "kind": "attrs", "style": "generic", "target": "alias", "occ": ["pep604-nested"],
      "levels": [_lv("G", ["T"], [("x", APP("dict", LF("str"), PU(APP("list", TV("T")), LF("None")))),
                                  ("y", PU(APP("list", TV("T")), LF("None")))])],
      "argsets": [[LF("int")], [LF("str")]]}),
    ("F28", "C17_mono_renamed_witness",
     {"shape": "F28-renamed", "kind": "attrs", "style": "generic", "target": "alias", "occ": ["F28-renamed"],
      "levels": [_lv("G5", ["U"], [("b", TV("U"))], [TV("U")]), _lv("H", ["T"], [("a", TV("T"))])],
      "argsets": [[LF("int")], [LF("str")]]}),
    ("F28", "C17_mono_capture_witness",
     {"shape": "F28-capture", "kind": "attrs", "style": "generic", "target": "alias", "occ": ["F28-capture"],
      "levels": [_lv("G", ["T"], [("z", TV("T"))], [LF("int")]), _lv("B", ["T"], [("a", TV("T"))])],
      "argsets": [[LF("str")], [LF("float")]]}),
    ("F28", "C17_mono_composed_witness / C17_td_second_pass_witness",
     # a TypedDict: the detailed template's second rewrite composes the bindings, the fast template does not
     {"shape": "F28-composed", "kind": "typeddict", "style": "generic", "target": "alias", "occ": ["F28-composed"],
      "levels": [_lv("G", ["T"], [("z", TV("T"))], [APP("list", TV("T"))]), _lv("B", ["W"], [("a", TV("W"))])],
      "argsets": [[LF("int")], [LF("str")]]}),
    ("F28", "C17_mono_deep_witness",
     {"shape": "F28-deep", "kind": "attrs", "style": "generic", "target": "bare", "occ": ["F28-deep"],
      "levels": [_lv("C", [], [("z", LF("int"))], [LF("int")], gb=False), _lv("H", ["T"], [("a", TV("T"))], [LF("str")]),
                 _lv("HH", ["U"], [("u", TV("U"))])],
      "argsets": [None]}),
    ("F29", "C17_mono_self_witness",
     {"shape": "F29-self", "kind": "attrs", "style": "generic", "target": "alias", "occ": ["optional-self"],
      "levels": [_lv("SG", ["T"], [("a", TV("T")), ("nxt", OPT(SELF))])],
      "argsets": [[LF("int")], [LF("str")]]}),
    ("F51", "C17_unbound_passthrough_witness",
     # `class PG(PB[T], Generic[T]): b: Optional[list[T]]` over `class PB(Generic[T]): a: Optional[T]`: the bare PG
     # accepts {'a': None, 'b': None} and refuses {'a': 1, 'b': None}
     {"shape": "inherit-pass", "kind": "attrs", "style": "generic", "target": "alias", "occ": ["F51-passthrough"],
      "levels": [_lv("PG", ["T"], [("b", OPT(APP("list", TV("T"))))], [TV("T")]), _lv("PB", ["T"], [("a", OPT(TV("T")))])],
      "argsets": [[LF("int")], [LF("str")]]}),
]


def systematic_worlds():
    """evaluated in every run (no failure expected): the positions a plain mixin can take among the bases of
    `class Child(<mixin>, Parent[int, U], <mixin>, Generic[U])` over `class Parent(Generic[T, U])`, for every kind of
    class and both syntaxes, with and without fields of the mixin"""
    out = []
    for kind in ("attrs", "dataclass", "typeddict"):
        for style in ("generic", "pep695"):
            for pos in ("before", "after"):
                for with_fields in (False, True):
                    if with_fields and (kind == "typeddict" or pos == "after"):
                        continue
                    child = _lv("Child", ["U"], [("c", OPT(TV("U")))], [LF("int"), TV("U")])
                    child["mixin"] = {"pos": pos, "fields": [("mx0", LF("str"))] if with_fields else []}
                    parent = _lv("Parent", ["T", "U"], [("a", TV("T")), ("b", APP("list", TV("U")))])
                    out.append({"shape": "systematic-mixin", "kind": kind, "style": style, "target": "alias",
                                "occ": ["mixin-" + pos], "levels": [child, parent],
                                "argsets": [[LF("float")], [APP("In", LF("int"))]]})
    # hierarchies in which the class that binds the parameter is not the direct parent:
    # Node(Generic[T]) <- IntNode(Node[NT]) <- Leaf(IntNode) [<- Leaf2(Leaf)] [<- Tagged(<leaf>, Generic[W])]
    for kind in ("attrs", "dataclass", "typeddict"):
        for style in ("generic", "pep695"):
            for depth in (1, 2):
                for tagged in (False, True):
                    node = _lv("Node", ["T"], [("a", TV("T")), ("items", APP("list", TV("T")))])
                    mid = _lv("IntNode", [], [("b", LF("str"))], [LF("NT")], gb=False)
                    levels = [mid, node]
                    for k in range(depth):
                        levels.insert(0, _lv("Leaf%d" % k, [], [("c%d" % k, LF("int"))], [], gb=False))
                    if tagged:
                        levels.insert(0, _lv("Tagged", ["W"], [("tag", OPT(TV("W")))], []))
                    out.append({"shape": "systematic-deep", "kind": kind, "style": style, "target": "alias" if tagged else "bare",
                                "occ": ["plain-subclass"] + (["generic-over-plain"] if tagged else []), "levels": levels,
                                "argsets": [[LF("str")], [LF("NT")]] if tagged else [None]})
    # PEP 696: the bare class with every parameter defaulted -- `None` is a default like any other
    for kind in ("attrs", "dataclass", "typeddict"):
        for dv in (LF("None"), LF("int"), LF("NT"), APP("list", LF("int"))):
            own = [("a", TV("T")), ("b", APP("list", TV("U"))), ("c", APP("dict", LF("str"), TV("U")))]
            if kind != "typeddict":   # (a TypedDict key annotated `None` becomes `NoneType`: no hook, in the copy)
                own.append(("d", TV("U")))
            out.append({"shape": "systematic-defaults", "kind": kind, "style": "generic", "target": "bare", "occ": ["default:" + json.dumps(dv)],
                        "levels": [_lv("D", ["T", "U"], own, defaults={"T": LF("str"), "U": dv})],
                        "argsets": [None]})
    # a class with parameters of its own over a base bound to a CLOSED type whose hook differs from run-time dispatch:
    # `class Child(Base[NT, U], Generic[U])` -- the inherited fields `a: T`, `b: list[T]`, `c: Optional[T]` are un/structured
    # by NT's hooks whichever way `Child[args]` reaches the generators
    for kind in ("attrs", "dataclass", "typeddict"):
        for style in ("generic", "pep695"):
            child = _lv("Child", ["U"], [("d", APP("list", TV("U")))], [LF("NT"), TV("U")])
            base = _lv("Base", ["T", "U"], [("a", TV("T")), ("b", APP("list", TV("T"))), ("c", OPT(TV("T"))), ("u", TV("U"))])
            out.append({"shape": "systematic-closed-base", "kind": kind, "style": style, "target": "alias",
                        "occ": ["inherited-mixed"], "levels": [child, base], "argsets": [[LF("str")], [LF("NT")]]})
    # PEP 696 x inheritance (Lean: `C17_defaults_inert_when_bound`, regression witness `C17_default_override_witness`):
    # `class Child(Base[str, U], Generic[U])` over `class Base(Generic[T, U])`, U defaulting to int -- an explicit
    # argument (`Child[float]`) wins over the default for inherited and own fields alike; `Child[int]`, `Child` use it
    for kind in ("attrs", "dataclass", "typeddict"):
        for tgt in ("alias", "bare"):
            child = _lv("Child", ["U"], [("z", OPT(TV("U")))], [LF("str"), TV("U")], defaults={"U": LF("int")})
            base = _lv("Base", ["T", "U"], [("x", TV("T")), ("y", TV("U")), ("ys", APP("list", TV("U")))], defaults={"U": LF("int")})
            out.append({"shape": "systematic-defaults-inherit", "kind": kind, "style": "generic", "target": tgt,
                        "occ": ["defaults-inherit"], "levels": [child, base],
                        "argsets": [[LF("float")], [LF("int")]] if tgt == "alias" else [None]})
    # spellings of the type ARGUMENTS: PEP 604 unions (named after `str(arg)` by the generators) with multi-argument
    # builtin generics as members, Literal, Annotated -- one- and two-parameter classes of every kind
    import random
    fixed = random.Random(17)   # (a fixed choice of the scalars inside the spellings: the list is the same in every run)
    spelled = [f(fixed) for n, f in SPELLED_ARGS if n not in ("pep604-scalar", "pep604-list", "pep604-tuple2", "literal", "annotated-meta2")]
    spelled += [PU(LF("int"), LF("None")), PU(APP("list", LF("int")), LF("None")), PU(APP("tuple", LF("int"), LF("float")), LF("None")),
                ANN(LF("int"), "a-b", "c d")] + [LF(n) for n in sorted(LITERALS)]
    for kind in ("attrs", "dataclass", "typeddict"):
        for i in range(0, len(spelled) - 1, 2):
            one = _lv("G", ["T"], [("a", TV("T")), ("b", APP("List", TV("T")))])
            two = _lv("D", ["K", "T"], [("k", TV("K")), ("v", APP("dict", LF("str"), TV("T")))])
            out.append({"shape": "systematic-arg-spelling", "kind": kind, "style": "generic" if i % 4 else "pep695", "target": "alias",
                        "occ": ["arg-spelling"], "levels": [one], "argsets": [[spelled[i]], [spelled[i + 1]]]})
            out.append({"shape": "systematic-arg-spelling", "kind": kind, "style": "generic", "target": "alias",
                        "occ": ["arg-spelling"], "levels": [two], "argsets": [[LF("str"), spelled[i + 1]], [spelled[i], LF("int")]]})
    return out


def depth_probe(chk):
    """F40 (repaired) must stay repaired: a self-referential TypedDict structured by fresh converters at 10 consecutive
    stack depths gives one outcome"""
    spec = {"shape": "F40-recursive-typeddict", "kind": "typeddict", "style": "generic", "target": "bare", "occ": [],
            "levels": [_lv("RT", [], [("f1", APP("list", SELF)), ("f3", LF("bool"))], gb=False)], "argsets": [None]}
    W = World(spec)
    pl = {"f1": [{"f1": [], "f3": False}], "f3": 0}
    keys = []
    for k in range(10):
        r = attempt(lambda: _at_depth(k, lambda: Converter(detailed_validation=False).structure(pl, W.cls)))
        keys.append(json.dumps(obs(r, W))[:40])
        chk.evaluations += 1
    if len(set(keys)) > 1:
        return [("C17 oracle (determinism): the outcome of structure(%r, <TypedDict RT: f1: list[Self], f3: bool>) on a fresh "
                 "converter depends on the call-stack depth: %s" % (pl, keys),
                 {"spec": W.spec, "op": "depth-dependence", "label": "F40"})]
    return []


def alias_unstructure_probe(chk):
    """F50 (Lean witness `C17_alias_unstructure_witness`), replayed: `type R[X, Y] = dict[Y, X]`;
    `unstructure({'m': Leaf(1)}, R[Leaf, str])` must equal `unstructure({'m': Leaf(1)}, dict[str, Leaf])`"""
    W = World(DCW_SPEC)
    leaf = W.ns[W.names["Leaf"]](1)
    t_alias = W.real(APP("R", LF("Leaf"), LF("str")))
    t_value = W.real(expand_aliases(APP("R", LF("Leaf"), LF("str"))))
    uG = attempt(lambda: Converter().unstructure({"m": leaf}, t_alias))
    uM = attempt(lambda: Converter().unstructure({"m": leaf}, t_value))
    chk.evaluations += 1
    if obs(uG, W) != obs(uM, W):
        return [("C17 oracle: unstructuring {'m': Leaf(1)} as the generic alias R[Leaf, str] (type R[X, Y] = dict[Y, X]) gives %s, "
                 "as dict[str, Leaf] it gives %s" % (obs(uG, W), obs(uM, W)),
                 {"op": "alias-unstructure", "label": "C17_alias_unstructure_witness"})]
    return []


def report(chk, fails):
    """P failures: known finding by input shape, or VIOLATION"""
    n_known = 0
    for what, case in fails:
        if not chk.violation(what, case, found_input=True):
            n_known += 1
    return n_known


# =====================================================================================================
# run / replay
# =====================================================================================================

def run(chk: framework.Check):
    rng = chk.rng
    if os.environ.get("VERIF_C17_F50") and not any(f.get("signature") == F50_SIG for f in chk.known):
        chk.known.append({"id": "F50", "property": "C17", "kind": "finding", "signature": F50_SIG,
                          "what": "unstructuring as a parametrised PEP 695 generic alias ignores the alias' arguments "
                                  "(entry assumed via VERIF_C17_F50)"})
    if os.environ.get("VERIF_C17_F63") and not any(f.get("signature") == F63_SIG for f in chk.known):
        chk.known.append({"id": "F63", "property": "C17", "kind": "finding", "signature": F63_SIG,
                          "what": "a TypedDict that lists its parent unsubscripted loses the parent's binding of a type parameter "
                                  "(entry assumed via VERIF_C17_F63)"})
    if os.environ.get("VERIF_C17_F51") and not any(f.get("signature") == F51_SIG for f in chk.known):
        chk.known.append({"id": "F51", "property": "C17", "kind": "finding", "signature": F51_SIG,
                          "what": "bare subclass of a pass-through parametrised base: refused only when the payload reaches "
                                  "the parameter (entry assumed via VERIF_C17_F51)"})
    drv = lean.Driver()
    quick = chk.tier == "quick"
    corr_fail = []
    all_fails = []

    # 1. recorded findings must still reproduce on the real code
    for fid, thm, spec in WITNESSES:
        fails = eval_world(chk, drv, spec, 6, corr_fail, label=thm)
        chk.note("witness:" + fid)
        if not fails:
            print(f"STALE-FINDING: property=C17 {fid} witness {thm} no longer reproduces on the implementation")
            chk.note("stale-finding:" + fid)
        all_fails += fails

    for spec in systematic_worlds():
        chk.note("shape:" + spec["shape"], "kind:" + spec["kind"], "style:" + spec["style"])
        all_fails += eval_world(chk, drv, spec, 2, corr_fail, label="systematic")

    all_fails += depth_probe(chk)
    chk.note("probe:F40-depth")
    f50 = alias_unstructure_probe(chk)
    chk.note("witness:F50")
    if not f50 and any(f.get("signature") == F50_SIG for f in chk.known):
        print("STALE-FINDING: property=C17 F50 witness C17_alias_unstructure_witness no longer reproduces on the implementation")
        chk.note("stale-finding:F50")
    all_fails += f50

    # 2. deep_copy_with / generic aliases, directly
    dcw_round(chk, drv, 400 if quick else 4000, corr_fail)
    alias_round(chk, drv, 120 if quick else 1200, corr_fail, all_fails)

    # 3. random generic worlds
    n_worlds = 150 if quick else 1500
    for wi in range(n_worlds):
        spec = gen_spec(rng)
        chk.note("shape:" + spec["shape"], "kind:" + spec["kind"], "style:" + spec["style"])
        for o in spec["occ"]:
            chk.note("occ:" + o)
        all_fails += eval_world(chk, drv, spec, 2 if quick else 3, corr_fail)

    # every P failure outside the recorded shapes is a violation
    report(chk, all_fails)
    for f in chk.known:
        if f.get("signature") == F63_SIG and not chk.known_hits.get(f["id"]):
            print(f"STALE-FINDING: property=C17 {f['id']} did not reproduce (the TypedDict worlds of the systematic-deep family are its witness)")
            chk.note("stale-finding:" + f["id"])

    # correspondence breaks: the oracle held on these inputs (or they are recorded findings, reported above)
    seen = set()
    if os.environ.get("C17_DEBUG"):
        for op, case, impl, model in corr_fail:
            print("CORR", op, impl[:300], "|", model[:300], "|", json.dumps(case)[:600])
    for op, case, impl, model in corr_fail:
        if op in seen:
            continue
        seen.add(op)
        # search for a failing input in the neighbourhood: the oracle failures collected in this run
        found = [f for f in all_fails if not any(
            framework.FINDING_PREDICATES.get(k["signature"], lambda c: False)(f[1]) for k in chk.known)]
        if found:
            continue  # already reported with a failing input
        # (wrapped so that no finding predicate — they look at case["spec"] — can swallow a broken correspondence)
        chk.violation(f"correspondence corr:C17:{op} broken (theorems C17_* no longer tied to the code): impl={impl[:300]} model={model[:300]}",
                      {"corr": op, "corr_case": case}, found_input=False)
    chk.extra["rule"] = ("distinct (class chain, kind, syntax, argument tuple) worlds + distinct deep_copy_with inputs; every one "
                         "exercises substitution / mapping construction (non-leaf mechanisms)")
    chk.extra["formats"] = None
    chk.extra["correspondence_failures"] = len(corr_fail)
    drv.close()


def replay(case):
    drv = lean.Driver()
    chk = framework.Check("C17", "quick", 0)
    corr = []
    if case.get("op") == "dcw":
        print("deep_copy_with case:", json.dumps(case))
        return 0
    spec = case.get("spec")
    if spec is None or spec.get("kind") == "alias":
        print("alias case:", json.dumps(case))
        if case.get("op") == "alias-unstructure" and spec is None:
            fails = alias_unstructure_probe(chk)
            for what, _ in fails:
                print("FAIL:", what)
            return 1 if fails else 0
        return 0
    W = World(spec)
    print(W.source)
    fails = eval_world(chk, drv, spec, 4, corr)
    for what, c in fails[:5]:
        print("FAIL:", what)
    for c in corr[:5]:
        print("CORR:", c[0], c[2][:200], c[3][:200])
    print("oracle:", "fails" if fails else "holds")
    return 1 if fails else 0


if __name__ == "__main__":
    framework.main(run, "C17")
