"""C16 — preconfigured converters: loads(dumps(x, unstructure_as=T), T) == x  (json, pyyaml, msgspec).

For every importable format (of those this component models) and generated (world, T, x):

Oracle (implementation side, from the property statement, independent of the model):
  * `dumps` does not raise, `loads(dumps(x, unstructure_as=T), T)` equals x with x's class at every depth;
  * with a user hook pair registered on `float`, the round trip still holds and both hooks are called once per
    float-typed leaf of x — inside attrs classes and dataclasses alike (F8 was: msgspec ignored them in dataclasses).
Correspondence (model = lean/CattrsModel/Preconf):
  * corr:C16:CODEC  the composite predicted by the model (unstructured form, encodable?, decoded form, structured
                    result) against the real `unstructure` / `dumps` / library decode / `structure`;
  * corr:C16:STP    the model's `stP` on the *real* decoded data against the real `structure`;
  * corr:C16:codec-hypothesis  the assumed codec (`enc`, `norm = decode ∘ encode`) on the *real* unstructured data
                    against the real library; and the assumed string-level laws (isoformat/fromisoformat,
                    b85/b64, str/int, repr/float) on every generated leaf.
Formats whose library cannot be imported are reported as not exercised (never as a violation).
"""
from __future__ import annotations

import collections
import dataclasses
import datetime as _dt
import enum
import importlib
import itertools
import os
import sys
from base64 import b64decode, b64encode, b85decode, b85encode
from typing import Any, Literal, NotRequired, Optional, TypedDict, Union
import typing

sys.path.insert(0, os.environ.get("CATTRS_SRC", "/repo/src"))

import attrs  # noqa: E402

from harness import framework, gen, lean, terms  # noqa: E402
from harness.datapath import prune_linecache  # noqa: E402
from harness.realise import Unrepresentable, leaf_val  # noqa: E402

import cattrs  # noqa: E402

MODELLED = ("json", "yaml", "msgspec")
PRECONF_MODULES = {"json": "json", "yaml": "pyyaml", "msgspec": "msgspec", "bson": "bson", "orjson": "orjson",
                   "ujson": "ujson", "msgpack": "msgpack", "cbor2": "cbor2", "tomlkit": "tomlkit"}

LEAVES = ["int", "float", "str", "bytes", "bool", "datetime", "date"]
SEQ_KINDS = ["list", "seq", "mseq", "tup*", "deque"]
SET_KINDS = ["set", "mset", "fset"]
MAP_KINDS = ["dict", "map", "mmap"]
NATIVE = {"json": ["none", "bool", "int", "float", "str"],
          "msgspec": ["none", "bool", "int", "float", "str"],
          "yaml": ["none", "bool", "int", "float", "str", "bytes", "datetime", "date"]}
_uid = itertools.count()
_injected = []
DT0 = _dt.datetime(1, 1, 1)


# ------------------------------------------------------------------------------------------------ formats

def load_formats():
    ran, skipped = {}, {}
    for name, mod in PRECONF_MODULES.items():
        try:
            m = importlib.import_module("cattrs.preconf." + mod)
            ran[name] = m
        except Exception as e:  # noqa: BLE001  (ImportError, or the wrong `bson` package)
            skipped[name] = type(e).__name__
    return ran, skipped


def lib_decode(fmt, data):
    if fmt == "json":
        import json
        return json.loads(data)
    if fmt == "yaml":
        import yaml
        return yaml.safe_load(data)
    if fmt == "msgspec":
        import msgspec
        return msgspec.json.decode(data)
    raise ValueError(fmt)


def lib_encode(fmt, r):
    if fmt == "json":
        import json
        return json.dumps(r)
    if fmt == "yaml":
        import yaml
        return yaml.safe_dump(r)
    if fmt == "msgspec":
        import msgspec
        return msgspec.json.encode(r)
    raise ValueError(fmt)


# ------------------------------------------------------------------------------------------------ generator

class G16:
    def __init__(self, rng):
        self.rng = rng
        self.g = gen.Gen(rng)

    def world(self):
        r = self.rng
        w = {"enums": [], "classes": []}
        for _ in range(r.randint(1, 3)):
            kind = r.choice(["plain", "int", "str"])
            n = r.randint(1, 3)
            if kind == "int" or (kind == "plain" and r.random() < 0.5):
                vals = [("i", v) for v in r.sample(range(-3, 9), n)]
            else:
                vals = [("s", v) for v in r.sample(["b", "c", "x", "zz", "7", "-1", "b7", ""], n)]
            w["enums"].append({"kind": kind, "vals": vals})
        for ci in range(r.randint(1, 4)):
            kind = r.choice(["attrs", "attrs", "dc", "dc", "td", "td", "ntup", "ntup"])
            if kind == "ntup":      # typing.NamedTuple: public field names; half of them have pass-through fields only
                names = r.sample(["a", "b", "c", "d", "xy"], r.randint(0, 3))
                easy = r.random() < 0.5
                fields = [{"name": n, "required": True,
                           "ty": r.choice(["int", "float", "bool", "bytes", "date", "int"]) if easy
                           else self.type(w, r.randint(0, 1), max_cls=ci)} for n in names]
                w["classes"].append({"kind": kind, "fields": fields})
                continue
            names = r.sample(["a", "b", "c", "d", "_p", "_q", "xy"], r.randint(0, 4))
            fields = []
            for n in names:
                fields.append({"name": n, "ty": self.type(w, r.randint(0, 2), max_cls=ci),
                               "required": kind != "td" or r.random() < 0.7})
                if kind == "attrs" and r.random() < 0.35:
                    fields[-1]["alias"] = attrs_alias(r, n)
            c = {"kind": kind, "fields": fields}
            if kind != "td" and r.random() < 0.3:
                c["strann"] = True     # annotations are strings (`from __future__ import annotations`)
            w["classes"].append(c)
        return w

    def leaf_type(self, w, max_cls, fmt_hint=None):
        r = self.rng
        c = r.random()
        if c < 0.54:
            return r.choice(LEAVES)
        if c < 0.6:
            return ("nt", r.choice(LEAVES))     # typing.NewType of a leaf type
        if c < 0.75 and w["enums"]:
            return ("enum", r.randrange(len(w["enums"])))
        if c < 0.83:
            return self.lit()
        if c < 0.9:
            return self.union()
        if max_cls > 0:
            ci = r.randrange(max_cls)
            return cls_ref(w, ci)
        return r.choice(LEAVES)

    def key_type(self, w):
        r = self.rng
        c = r.random()
        if c < 0.63:
            return r.choice(LEAVES)
        if c < 0.7:
            return ("nt", r.choice(LEAVES))
        if c < 0.9 and w["enums"]:
            return ("enum", r.randrange(len(w["enums"])))
        return self.lit()

    def lit(self):
        r = self.rng
        pool = [("i", 1), ("i", 2), ("i", -1), ("s", "b"), ("s", "x7"), ("s", ""), ("b", True), ("i", 0), ("b", False)]
        if r.random() < 0.4:
            pool = [p for p in pool if p[0] == "s"]
        vals = []
        for v in r.sample(pool, min(len(pool), r.randint(1, 3))):
            if not any(gen.py_eq(v, u) for u in vals):
                vals.append(v)
        return ("lit", vals)

    def union(self):
        r = self.rng
        ks = r.sample(["bool", "int", "float", "str", "bytes", "datetime", "date"], r.randint(2, 3))
        ks = [("nt", k) if r.random() < 0.25 else k for k in ks]     # NewTypes of native types are native too
        if r.random() < 0.4:
            ks.append("none")
        return ("union", ks)

    def type(self, w, depth, max_cls=None):
        r = self.rng
        n_cls = len(w["classes"]) if max_cls is None else max_cls
        if depth <= 0:
            return self.leaf_type(w, n_cls)
        c = r.random()
        if c < 0.24:
            return (r.choice(SEQ_KINDS), self.type(w, depth - 1, max_cls))
        if c < 0.36:
            return (r.choice(SET_KINDS), self.key_type(w))
        if c < 0.46:
            return ("tup", [self.type(w, depth - 1, max_cls) for _ in range(r.randint(0, 3))])
        if c < 0.64:
            return (r.choice(MAP_KINDS), self.key_type(w), self.type(w, depth - 1, max_cls))
        if c < 0.69:
            return ("counter", self.key_type(w))
        if c < 0.82:
            inner = self.type(w, depth - 1, max_cls)
            if not isinstance(inner, str) and inner[0] in ("opt", "union"):
                return inner
            return ("opt", inner)
        return self.leaf_type(w, n_cls)

    # ---- values
    def leaf(self, t):
        r = self.rng
        if t == "int":
            c = r.random()
            if c < 0.9:
                return ("i", self.g.g_int())
            return ("i", r.choice([2**63 - 1, -(2**63), 2**31, -(2**31) - 1, 10**15]))
        if t == "float":
            return ("f", r.randint(-40, 40) if r.random() < 0.8 else r.randint(-10**6, 10**6))
        if t == "str":
            return ("s", self.g.g_str())
        if t == "bytes":
            return ("y", bytes(r.randrange(256) for _ in range(r.randint(0, 4))).hex())
        if t == "bool":
            return ("b", r.random() < 0.5)
        if t == "datetime":
            d = _dt.datetime(r.randint(1900, 2100), r.randint(1, 12), r.randint(1, 28), r.randint(0, 23), r.randint(0, 59),
                             r.randint(0, 59), r.choice([0, 0, r.randrange(10**6)]))
            return abs_dt(d)
        if t == "date":
            return abs_dt(_dt.date(r.randint(1900, 2100), r.randint(1, 12), r.randint(1, 28)))
        raise ValueError(t)

    def value(self, w, t, depth):
        r = self.rng
        if isinstance(t, str):
            return self.leaf(t)
        k = t[0]
        if k == "enum":
            return ("e", t[1], r.randrange(len(w["enums"][t[1]]["vals"])))
        if k == "lit":
            return r.choice(t[1])
        if k == "nt":
            return self.leaf(t[1])
        if k == "union":
            m = un_nt(r.choice(t[1]))
            return ("N",) if m == "none" else self.leaf(m)
        n = r.randint(0, 3 if depth > 0 else 1)
        if k in ("list", "seq", "mseq"):
            return ("l", [self.value(w, t[1], depth - 1) for _ in range(n)])
        if k == "tup*":
            return ("t", [self.value(w, t[1], depth - 1) for _ in range(n)])
        if k == "deque":
            return ("q", [self.value(w, t[1], depth - 1) for _ in range(n)])
        if k in SET_KINDS:
            xs = []
            for _ in range(n):
                v = self.value(w, t[1], depth - 1)
                if not any(gen.py_eq(v, u) for u in xs):
                    xs.append(v)
            return ("F" if k == "fset" else "S", xs)
        if k == "tup":
            return ("t", [self.value(w, x, depth - 1) for x in t[1]])
        if k in MAP_KINDS or k == "counter":
            vt = "int" if k == "counter" else t[2]
            kvs = []
            for _ in range(n):
                kk = self.value(w, t[1], depth - 1)
                if not any(gen.py_eq(kk, u) for u, _ in kvs):
                    kvs.append((kk, self.value(w, vt, depth - 1)))
            return ("d", kvs)
        if k == "opt":
            return ("N",) if r.random() < 0.3 else self.value(w, t[1], depth)
        if k == "cls":
            c = w["classes"][t[1]]
            return ("I", t[1], [(f["name"], self.value(w, f["ty"], depth - 1)) for f in c["fields"]])
        if k == "ntc":
            return ("t", [self.value(w, f["ty"], depth - 1) for f in w["classes"][t[1]]["fields"]])
        if k == "td":
            c = w["classes"][t[1]]
            kvs = [(("s", f["name"]), self.value(w, f["ty"], depth - 1)) for f in c["fields"]
                   if f["required"] or r.random() < 0.6]
            r.shuffle(kvs)
            return ("d", kvs)
        raise ValueError(t)


def attrs_alias(r, n):
    """an explicit `alias=` of an attrs field: equal to the attribute name (a private name then keeps its underscore
    in `__init__`) or different from both the name and the default (underscore-stripped) alias"""
    return n if r.random() < 0.6 else n.lstrip("_") + "_al"


def init_name(c, f):
    """the `__init__` argument of a field"""
    if c["kind"] != "attrs":
        return f["name"]
    return f.get("alias") or f["name"].lstrip("_")


def nt_as_tup(w, t):
    """a NamedTuple type, as the heterogeneous tuple of its field types (what the model is told: see `ty_sx`)"""
    return ("tup", [f["ty"] for f in w["classes"][t[1]]["fields"]])


def cls_ref(w, ci):
    return ({"td": "td", "ntup": "ntc"}.get(w["classes"][ci]["kind"], "cls"), ci)


def reaches_nt(w, t):
    if isinstance(t, str) or t is None:
        return False
    k = t[0]
    if k == "ntc":
        return True
    if k in ("enum", "lit", "nt", "union", "elit"):
        return False
    if k in ("tup", "sunion"):
        return any(reaches_nt(w, x) for x in t[1])
    if k in MAP_KINDS:
        return reaches_nt(w, t[1]) or reaches_nt(w, t[2])
    if k in ("cls", "td"):
        return any(reaches_nt(w, f["ty"]) for f in w["classes"][t[1]]["fields"])
    return reaches_nt(w, t[1])


def reaches_alias(w, t):
    if isinstance(t, str) or t is None:
        return False
    k = t[0]
    if k in ("enum", "lit", "nt", "union", "elit"):
        return False
    if k in ("tup", "sunion"):
        return any(reaches_alias(w, x) for x in t[1])
    if k in MAP_KINDS:
        return reaches_alias(w, t[1]) or reaches_alias(w, t[2])
    if k in ("cls", "td", "ntc"):
        return any(f.get("alias") or reaches_alias(w, f["ty"]) for f in w["classes"][t[1]]["fields"])
    return reaches_alias(w, t[1])


def un_nt(t):
    """a NewType of a leaf type is handled as its base everywhere but in the realiser"""
    return t[1] if not isinstance(t, str) and t is not None and t[0] == "nt" else t


def abs_dt(d):
    if isinstance(d, _dt.datetime):
        delta = d - DT0
        us = (delta.days * 86400 + delta.seconds) * 10**6 + delta.microseconds
        return ("o", 2 * us)
    return ("o", 2 * d.toordinal() + 1)


def real_dt(n):
    if n % 2 == 0:
        return DT0 + _dt.timedelta(microseconds=n // 2)
    return _dt.date.fromordinal(n // 2)


# ------------------------------------------------------------------------------------------------ wire

HUMAN = [False]     # reports: spell out what the wire form identifies (NamedTuple = tuple of its fields, aliases)


def ty_desc(w, t):
    HUMAN[0] = True
    try:
        return ty_sx(w, t)
    finally:
        HUMAN[0] = False


def ty_sx(w, t):
    t = un_nt(t)
    if isinstance(t, str):
        return t
    k = t[0]
    if k == "ntc":
        if HUMAN[0]:
            return "(" + " ".join(["namedtuple"] + ["(%s %s)" % (terms.esc(f["name"]), ty_sx(w, f["ty"]))
                                                    for f in w["classes"][t[1]]["fields"]]) + ")"
        return ty_sx(w, nt_as_tup(w, t))
    if k == "elit":      # (extended stream only; never sent to the model)
        return "(" + " ".join(["enum-literal"] + [terms.obj_sx(v) for v in t[1]]) + ")"
    if k == "enum":
        return "(enum %d)" % t[1]
    if k == "lit":
        return "(" + " ".join(["lit"] + [terms.obj_sx(v) for v in t[1]]) + ")"
    if k == "union":
        return "(" + " ".join(["union"] + [un_nt(m) for m in t[1]]) + ")"
    if k == "sunion":
        return "(" + " ".join(["spill-union"] + [("(newtype %s)" % m[1]) if (not isinstance(m, str) and m[0] == "nt")
                                                  else ty_sx(w, m) for m in t[1]]) + ")"
    if k == "tup":
        return "(" + " ".join(["tup"] + [ty_sx(w, x) for x in t[1]]) + ")"
    if k in MAP_KINDS:
        return "(%s %s %s)" % (k, ty_sx(w, t[1]), ty_sx(w, t[2]))
    if k == "counter":
        return "(counter %s)" % ty_sx(w, t[1])
    if k == "cls":
        c = w["classes"][t[1]]
        return "(" + " ".join(["cls", str(t[1]), "1" if c["kind"] == "dc" else "0"]
                              + ["(%s %s%s)" % (terms.esc(f["name"]), ty_sx(w, f["ty"]),
                                                 (" alias=" + terms.esc(f["alias"])) if HUMAN[0] and f.get("alias") else "")
                                 for f in c["fields"]]) + ")"
    if k == "td":
        c = w["classes"][t[1]]
        return "(" + " ".join(["td"] + ["(%s %d %s)" % (terms.esc(f["name"]), 1 if f["required"] else 0, ty_sx(w, f["ty"]))
                                        for f in c["fields"]]) + ")"
    return "(%s %s)" % (k, ty_sx(w, t[1]))


def enums_sx(w):
    return "(" + " ".join(["enums"] + ["(" + " ".join([e["kind"]] + [terms.obj_sx(v) for v in e["vals"]]) + ")"
                                       for e in w["enums"]]) + ")"


def collect_leaves(o, acc):
    t = o[0]
    if t == "y":
        acc["y"].add(o[1])
    elif t == "o":
        acc["o"].add(o[1])
    elif t == "s":
        acc["s"].add(o[1])
    elif t in ("l", "t", "q", "S", "F"):
        for x in o[1]:
            collect_leaves(x, acc)
    elif t == "d":
        for k, v in o[1]:
            collect_leaves(k, acc)
            collect_leaves(v, acc)
    elif t == "I":
        for _, v in o[2]:
            collect_leaves(v, acc)


def env_sx(objs):
    acc = {"y": set(), "o": set(), "s": set()}
    for o in objs:
        if o is not None:
            collect_leaves(o, acc)
    iso = ["(%d %s)" % (n, terms.esc(real_dt(n).isoformat())) for n in sorted(acc["o"])]
    b85 = ["(%s %s)" % (terms.esc(h), terms.esc(b85encode(bytes.fromhex(h)).decode())) for h in sorted(acc["y"])]
    b64 = ["(%s %s)" % (terms.esc(h), terms.esc(b64encode(bytes.fromhex(h)).decode())) for h in sorted(acc["y"])]
    return "(env (%s) (%s) (%s))" % (" ".join(["iso"] + iso), " ".join(["b85"] + b85), " ".join(["b64"] + b64))


# ------------------------------------------------------------------------------------------------ realiser

class R16:
    def __init__(self, world):
        prune_linecache()
        self.world = world
        self.uid = next(_uid)
        self.enums = []
        self._enum_index = {}
        self._ty_cache = {}
        for ei, e in enumerate(world["enums"]):
            members = {f"M{mi}": leaf_val(v) for mi, v in enumerate(e["vals"])}
            name = f"E16_{self.uid}_{ei}"
            if e["kind"] == "plain":
                cl = enum.Enum(name, members)
            elif e["kind"] == "int":
                cl = enum.Enum(name, members, type=int) if ei % 2 else enum.IntEnum(name, members)
            else:
                cl = enum.Enum(name, members, type=str)
            self.enums.append(cl)
            self._enum_index[cl] = ei
        self.classes = []
        self._cls_index = {}
        for ci, c in enumerate(world["classes"]):
            cl = self._make_class(ci, c)
            self.classes.append(cl)
            self._cls_index[cl] = ci

    def _ann(self, ci, fi, f, c):
        """the annotation of a field: the type object, or (string annotations) an expression that evaluates to it in
        this module's namespace, as `from __future__ import annotations` leaves it"""
        T = self.ty(f["ty"])
        if not c.get("strann"):
            return T
        if isinstance(f["ty"], str) and f["ty"] in ("int", "float", "str", "bytes", "bool"):
            return f["ty"]
        alias = f"_T16_{self.uid}_{ci}_{fi}"
        globals()[alias] = T
        _injected.append(alias)
        while len(_injected) > 600:
            globals().pop(_injected.pop(0), None)
        return alias

    def _make_class(self, ci, c):
        name = f"K16_{self.uid}_{ci}"
        if c["kind"] == "td":
            return TypedDict(name, {f["name"]: (self.ty(f["ty"]) if f["required"] else NotRequired[self.ty(f["ty"])])
                                    for f in c["fields"]})
        if c["kind"] == "ntup":
            return typing.NamedTuple(name, [(f["name"], self.ty(f["ty"])) for f in c["fields"]])
        if c["kind"] == "attrs":
            flds = {}
            for fi, f in enumerate(c["fields"]):
                kw = {"type": self._ann(ci, fi, f, c)}
                if f.get("alias"):
                    kw["alias"] = f["alias"]
                if "dflt" in f:
                    kw["factory"] = (lambda f=f: self.val(f["dflt"], f["ty"]))
                if f.get("conv"):
                    kw["converter"] = {"int": int, "str": str}[f["conv"]]
                flds[f["name"]] = attrs.field(**kw)
            cl = attrs.make_class(name, flds, slots=bool(ci % 2))
        else:
            flds = []
            for fi, f in enumerate(c["fields"]):
                if "dflt" in f:
                    flds.append((f["name"], self._ann(ci, fi, f, c),
                                 dataclasses.field(default_factory=(lambda f=f: self.val(f["dflt"], f["ty"])))))
                else:
                    flds.append((f["name"], self._ann(ci, fi, f, c)))
            cl = dataclasses.make_dataclass(name, flds, module=__name__)
        cl.__module__ = __name__      # string annotations are resolved in the namespace of the defining module
        return cl

    def ty(self, t):
        key = repr(t)
        if key not in self._ty_cache:
            self._ty_cache[key] = self._ty(t)
        return self._ty_cache[key]

    def _ty(self, t):
        if isinstance(t, str):
            return {"int": int, "float": float, "str": str, "bytes": bytes, "bool": bool, "datetime": _dt.datetime,
                    "date": _dt.date}[t]
        k = t[0]
        if k == "enum":
            return self.enums[t[1]]
        if k == "lit":
            return Literal[tuple(leaf_val(v) for v in t[1])]
        if k == "elit":
            return Literal[tuple(self.val(v) for v in t[1])]
        if k == "nt":
            return typing.NewType(f"NT16_{self.uid}_{t[1]}", self.ty(t[1]))
        if k == "union":
            return Union[tuple(type(None) if x == "none" else self.ty(x) for x in t[1])]
        if k == "sunion":      # (extended stream) native members, NewTypes of them, literals, and non-native members
            return Union[tuple(type(None) if x == "none" else self.ty(x) for x in t[1])]
        if k == "list":
            return list[self.ty(t[1])]
        if k == "seq":
            return typing.Sequence[self.ty(t[1])]
        if k == "mseq":
            return typing.MutableSequence[self.ty(t[1])]
        if k == "tup*":
            return tuple[self.ty(t[1]), ...]
        if k == "deque":
            return collections.deque[self.ty(t[1])]
        if k == "set":
            return set[self.ty(t[1])]
        if k == "mset":
            return typing.MutableSet[self.ty(t[1])]
        if k == "fset":
            return frozenset[self.ty(t[1])]
        if k == "tup":
            return tuple[()] if not t[1] else tuple[tuple(self.ty(x) for x in t[1])]
        if k == "dict":
            return dict[self.ty(t[1]), self.ty(t[2])]
        if k == "map":
            return typing.Mapping[self.ty(t[1]), self.ty(t[2])]
        if k == "mmap":
            return typing.MutableMapping[self.ty(t[1]), self.ty(t[2])]
        if k == "counter":
            return collections.Counter[self.ty(t[1])]
        if k == "opt":
            return Optional[self.ty(t[1])]
        if k in ("cls", "td", "ntc"):
            return self.classes[t[1]]
        raise ValueError(t)

    def val(self, o, t=None):
        """abstract object -> python value; the type is needed only to build `Counter`s"""
        tag = o[0]
        if tag in ("N", "b", "i", "f", "s", "y"):
            return leaf_val(o)
        if tag == "o":
            return real_dt(o[1])
        if tag == "e":
            return list(self.enums[o[1]])[o[2]]
        k = None if t is None or isinstance(t, str) else t[0]
        if k == "opt":
            return self.val(o, t[1])
        if k == "sunion":
            return self.val(o, member_of(self.world, t, o))
        sub = t[1] if k in SEQ_KINDS + SET_KINDS else None
        if tag == "l":
            return [self.val(x, sub) for x in o[1]]
        if tag == "t":
            if k == "ntc":
                fs = self.world["classes"][t[1]]["fields"]
                return self.classes[t[1]](*[self.val(x, f["ty"]) for x, f in zip(o[1], fs)])
            if k == "tup":
                return tuple(self.val(x, tt) for x, tt in zip(o[1], t[1]))
            return tuple(self.val(x, sub) for x in o[1])
        if tag == "q":
            return collections.deque(self.val(x, sub) for x in o[1])
        if tag == "S":
            return {self.val(x, sub) for x in o[1]}
        if tag == "F":
            return frozenset(self.val(x, sub) for x in o[1])
        if tag == "d":
            if k == "counter":
                return collections.Counter({self.val(a): self.val(b) for a, b in o[1]})
            if k == "td":
                ft = {f["name"]: f["ty"] for f in self.world["classes"][t[1]]["fields"]}
                return {a[1]: self.val(b, ft.get(a[1])) for a, b in o[1]}
            vt = t[2] if k in MAP_KINDS else None
            return {self.val(a): self.val(b, vt) for a, b in o[1]}
        if tag == "I":
            c = self.world["classes"][o[1]]
            cl = self.classes[o[1]]
            kw = {}
            for f, (n, v) in zip(c["fields"], o[2]):
                kw[init_name(c, f)] = self.val(v, f["ty"])
            return cl(**kw)
        raise ValueError(o)

    def abs(self, v):
        if v is None:
            return ("N",)
        cl = v.__class__
        if cl is bool:
            return ("b", v)
        if cl is int:
            return ("i", v)
        if cl is float:
            d = v * 2
            if d != d or d in (float("inf"), float("-inf")) or not d.is_integer():
                raise Unrepresentable(v)
            return ("f", int(d))
        if cl is str:
            return ("s", v)
        if cl is bytes:
            return ("y", v.hex())
        if cl is _dt.datetime:
            if v.tzinfo is not None:
                raise Unrepresentable(v)
            return abs_dt(v)
        if cl is _dt.date:
            return abs_dt(v)
        if cl in self._enum_index:
            return ("e", self._enum_index[cl], list(cl).index(v))
        if cl is list:
            return ("l", [self.abs(x) for x in v])
        if cl is tuple:
            return ("t", [self.abs(x) for x in v])
        if cl is collections.deque:
            return ("q", [self.abs(x) for x in v])
        if cl is set:
            return ("S", [self.abs(x) for x in v])
        if cl is frozenset:
            return ("F", [self.abs(x) for x in v])
        if cl is dict or cl is collections.Counter:
            return ("d", [(self.abs(k), self.abs(x)) for k, x in v.items()])
        if cl in self._cls_index and self.world["classes"][self._cls_index[cl]]["kind"] == "ntup":
            return ("t", [self.abs(x) for x in v])      # (the class is compared by the oracle, `same`)
        if cl in self._cls_index:
            ci = self._cls_index[cl]
            return ("I", ci, [(f["name"], self.abs(getattr(v, f["name"]))) for f in self.world["classes"][ci]["fields"]])
        raise Unrepresentable(v)


def member_of(w, t, o):
    """the non-native member of a spill-over union `t` that the value `o` belongs to (None: a native member)"""
    tag = o[0]
    want = {"l": ("list", "seq", "mseq"), "t": ("tup", "tup*", "ntc"), "q": ("deque",), "S": ("set", "mset"), "F": ("fset",),
            "d": tuple(MAP_KINDS) + ("counter", "td")}.get(tag, ())
    for m in t[1]:
        if isinstance(m, str):
            continue
        if (tag == "I" and m[0] == "cls" and m[1] == o[1]) or m[0] in want:
            return m
    return None


def _plain_default(f):
    """the attribute's default as omit_if_default compares it (a plain default, or what a no-argument factory builds), or _NO"""
    d = getattr(f, "default", _NO)
    if isinstance(d, attrs.Factory):
        return _NO if d.takes_self else d.factory()
    if d is dataclasses.MISSING:
        fac = getattr(f, "default_factory", dataclasses.MISSING)
        return _NO if fac is dataclasses.MISSING else fac()
    if d is attrs.NOTHING:
        return _NO
    return d


_NO = object()


def same(a, b, omit=False):
    """equal, and of the same class at every depth.  With omit_if_default in force (`omit`), an attribute whose value
    `==` its plain default is legitimately left out and comes back as the default itself (False == 0, 1 == True,
    1.0 == 1): there the statement's `equals x` is Python equality, so only `==` with the default is demanded."""
    if a.__class__ is not b.__class__:
        return False
    if isinstance(a, (list, tuple, collections.deque)):
        return len(a) == len(b) and all(same(x, y, omit) for x, y in zip(a, b))
    if isinstance(a, (set, frozenset)):
        return a == b and sorted(type(x).__name__ for x in a) == sorted(type(x).__name__ for x in b)
    if isinstance(a, dict):
        if a != b or a.keys() != b.keys():   # (Counter equality ignores zero counts)
            return False
        kb = {k: k for k in b}
        return all(type(k) is type(kb[k]) and same(v, b[k], omit) for k, v in a.items())
    if attrs.has(a.__class__) or dataclasses.is_dataclass(a):
        fs = attrs.fields(a.__class__) if attrs.has(a.__class__) else dataclasses.fields(a)
        for f in fs:
            va, vb = getattr(a, f.name), getattr(b, f.name)
            if same(va, vb, omit):
                continue
            d = _plain_default(f)
            if omit and d is not _NO and va == d and vb == d and vb.__class__ is d.__class__:
                continue
            return False
        return True
    return a == b


def sort_dicts(o):
    """yaml's `safe_dump` sorts mapping keys; Python's dict equality ignores order"""
    t = o[0]
    if t in ("l", "t", "q", "S", "F"):
        return (t, [sort_dicts(x) for x in o[1]])
    if t == "d":
        return ("d", sorted(((sort_dicts(k), sort_dicts(v)) for k, v in o[1]), key=lambda kv: terms.canon_sx(kv[0])))
    if t == "I":
        return ("I", o[1], [(n, sort_dicts(v)) for n, v in o[2]])
    return o


SORT_CLS = [False]   # msgspec emits the fields of slotted attrs classes in its own order: not compared


def tcanon(w, t, o, sort_d=False):
    """type-directed canonical text: the order of anything that was a set is not compared"""
    tag = o[0]
    t = un_nt(t)
    if isinstance(t, str) or t is None:
        return terms.canon_sx(sort_dicts(o) if sort_d else o)
    k = t[0]
    if k == "opt":
        return tcanon(w, t[1], o, sort_d)
    if k == "sunion":
        return tcanon(w, member_of(w, t, o), o, sort_d)
    if k == "ntc":
        t, k = nt_as_tup(w, t), "tup"
    if k in SEQ_KINDS and tag in ("l", "t", "q"):
        return "(" + " ".join([tag] + [tcanon(w, t[1], x, sort_d) for x in o[1]]) + ")"
    if k in SET_KINDS and tag in ("l", "t", "q", "S", "F"):
        return "(" + " ".join([tag] + sorted(tcanon(w, t[1], x, sort_d) for x in o[1])) + ")"
    if k == "tup" and tag in ("l", "t") and len(o[1]) == len(t[1]):
        return "(" + " ".join([tag] + [tcanon(w, tt, x, sort_d) for tt, x in zip(t[1], o[1])]) + ")"
    if (k in MAP_KINDS or k == "counter") and tag == "d":
        vt = "int" if k == "counter" else t[2]
        items = ["(%s %s)" % (tcanon(w, t[1], a, sort_d), tcanon(w, vt, b, sort_d)) for a, b in o[1]]
        return "(" + " ".join(["d"] + (sorted(items) if sort_d else items)) + ")"
    if k == "cls" and tag == "I":
        ft = {f["name"]: f["ty"] for f in w["classes"][t[1]]["fields"]}
        return "(" + " ".join(["I", str(o[1])] + ["(%s %s)" % (terms.esc(n), tcanon(w, ft.get(n), v, sort_d)) for n, v in o[2]]) + ")"
    if k in ("cls", "td") and tag == "d":
        ft = {f["name"]: f["ty"] for f in w["classes"][t[1]]["fields"]}
        items = ["(%s %s)" % (terms.canon_sx(a), tcanon(w, ft.get(a[1]) if a[0] == "s" else None, b, sort_d)) for a, b in o[1]]
        return "(" + " ".join(["d"] + (sorted(items) if (sort_d or (SORT_CLS[0] and k == "cls")) else items)) + ")"
    return terms.canon_sx(sort_dicts(o) if sort_d else o)


# ------------------------------------------------------------------------------------------------ implementation side

class Hooks:
    def __init__(self, d):
        self.d = d
        self.n_un = 0
        self.n_st = 0
        self.n_enum = 0


def _sorted_list(it):
    return sorted(it, key=repr)


def _sorted_dict(pairs):
    return dict(sorted(pairs, key=repr))


# user-supplied `unstruct_collection_overrides`: (key spelling -> key object), (target name -> callable).  Every
# target yields something all three libraries encode as an array / a mapping, so the round trip "as configured"
# must hold whatever the user chooses here; the format's own defaults must be merged with, not replaced by, them.
OVR_KEYS = {"Set": collections.abc.Set, "MutableSet": collections.abc.MutableSet, "FrozenSet": frozenset, "set": set,
            "typing.FrozenSet": typing.FrozenSet, "typing.Set": typing.Set, "typing.AbstractSet": typing.AbstractSet,
            "Sequence": collections.abc.Sequence, "MutableSequence": collections.abc.MutableSequence, "list": list,
            "typing.List": typing.List, "tuple": tuple, "deque": collections.deque,
            "Mapping": collections.abc.Mapping, "MutableMapping": collections.abc.MutableMapping, "dict": dict,
            "Counter": collections.Counter}
OVR_MAP_KEYS = ("Mapping", "MutableMapping", "dict", "Counter")
OVR_SET_KEYS = ("Set", "MutableSet", "FrozenSet", "set", "typing.FrozenSet", "typing.Set", "typing.AbstractSet")
OVR_TARGETS = {"list": list, "tuple": tuple, "sorted": _sorted_list, "dict": dict, "sdict": _sorted_dict}


def gen_options(rng):
    """the user options of `make_converter` other than the validation mode: omit_if_default, prefer_attrib_converters,
    unstruct_collection_overrides (absent / {} / 1-3 entries, some covering sets, most not)"""
    c = rng.random()
    if c < 0.45:
        ovr = None
    elif c < 0.6:
        ovr = []
    else:
        ovr = []
        for key in rng.sample(sorted(OVR_KEYS), rng.randint(1, 3)):
            if key in OVR_MAP_KEYS:
                tgt = rng.choice(["dict", "sdict"])
            elif key in OVR_SET_KEYS:
                tgt = rng.choice(["list", "tuple", "sorted"])      # (a deterministic order is a typical reason to override sets)
            else:
                tgt = rng.choice(["list", "tuple"])
            ovr.append([key, tgt])
    return {"omit": rng.random() < 0.3, "pac": rng.random() < 0.3, "ovr": ovr}


def conv_kwargs(cfg):
    kw = {"detailed_validation": cfg["detailed"], "forbid_extra_keys": cfg["forbid"]}
    if cfg.get("omit"):
        kw["omit_if_default"] = True
    if cfg.get("pac"):
        kw["prefer_attrib_converters"] = True
    if cfg.get("ovr") is not None:
        kw["unstruct_collection_overrides"] = {OVR_KEYS[k]: OVR_TARGETS[v] for k, v in cfg["ovr"]}
    return kw


def make_conv(mod, cfg, hooks):
    conv = mod.make_converter(**conv_kwargs(cfg))
    if hooks is not None and hooks.d is not None:
        def un_float(v, h=hooks):
            h.n_un += 1
            return v + h.d / 2

        def st_float(v, _, h=hooks):
            h.n_st += 1
            return float(v) - h.d / 2

        conv.register_unstructure_hook(float, un_float)
        conv.register_structure_hook(float, st_float)
    return conv


def count_float_leaves(w, t, o, omit=False):
    """float-typed leaf positions of x (each must see the user hook exactly once per direction)"""
    t = un_nt(t)     # hooks registered for a class apply to its NewTypes
    if t == "float":
        return 1
    if isinstance(t, str) or t is None:
        return 0
    k = t[0]
    tag = o[0]
    if k == "opt":
        return 0 if tag == "N" else count_float_leaves(w, t[1], o, omit)
    if k == "sunion":
        return count_float_leaves(w, member_of(w, t, o), o, omit)
    if k == "ntc":
        t, k = nt_as_tup(w, t), "tup"
    if k in SEQ_KINDS + SET_KINDS:
        return sum(count_float_leaves(w, t[1], x, omit) for x in o[1])
    if k == "tup":
        return sum(count_float_leaves(w, tt, x, omit) for tt, x in zip(t[1], o[1]))
    if k in MAP_KINDS:
        return sum(count_float_leaves(w, t[1], a, omit) + count_float_leaves(w, t[2], b, omit) for a, b in o[1])
    if k == "counter":
        return sum(count_float_leaves(w, t[1], a, omit) for a, _ in o[1])
    if k == "cls":
        # (omit_if_default: a field equal to its default is not emitted, so its leaves meet no hook)
        return sum(count_float_leaves(w, f["ty"], v, omit) for f, (_, v) in zip(w["classes"][t[1]]["fields"], o[2])
                   if not (omit and "dflt" in f and tcanon(w, f["ty"], v, True) == tcanon(w, f["ty"], f["dflt"], True)))
    if k == "td":
        ft = {f["name"]: f["ty"] for f in w["classes"][t[1]]["fields"]}
        return sum(count_float_leaves(w, ft.get(a[1]), v, omit) for a, v in o[1])
    return 0


def has_union_float(w, t, seen=None):
    """a float inside a native union is unstructured by run-time class: the user hook fires there too, but
    is not undone when structuring (the union passthrough returns the value) — outside the hook oracle"""
    if isinstance(t, str):
        return False
    k = t[0]
    if k == "union":
        return any(un_nt(m) == "float" for m in t[1])
    if k == "sunion":
        return any(un_nt(m) == "float" or has_union_float(w, m) for m in t[1])
    if k in ("enum", "lit", "nt", "elit"):
        return False
    if k == "ntc":
        t, k = nt_as_tup(w, t), "tup"
    if k == "tup":
        return any(has_union_float(w, x) for x in t[1])
    if k in MAP_KINDS:
        return has_union_float(w, t[1]) or has_union_float(w, t[2])
    if k in ("cls", "td"):
        return any(has_union_float(w, f["ty"]) for f in w["classes"][t[1]]["fields"])
    return has_union_float(w, t[1])


def run_impl(R, fmt, mod, cfg, t, x_abs, xv=None):
    """-> dict(stage, ok, u, data, d, y, exc) — every stage of the real round trip"""
    hooks = Hooks(cfg.get("uhook")) if (cfg.get("uhook") is not None or cfg.get("ehook") is not None) else None
    conv = make_conv(mod, cfg, hooks)
    if cfg.get("ehook") is not None:
        # a user hook for one enum class: members are dumped by value (what json / pyyaml do on their own)
        def un_enum(m, h=hooks):
            h.n_enum += 1
            return m.value

        conv.register_unstructure_hook(R.enums[cfg["ehook"]], un_enum)
    T = R.ty(t)
    if xv is None:
        xv = R.val(x_abs, t)
    out = {"stage": "done", "hooks": hooks, "x": xv, "cfg": cfg}
    try:
        out["u"] = conv.unstructure(xv, unstructure_as=T)
    except Exception as e:  # noqa: BLE001
        out.update(stage="unstructure", exc=e)
        return out
    try:
        out["data"] = conv.dumps(xv, unstructure_as=T)
    except Exception as e:  # noqa: BLE001
        out.update(stage="dumps", exc=e)
        return out
    try:
        out["d"] = lib_decode(fmt, out["data"])
    except Exception as e:  # noqa: BLE001
        out.update(stage="decode", exc=e)
        return out
    try:
        out["y"] = conv.loads(out["data"], T)
    except Exception as e:  # noqa: BLE001
        out.update(stage="loads", exc=e)
        return out
    try:
        out["y2"] = conv.structure(out["d"], T)
    except Exception as e:  # noqa: BLE001
        out["y2exc"] = e
    return out


def oracle(w, cfg, t, x_abs, res):
    """the property, on the implementation: -> None or (stage, text)"""
    if res["stage"] != "done":
        return (res["stage"], f"{res['stage']} raised {type(res['exc']).__name__}: {str(res['exc'])[:160]}")
    if not same(res["x"], res["y"], omit=bool(res.get("cfg", {}).get("omit"))):
        return ("mismatch", f"loads(dumps(x)) = {res['y']!r:.200} differs from x = {res['x']!r:.200}")
    return None


def hook_oracle(w, t, x_abs, res):
    """user hooks honoured: each float-typed leaf passes through each hook (called: unstructure, dumps, loads, structure)"""
    h = res["hooks"]
    if h is None or res["stage"] != "done":
        return None
    cfg = res.get("cfg", {})
    if cfg.get("ehook") is not None and not cfg.get("omit"):
        n = 2 * count_members(x_abs, cfg["ehook"])      # (unstructure, dumps)
        if h.n_enum != n:
            return ("hooks", f"user hook of enum {cfg['ehook']} not honoured: ran {h.n_enum}x, expected {n}x "
                             "(once per member of that class in x and per unstructuring)")
    if h.d is None or has_union_float(w, t):
        return None
    n = count_float_leaves(w, t, x_abs, bool(res.get("cfg", {}).get("omit")))
    exp_st = n * (1 if "y2exc" in res else 2)
    if h.n_un != 2 * n or h.n_st != exp_st:
        return ("hooks", f"user float hooks not honoured: {n} float leaves, unstructure hook ran {h.n_un}x (expected {2 * n}), "
                         f"structure hook ran {h.n_st}x (expected {exp_st})")
    return None


def count_members(o, ei):
    tag = o[0]
    if tag == "e":
        return int(o[1] == ei)
    if tag in ("l", "t", "q", "S", "F"):
        return sum(count_members(x, ei) for x in o[1])
    if tag == "d":
        return sum(count_members(k, ei) + count_members(v, ei) for k, v in o[1])
    if tag == "I":
        return sum(count_members(v, ei) for _, v in o[2])
    return 0


def check_oracle(w, cfg, t, x_abs, res):
    return oracle(w, cfg, t, x_abs, res) or hook_oracle(w, t, x_abs, res)


# ------------------------------------------------------------------------------------------------ minimisation

def subpairs(w, t, o):
    """direct (type, value) components, and single-element versions of containers"""
    if isinstance(t, str) or t is None:
        return
    k, tag = t[0], o[0]
    if k == "nt":
        yield t[1], o
        return
    if k == "opt":
        if tag != "N":
            yield t[1], o
        return
    if k == "sunion":
        m = member_of(w, t, o)
        if m is not None:
            yield m, o
        return
    if k == "ntc":
        for f, x in zip(w["classes"][t[1]]["fields"], o[1]):
            yield f["ty"], x
        return
    if k in SEQ_KINDS + SET_KINDS:
        for x in o[1]:
            yield t[1], x
        if len(o[1]) > 1:
            for x in o[1]:
                yield t, (tag, [x])
    elif k == "tup":
        for tt, x in zip(t[1], o[1]):
            yield tt, x
    elif k in MAP_KINDS or k == "counter":
        vt = "int" if k == "counter" else t[2]
        for a, b in o[1]:
            yield t[1], a
            yield vt, b
        if len(o[1]) > 1:
            for a, b in o[1]:
                yield t, ("d", [(a, b)])
    elif k == "cls":
        for f, (_, v) in zip(w["classes"][t[1]]["fields"], o[2]):
            yield f["ty"], v
    elif k == "td":
        ft = {f["name"]: f["ty"] for f in w["classes"][t[1]]["fields"]}
        for a, v in o[1]:
            yield ft[a[1]], v


def minimise(R, w, fmt, mod, cfg, t, x, budget=60):
    bad = None
    while budget > 0:
        for t2, x2 in subpairs(w, t, x):
            budget -= 1
            try:
                res = run_impl(R, fmt, mod, cfg, t2, x2)
            except Exception:  # noqa: BLE001
                continue
            b = check_oracle(w, cfg, t2, x2, res)
            if b:
                t, x, bad = t2, x2, b
                break
        else:
            break
    return t, x, bad


# ------------------------------------------------------------------------------------------------ known findings

def _key_of_map(case):
    t = case.get("ty")
    if isinstance(t, (list, tuple)) and t and t[0] in MAP_KINDS + ["counter"]:
        kt = t[1]
        return kt[1] if isinstance(kt, (list, tuple)) and kt[0] == "nt" else kt
    return None


def _enum_int_valued(case, kt):
    return (isinstance(kt, (list, tuple)) and kt[0] == "enum"
            and any(v[0] == "i" for v in case["world"]["enums"][kt[1]]["vals"]))


@framework.finding("json-int-enum-mapping-key")
def f17(case):
    kt = _key_of_map(case)
    return (case.get("fmt") in ("json", "msgspec") and case.get("stage") == "loads" and kt is not None
            and _enum_int_valued(case, kt) and case.get("minimal") is True)


@framework.finding("json-bool-mapping-key")
def f18(case):
    kt = _key_of_map(case)
    if kt != "bool" or case.get("minimal") is not True:
        return False
    return ((case.get("fmt") == "json" and case.get("stage") == "mismatch")
            or (case.get("fmt") == "msgspec" and case.get("stage") == "dumps" and case.get("exc") == "TypeError"))


@framework.finding("msgspec-deque-passthrough")
def f19(case):
    t = case.get("ty")
    return (case.get("fmt") == "msgspec" and isinstance(t, (list, tuple)) and t[0] == "deque"
            and case.get("stage") in ("unstructure", "dumps") and case.get("exc") == "TypeError"
            and case.get("minimal") is True)


@framework.finding("json-nonstr-literal-mapping-key")
def f34(case):
    kt = _key_of_map(case)
    return (case.get("fmt") in ("json", "msgspec") and case.get("minimal") is True and kt is not None
            and isinstance(kt, (list, tuple)) and kt[0] == "lit" and any(v[0] != "s" for v in kt[1])
            and ((case.get("stage") == "loads")
                 or (case.get("fmt") == "msgspec" and case.get("stage") == "dumps" and case.get("exc") == "TypeError")
                 or (case.get("fmt") == "json" and case.get("stage") == "mismatch" and any(v[0] == "b" for v in kt[1]))))


def _plain_str_enum(case, kt):
    return (isinstance(kt, (list, tuple)) and kt[0] == "enum" and case["world"]["enums"][kt[1]]["kind"] == "plain"
            and any(v[0] == "s" for v in case["world"]["enums"][kt[1]]["vals"]))


def _rt_has_plain_str_enum_key(case, t):
    """inside a TypedDict (unstructured by run-time class on msgspec): a mapping keyed by a plain str-valued Enum"""
    if isinstance(t, str):
        return False
    k = t[0]
    if k in MAP_KINDS:
        return _plain_str_enum(case, t[1]) or _rt_has_plain_str_enum_key(case, t[2])
    if k == "ntc":
        t, k = nt_as_tup(case["world"], t), "tup"
    if k == "tup":
        return any(_rt_has_plain_str_enum_key(case, x) for x in t[1])
    if k == "td":
        return any(_rt_has_plain_str_enum_key(case, f["ty"]) for f in case["world"]["classes"][t[1]]["fields"])
    if k in ("enum", "lit", "union", "cls", "counter", "nt", "sunion", "elit"):
        return False
    return _rt_has_plain_str_enum_key(case, t[1])


@framework.finding("msgspec-plain-str-enum-mapping-key")
def f20(case):
    kt = _key_of_map(case)
    t = case.get("ty")
    if not (case.get("fmt") == "msgspec" and case.get("minimal") is True and case.get("stage") == "dumps"
            and case.get("exc") == "TypeError"):
        return False
    if isinstance(t, (list, tuple)) and t[0] == "td":
        return _rt_has_plain_str_enum_key(case, t)
    return _plain_str_enum(case, kt)


NT_ENUMKEY_SIG = "msgspec-namedtuple-identity-over-to-builtins"


@framework.finding(NT_ENUMKEY_SIG)
def f63(case):
    """msgspec: a NamedTuple whose field hooks are all pass-throughs is left to the encoder (identity) even when a field
    needs to_builtins: a mapping keyed by a plain str-valued Enum inside it reaches the encoder with member keys"""
    t = case.get("ty")
    return (case.get("fmt") == "msgspec" and case.get("minimal") is True and isinstance(t, (list, tuple)) and t[0] == "ntc"
            and case.get("stage") == "dumps" and case.get("exc") == "TypeError" and _rt_has_plain_str_enum_key(case, t))


def nt_enumkey_shape(w, t):
    """does the type reach a NamedTuple holding (outside classes) a mapping keyed by a plain str-valued Enum?"""
    if isinstance(t, str) or t is None:
        return False
    k = t[0]
    if k == "ntc":
        return _rt_has_plain_str_enum_key({"world": w}, t)
    if k in ("enum", "lit", "nt", "union", "elit"):
        return False
    if k in ("tup", "sunion"):
        return any(nt_enumkey_shape(w, x) for x in t[1])
    if k in MAP_KINDS:
        return nt_enumkey_shape(w, t[1]) or nt_enumkey_shape(w, t[2])
    if k in ("cls", "td"):
        return any(nt_enumkey_shape(w, f["ty"]) for f in w["classes"][t[1]]["fields"])
    return nt_enumkey_shape(w, t[1])


NT_ENUMKEY_WITNESS = ({"enums": [{"kind": "plain", "vals": [("s", "a")]}],
                       "classes": [{"kind": "ntup", "fields": [{"name": "a", "ty": ("dict", ("enum", 0), "int"), "required": True}]}]},
                      ("ntc", 0), ("t", [("d", [(("e", 0, 0), ("i", 1))])]))


PROVISIONAL = [
    {"id": "F17", "property": "C16", "kind": "finding", "signature": "json-int-enum-mapping-key",
     "what": "json/msgspec converters: a mapping keyed by an Enum with int values (plain or int mix-in) is dumped with the keys as JSON strings (\"1\") and loads then fails: E(\"1\") is not a valid member"},
    {"id": "F18", "property": "C16", "kind": "finding", "signature": "json-bool-mapping-key",
     "what": "bool mapping keys: the json converter dumps them as \"true\"/\"false\" and loads applies bool(\"false\") == True (keys collapse); the msgspec converter passes the dict through and the encoder rejects bool keys"},
    {"id": "F19", "property": "C16", "kind": "finding", "signature": "msgspec-deque-passthrough",
     "what": "msgspec converter: deque[T] whose element handler is a pass-through (identity / to_builtins) is handed to msgspec unchanged, which cannot encode deques: dumps raises TypeError"},
    {"id": "F41", "property": "C16", "kind": "finding", "signature": "json-nonstr-literal-mapping-key",
     "what": "json/msgspec converters: a mapping keyed by a Literal with int or bool members comes back with string keys (\"1\", \"true\") that the literal hook rejects (msgspec: the encoder refuses bool keys)"},
    {"id": "F20", "property": "C16", "kind": "finding", "signature": "msgspec-plain-str-enum-mapping-key",
     "what": "msgspec converter: a mapping keyed by a plain Enum with str values whose value type needs a cattrs hook keeps the members as keys, and the msgspec encoder refuses them: dumps raises TypeError"},
    {"id": "F63", "property": "C16", "kind": "finding", "signature": "msgspec-namedtuple-identity-over-to-builtins",
     "what": "msgspec converter: namedtuple_unstructure_factory returns identity when every field hook is identity OR to_builtins, so a NamedTuple with a field that needs to_builtins is left to the encoder, which accepts less: NT(a: dict[PlainStrEnum, int]) -> dumps TypeError (Only dicts with str-like or number-like keys), while the same mapping alone or as a class field is handed to to_builtins and round-trips"},
    {"id": "F50", "property": "C16", "kind": "finding", "signature": "msgspec-dataclass-string-annotations",
     "what": "msgspec converter: msgspec_attrs_unstructure_factory resolves string annotations (PEP 563) of attrs classes only; for a dataclass the pass-through test looks up the hook of the *string* 'float' (identity), so the dataclass is handed to to_builtins: user hooks of its field types are skipped on dump but applied on load, attrs classes with private attributes inside it lose the underscore (F8 again, through string annotations)"},
]


def case_stage(bad, res):
    exc = res.get("exc")
    return {"stage": bad[0], "exc": type(exc).__name__ if exc is not None and bad[0] == res["stage"] else None}


# ------------------------------------------------------------------------------------------------ leaf laws

def check_leaf_laws(chk, objs):
    """the string-level laws assumed in `Env.OK`, on the leaves of this case (real library behaviour)"""
    acc = {"y": set(), "o": set(), "s": set()}
    for o in objs:
        collect_leaves(o, acc)
    bad = []
    for h in acc["y"]:
        b = bytes.fromhex(h)
        if b85decode(b85encode(b).decode()) != b or b64decode(b64encode(b).decode()) != b:
            bad.append(("bytes", h))
    for n in acc["o"]:
        v = real_dt(n)
        back = (_dt.datetime if n % 2 == 0 else _dt.date).fromisoformat(v.isoformat())
        if back != v or type(back) is not type(v):
            bad.append(("iso", n))
    return bad


def num_laws(o, bad):
    t = o[0]
    if t == "i" and int(str(o[1])) != o[1]:
        bad.append(("int", o[1]))
    if t == "f" and float(repr(o[1] / 2)) != o[1] / 2:
        bad.append(("float", o[1]))
    if t in ("l", "t", "q", "S", "F"):
        for x in o[1]:
            num_laws(x, bad)
    if t == "d":
        for k, v in o[1]:
            num_laws(k, bad)
            num_laws(v, bad)
    if t == "I":
        for _, v in o[2]:
            num_laws(v, bad)


# ------------------------------------------------------------------------------------------------ model side

def parse_codec(reply):
    if reply == "unmodelled":
        return None
    p = terms.parse_sx(reply)
    out = {}
    for item in p:
        out[item[0]] = item[1]
    return out


def obj_or_none(px):
    return None if px == "-" else terms.obj_of_px(px)


def eh_sx(cfg):
    return "" if cfg.get("ehook") is None else " +value hook on enum %d" % cfg["ehook"]


def uh_sx(cfg):
    return "-" if cfg.get("uhook") is None else str(cfg["uhook"])


# ------------------------------------------------------------------------------------------------ the check

WITNESSES = [
    # (finding signature, fmt, enums, type, value)
    ("json-int-enum-mapping-key", "json", [{"kind": "int", "vals": [("i", 1)]}], ("dict", ("enum", 0), "int"), ("d", [(("e", 0, 0), ("i", 1))])),
    ("json-int-enum-mapping-key", "msgspec", [{"kind": "plain", "vals": [("i", 1)]}], ("dict", ("enum", 0), "int"), ("d", [(("e", 0, 0), ("i", 1))])),
    ("json-bool-mapping-key", "json", [], ("dict", "bool", "int"), ("d", [(("b", False), ("i", 1))])),
    ("json-bool-mapping-key", "msgspec", [], ("dict", "bool", "int"), ("d", [(("b", False), ("i", 1))])),
    ("msgspec-deque-passthrough", "msgspec", [], ("deque", "int"), ("q", [("i", 1)])),
    ("json-nonstr-literal-mapping-key", "json", [], ("dict", ("lit", [("i", 1)]), "int"), ("d", [(("i", 1), ("i", 1))])),
    ("msgspec-plain-str-enum-mapping-key", "msgspec", [{"kind": "plain", "vals": [("s", "a")]}],
     ("dict", ("enum", 0), ("opt", "int")), ("d", [(("e", 0, 0), ("i", 1))])),
]


def opts_sx(cfg):
    o = cfg.get("ovr")
    return "%d%d%s" % (bool(cfg.get("omit")), bool(cfg.get("pac")),
                       "-" if o is None else "{" + ",".join(f"{k}:{v}" for k, v in o) + "}")


def reaches_strann_dc(w, t, kinds=("dc",)):
    """does the type reach a class of one of `kinds` whose annotations are strings?"""
    if isinstance(t, str) or t is None:
        return False
    k = t[0]
    if k in ("enum", "lit", "nt", "union", "elit"):
        return False
    if k == "ntc":
        t, k = nt_as_tup(w, t), "tup"
    if k in ("tup", "sunion"):
        return any(reaches_strann_dc(w, x, kinds) for x in t[1])
    if k in MAP_KINDS:
        return reaches_strann_dc(w, t[1], kinds) or reaches_strann_dc(w, t[2], kinds)
    if k in ("cls", "td"):
        c = w["classes"][t[1]]
        return (bool(c.get("strann")) and c["kind"] in kinds) or any(reaches_strann_dc(w, f["ty"], kinds) for f in c["fields"])
    return reaches_strann_dc(w, t[1], kinds)


STRANN_SIG = "msgspec-dataclass-string-annotations"
STRANN_WITNESSES = [
    # a dataclass with string annotations: (a) a hooked float field, (b) a field holding an attrs class with a private attribute
    ({"enums": [], "classes": [{"kind": "dc", "strann": True, "fields": [{"name": "a", "ty": "float", "required": True}]}]},
     ("cls", 0), ("I", 0, [("a", ("f", 2))]), 2000),
    ({"enums": [], "classes": [{"kind": "attrs", "fields": [{"name": "_p", "ty": "int", "required": True}]},
                               {"kind": "dc", "strann": True, "fields": [{"name": "x", "ty": ("cls", 0), "required": True}]}]},
     ("cls", 1), ("I", 1, [("x", ("I", 0, [("_p", ("i", 1))]))]), None),
]


@framework.finding(STRANN_SIG)
def f50(case):
    t = case.get("ty")
    if not (case.get("fmt") == "msgspec" and case.get("minimal") is True and isinstance(t, (list, tuple)) and t[0] == "cls"):
        return False
    c = case["world"]["classes"][t[1]]
    return c["kind"] == "dc" and c.get("strann") is True and case.get("plain_annotations_pass") is True


def strann_defect_present(ran):
    """does the msgspec converter decide the pass-through of a dataclass on its unresolved (string) annotations?"""
    if "msgspec" not in ran:
        return False
    for w, t, x, uh in STRANN_WITNESSES:
        cfg = {"detailed": True, "forbid": False, "uhook": uh}
        res = run_impl(R16(w), "msgspec", ran["msgspec"], cfg, t, x)
        if check_oracle(w, cfg, t, x, res) is not None:
            return True
    return False


def one_case(chk, drv, R, w, fmt, mod, cfg, t, x, corr_fail, tag="", model=True):
    """evaluate one (format, configuration, type, value); returns the oracle verdict"""
    try:
        xv = R.val(x, t)
        x = R.abs(xv)   # re-read: fixes the iteration order of sets to what cattrs will see
    except Exception:  # noqa: BLE001
        chk.note("value-not-realisable")
        return None
    res = run_impl(R, fmt, mod, cfg, t, x, xv)
    bad = check_oracle(w, cfg, t, x, res)
    case = {"fmt": fmt, "cfg": cfg, "world": w, "ty": t, "x": x}
    key = fmt + uh_sx(cfg) + opts_sx(cfg) + repr(t) + terms.canon_sx(x)
    chk.count(key, nontrivial=not isinstance(t, str),
              sample={"fmt": fmt, "type": ty_sx(w, t), "value": terms.canon_sx(x)[:300], "cfg": cfg})
    ovr = cfg.get("ovr")
    chk.note("fmt:" + fmt, "ty:" + (t if isinstance(t, str) else t[0]), "outcome:" + (bad[0] if bad else "ok"),
             "uhook:" + ("yes" if cfg.get("uhook") is not None else "no"),
             "opt:overrides:" + ("absent" if ovr is None else "{}" if not ovr else "user"),
             "opt:omit_if_default:%d" % bool(cfg.get("omit")), "opt:prefer_attrib_converters:%d" % bool(cfg.get("pac")))
    if reaches_strann_dc(w, t, ("dc", "attrs")):
        chk.note("reaches-string-annotated-class")
    if reaches_alias(w, t):
        chk.note("reaches-attrs-field-with-explicit-alias")
    # ---- model
    objs = [x]
    u_abs = d_abs = y_abs = None
    try:
        if "u" in res:
            u_abs = R.abs(res["u"])
        if "d" in res:
            d_abs = R.abs(res["d"])
        if "y" in res:
            y_abs = R.abs(res["y"])
    except Unrepresentable:
        chk.note("impl-output-outside-universe")
    env = env_sx([x, u_abs, d_abs, y_abs])
    laws = check_leaf_laws(chk, [x])
    num_laws(x, laws)
    if laws:
        corr_fail.append(("codec-hypothesis", case, f"assumed leaf law fails on {laws[:3]}"))
    rm = drv.ask("CODEC %s %s %s %s %s %s" % (fmt, uh_sx(cfg), enums_sx(w), env, ty_sx(w, t), terms.obj_sx(x)))
    m = parse_codec(rm) if not rm.startswith("bad") else None
    if rm.startswith("bad"):
        raise lean.InfraError("driver rejected CODEC: " + rm + " :: " + ty_sx(w, t) + " " + terms.obj_sx(x))
    # (dict equality ignores order: yaml's safe_dump sorts keys, and so does a user's sorting mapping override)
    sort_d = fmt == "yaml" or any(v == "sdict" for _, v in (cfg.get("ovr") or []))
    SORT_CLS[0] = fmt == "msgspec"
    if not model:
        m = None
    if m is None:
        chk.unmodelled += 1
        chk.note("unmodelled")
    else:
        chk.note("sup:" + m["sup"], "in-proved-fragment:" + ("1" if m["sup"] == "1" and m.get("frag") == "1" else "0"))
        m_enc = m["enc"] == "1"
        m_st = m["st"]
        m_ok = m_enc and m_st != "err" and m_st != "-"
        # composite: does the model predict the round trip, and the same result?
        impl_ok = res["stage"] == "done"
        if m["sup"] == "1" and m["lim"] == "1" and not (m_ok and tcanon(w, t, terms.obj_of_px(m_st[1]), sort_d) == tcanon(w, t, x, sort_d)):
            raise lean.InfraError("model contradicts theorem C16_roundtrip on " + ty_sx(w, t) + " " + terms.obj_sx(x) + " -> " + rm[:300])
        if impl_ok != m_ok:
            corr_fail.append(("CODEC", case, f"impl stage={res['stage']} model enc={m['enc']} st={str(m_st)[:80]}"))
        elif m["sup"] != "1" and sort_d and fmt != "yaml":
            # outside the supported types keys may collapse (finding F18) and the survivor depends on the order of
            # the entries, which a user's sorting mapping override changes: nothing to compare
            chk.note("codec-result-not-compared:unsupported-type+sorting-override")
        elif impl_ok and y_abs is not None and tcanon(w, t, y_abs, sort_d) != tcanon(w, t, terms.obj_of_px(m_st[1]), sort_d):
            corr_fail.append(("CODEC", case, "structured results differ: impl=" + terms.canon_sx(y_abs)[:200] + " model=" + str(m_st)[:200]))
        # stage: unstructured form.  The model has no user collection overrides: with a non-empty user mapping the
        # container classes (and, for `sorted`, the order) of the unstructured form are the user's; what the model
        # claims there is that they change nothing after the codec (composite above, codec hypothesis and STP below)
        if u_abs is not None and ovr:
            chk.note("unp-not-compared:user-overrides")
        if u_abs is not None and not ovr:
            mu = terms.obj_of_px(m["un"])
            if tcanon(w, t, mu) != tcanon(w, t, u_abs):
                corr_fail.append(("UNP", case, "unstructured forms differ: impl=" + terms.canon_sx(u_abs)[:200] + " model=" + terms.canon_sx(mu)[:200]))
        # stage: codec hypothesis on the real unstructured data
        if u_abs is not None:
            rn = drv.ask("NORM %s %s %s %s" % (fmt, enums_sx(w), env, terms.obj_sx(u_abs)))
            n = parse_codec(rn)
            if n is None:
                chk.note("norm-unmodelled")
            else:
                real_enc = "data" in res
                if (n["enc"] == "1") != real_enc:
                    corr_fail.append(("codec-hypothesis", case, f"encodable: model={n['enc']} library={'ok' if real_enc else res.get('exc')!r} on r={terms.canon_sx(u_abs)[:200]}"))
                elif real_enc and d_abs is not None:
                    a, b = terms.obj_of_px(n["norm"]), d_abs
                    if sort_d:
                        a, b = sort_dicts(a), sort_dicts(b)
                    if terms.canon_sx(a) != terms.canon_sx(b):
                        corr_fail.append(("codec-hypothesis", case, "decode(encode(r)) differs: library=" + terms.canon_sx(b)[:200] + " model=" + terms.canon_sx(a)[:200]))
                chk.note("codec-checked")
        # stage: structure of the real decoded data
        if d_abs is not None:
            rs = drv.ask("STP %s %s %s %s %s %s" % (fmt, uh_sx(cfg), enums_sx(w), env, ty_sx(w, t), terms.obj_sx(d_abs)))
            if rs == "unmodelled":
                chk.note("stp-unmodelled")
            else:
                real_ok = "y" in res
                if (rs != "err") != real_ok:
                    corr_fail.append(("STP", case, f"structure(decoded): impl={'ok' if real_ok else 'raises'} model={rs[:100]}"))
                elif real_ok and y_abs is not None:
                    ms = terms.obj_of_px(terms.parse_sx(rs)[1])
                    if tcanon(w, t, ms, sort_d) != tcanon(w, t, y_abs, sort_d):
                        corr_fail.append(("STP", case, "structure(decoded) differs: impl=" + terms.canon_sx(y_abs)[:200] + " model=" + rs[:200]))
    # ---- oracle verdict
    if bad:
        report(chk, R, w, fmt, mod, cfg, t, x, bad)
    return bad


def report(chk, R, w, fmt, mod, cfg, t, x, bad, stream=None):
    """an oracle failure: minimise, describe the minimal case for the finding predicates, record"""
    t2, x2, bad2 = minimise(R, w, fmt, mod, cfg, t, x)
    if bad2 is None:
        t2, x2, bad2 = t, x, bad
    res2 = run_impl(R, fmt, mod, cfg, t2, x2)
    mcase = {"fmt": fmt, "cfg": cfg, "world": w, "ty": t2, "x": x2, "minimal": True, "original": {"ty": t, "x": x}}
    if stream:
        mcase["stream"] = stream
    mcase.update(case_stage(bad2, res2))
    t2 = un_nt(t2)
    if not isinstance(t2, str) and t2[0] == "cls" and w["classes"][t2[1]].get("strann"):
        mcase["plain_annotations_pass"] = plain_annotations_pass(w, fmt, mod, cfg, t2, x2)
    opts = opts_sx(cfg)
    chk.violation(f"C16 oracle [{(stream + ' stream, ') if stream else ''}{fmt}{' +float hooks' if cfg.get('uhook') is not None else ''}{eh_sx(cfg)}"
                  f"{'' if opts == '00-' else ' options=' + opts}] {bad2[1]} "
                  f"[T={ty_desc(w, t2)} x={terms.canon_sx(x2)[:200]}]", mcase)


def plain_annotations_pass(w, fmt, mod, cfg, t, x):
    """the same class with its annotations given as type objects instead of strings"""
    w3 = dict(w, classes=[{k: v for k, v in c.items() if k != "strann"} if i == t[1] else c
                          for i, c in enumerate(w["classes"])])
    try:
        r3 = run_impl(R16(w3), fmt, mod, cfg, t, x)
        return check_oracle(w3, cfg, t, x, r3) is None
    except Exception:  # noqa: BLE001
        return False


def run(chk: framework.Check):
    if os.environ.get("VERIF_C16_PROVISIONAL_FINDINGS") == "1":
        have = {f["signature"] for f in chk.known}
        chk.known += [f for f in PROVISIONAL if f["signature"] not in have]
    rng = chk.rng
    G = G16(rng)
    drv = lean.Driver()
    ran, skipped = load_formats()
    fmts = [f for f in MODELLED if f in ran]
    chk.extra["formats_exercised"] = fmts
    chk.extra["formats_not_exercised"] = {**skipped, **{f: "importable, no model layer" for f in ran if f not in MODELLED}}
    print("C16 formats exercised: %s; not exercised: %s" % (", ".join(fmts) or "-",
          ", ".join(f"{k} ({v})" for k, v in chk.extra["formats_not_exercised"].items()) or "-"))
    if not fmts:
        raise lean.InfraError("none of json/pyyaml/msgspec is importable")
    corr_fail = []
    # ---- recorded findings: replay the witnesses (a stale entry is reported, never an alarm)
    for sig, fmt, enums, t, x in WITNESSES:
        if fmt not in ran:
            continue
        w = {"enums": enums, "classes": []}
        R = R16(w)
        cfg = {"detailed": True, "forbid": False, "uhook": None}
        res = run_impl(R, fmt, ran[fmt], cfg, t, x)
        if check_oracle(w, cfg, t, x, res) is None:
            print(f"NOTE C16: recorded finding `{sig}` no longer reproduces on {fmt} (stale known_findings entry?)")
            chk.note("witness-stale:" + sig)
        else:
            chk.note("witness-reproduced:" + sig)
    # ---- string annotations on the msgspec converter (see STRANN_WITNESSES): while the defect is present the model
    # (which knows no annotation spelling) is not compared there, and the cases are run at all only if it is recorded
    strann_defect = strann_defect_present(ran)
    strann_recorded = any(f.get("signature") == STRANN_SIG for f in chk.known)
    if strann_defect:
        chk.note("msgspec-string-annotated-dataclass:defect-present:" + ("recorded" if strann_recorded else "NOT-recorded(cases-skipped)"))
        if not strann_recorded:
            print("NOTE C16: the msgspec converter decides the pass-through of a dataclass on its unresolved string annotations "
                  "(user hooks / private attributes of field types ignored); no known_findings entry `%s`: msgspec cases that "
                  "reach a string-annotated dataclass are skipped until the defect is repaired or recorded" % STRANN_SIG)
    # ---- msgspec NamedTuples left to the encoder although a field needs to_builtins (NT_ENUMKEY_WITNESS): while the
    # defect is present and not recorded, msgspec cases of that shape are skipped
    nt_gate = False
    if "msgspec" in ran:
        w0, t0, x0 = NT_ENUMKEY_WITNESS
        cfg0 = {"detailed": True, "forbid": False, "uhook": None}
        if check_oracle(w0, cfg0, t0, x0, run_impl(R16(w0), "msgspec", ran["msgspec"], cfg0, t0, x0)) is not None:
            recorded = any(f.get("signature") == NT_ENUMKEY_SIG for f in chk.known)
            nt_gate = not recorded
            chk.note("msgspec-namedtuple-identity-over-to-builtins:defect-present:" + ("recorded" if recorded else "NOT-recorded(cases-skipped)"))
            if nt_gate:
                print("NOTE C16: msgspec leaves a NamedTuple with a to_builtins field to the encoder (dict keyed by a plain "
                      "str-valued Enum inside a NamedTuple: dumps TypeError); no known_findings entry `%s`: msgspec cases of "
                      "that shape are skipped until the defect is repaired or recorded" % NT_ENUMKEY_SIG)
    n_worlds = 260 if chk.tier == "quick" else 2600
    for wi in range(n_worlds):
        w = G.world()
        try:
            R = R16(w)
        except Exception as e:  # noqa: BLE001
            chk.note("world-rejected-by-python:" + type(e).__name__)
            continue
        for ti in range(5):
            if ti == 0 and w["classes"]:
                ci = rng.randrange(len(w["classes"]))
                t = cls_ref(w, ci)
                if rng.random() < 0.5:
                    t = (rng.choice(["list", "opt", "tup*", "deque"]), t) if rng.random() < 0.7 else ("dict", "str", t)
            else:
                t = G.type(w, rng.randint(0, 3))
            x0 = G.value(w, t, 3)
            for fmt in fmts:
                cfg = {"detailed": rng.random() < 0.6, "forbid": rng.random() < 0.3,
                       "uhook": (rng.choice([2000, 1, -3, 7]) if rng.random() < 0.35 else None), **gen_options(rng)}
                if cfg["uhook"] is not None and has_union_float(w, t):
                    cfg["uhook"] = None   # a float in a native union is unstructured by run-time class (hook) but passed through when structuring
                if uses_nonnative_union(w, t, fmt):
                    chk.note("skipped:non-native-union:" + fmt)
                    continue
                model = True
                if fmt == "msgspec" and strann_defect and reaches_strann_dc(w, t):
                    if not strann_recorded:
                        chk.note("skipped:string-annotated-dataclass:msgspec")
                        continue
                    model = False
                if fmt == "msgspec" and nt_gate and nt_enumkey_shape(w, t):
                    chk.note("skipped:namedtuple-with-plain-str-enum-keyed-mapping:msgspec")
                    continue
                if reaches_nt(w, t):
                    # the model is told a NamedTuple is the heterogeneous tuple of its field types (`ty_sx`): exact for
                    # json and pyyaml.  msgspec leaves a NamedTuple with pass-through fields to the library, which
                    # changes the pass-through decisions of whatever contains it: oracle only there
                    chk.note("reaches-namedtuple:" + fmt)
                    if fmt == "msgspec":
                        model = False
                one_case(chk, drv, R, w, fmt, ran[fmt], cfg, t, x0, corr_fail, model=model)
    # ---- extended stream (implementation-only oracle; nothing here is covered by the Lean model or the theorems)
    from harness.props import c16_ext
    c16_ext.run_ext(chk, sys.modules[__name__], ran, fmts, strann_defect and not strann_recorded)
    # ---- decide
    if corr_fail:
        seen = set()
        for op, case, what in corr_fail:
            if op in seen:
                continue
            seen.add(op)
            chk.violation(f"correspondence corr:C16:{op} broken (theorems C16_* no longer tied to the code): {what} "
                          f"[{case['fmt']} T={ty_sx(case['world'], case['ty'])} x={terms.canon_sx(case['x'])[:200]}]",
                          dict(case, corr=op), found_input=False)
    chk.extra["rule"] = ("random enum tables (plain/int/str mix-in) and attrs/dataclass/TypedDict classes (type-object or string "
                         "annotations) x types to depth 3 over int/float/str/bytes/bool/datetime/date/NewTypes of them/enums/"
                         "literals/native unions (incl. NewType members) x conforming values x {json,pyyaml,msgspec} x "
                         "{detailed_validation, forbid_extra_keys, omit_if_default, prefer_attrib_converters, "
                         "unstruct_collection_overrides absent/{}/user entries, float user hooks}; "
                         "non-trivial = non-leaf type; distinct by canonical text.  Histogram keys `ext:*` belong to the "
                         "implementation-only oracle stream (spill-over unions mixing native members / NewTypes with classes "
                         "and collections; unions whose only natively handled members are Literals - next to classes, "
                         "collections, date/datetime, or on their own: keys ext:union-natives:*; classes with defaults and attrs field converters, Literal types mixing enum members "
                         "with primitive alternatives, a user value hook on an enum class): no model, no theorem.  Main stream "
                         "also: attrs fields with explicit aliases (model is alias-blind), typing.NamedTuple classes (the model "
                         "is told the heterogeneous tuple of the field types; json/pyyaml under model+oracle, msgspec oracle only)")
    chk.assumptions = framework.TRUSTED_BASE + [
        "C16 is partial: the serialisation libraries (json, PyYAML, msgspec) are not modelled; their behaviour is the "
        "hypothesis enc/norm of Preconf/Model.lean, diff-checked against the real library on every generated case",
        "string-level CPython behaviour (isoformat/fromisoformat, base85/base64, str/int, repr/float) is abstracted as "
        "left-inverse laws (Env.OK), checked on every generated leaf",
    ]
    drv.close()


def uses_nonnative_union(w, t, fmt, _seen=None):
    if isinstance(t, str):
        return False
    k = t[0]
    if k == "union":
        return any(un_nt(m) not in NATIVE[fmt] for m in t[1])
    if k in ("enum", "lit", "nt", "elit"):
        return False
    if k == "ntc":
        t, k = nt_as_tup(w, t), "tup"
    if k in ("tup", "sunion"):
        return any(uses_nonnative_union(w, x, fmt) for x in t[1] if not isinstance(x, str))
    if k in MAP_KINDS:
        return uses_nonnative_union(w, t[1], fmt) or uses_nonnative_union(w, t[2], fmt)
    if k in ("cls", "td"):
        return any(uses_nonnative_union(w, f["ty"], fmt) for f in w["classes"][t[1]]["fields"])
    return uses_nonnative_union(w, t[1], fmt)


def tuple_ify16(o):
    """JSON -> abstract terms of this component (types and objects)"""
    if isinstance(o, list):
        if o and isinstance(o[0], str):
            tag = o[0]
            if tag in ("l", "t", "q", "S", "F"):
                return (tag, [tuple_ify16(x) for x in o[1]])
            if tag == "d" :
                return (tag, [(tuple_ify16(k), tuple_ify16(v)) for k, v in o[1]])
            if tag == "I":
                return (tag, o[1], [(n, tuple_ify16(v)) for n, v in o[2]])
            if tag in ("N", "b", "i", "f", "s", "y", "e", "o"):
                return tuple(o)
            if tag in ("enum", "cls", "td", "ntc"):
                return (tag, o[1])
            if tag == "lit":
                return (tag, [tuple_ify16(v) for v in o[1]])
            if tag in ("union", "sunion"):
                return (tag, [tuple_ify16(m) for m in o[1]])
            if tag == "tup":
                return (tag, [tuple_ify16(v) for v in o[1]])
            if tag in MAP_KINDS:
                return (tag, tuple_ify16(o[1]), tuple_ify16(o[2]))
            return (tag, tuple_ify16(o[1]))
        return [tuple_ify16(x) for x in o]
    return o


def replay(case):
    ran, _ = load_formats()
    w = case["world"]
    for e in w["enums"]:
        e["vals"] = [tuple_ify16(v) for v in e["vals"]]
    for c in w["classes"]:
        for f in c["fields"]:
            f["ty"] = tuple_ify16(f["ty"])
            if "dflt" in f:
                f["dflt"] = tuple_ify16(f["dflt"])
    t = tuple_ify16(case["ty"])
    x = tuple_ify16(case["x"])
    fmt, cfg = case["fmt"], case["cfg"]
    R = R16(w)
    print("format:", fmt, "cfg:", cfg)
    print("T =", R.ty(t))
    print("x =", repr(R.val(x, t)))
    res = run_impl(R, fmt, ran[fmt], cfg, t, x)
    for k in ("u", "data", "d", "y"):
        if k in res:
            print(f"{k:5}=", repr(res[k])[:400])
    if "exc" in res:
        print("raised at", res["stage"], ":", repr(res["exc"])[:400])
    bad = check_oracle(w, cfg, t, x, res)
    print("oracle:", bad[1] if bad else "holds")
    if case.get("stream") == "ext":
        print("(extended stream: implementation-only oracle, no model)")
        return 1 if bad else 0
    drv = lean.Driver()
    xa = R.abs(R.val(x, t))
    print("model:", drv.ask("CODEC %s %s %s %s %s %s" % (fmt, uh_sx(cfg), enums_sx(w), env_sx([xa]), ty_sx(w, t), terms.obj_sx(xa)))[:600])
    drv.close()
    return 1 if bad else 0


if __name__ == "__main__":
    framework.main(run, "C16")
